import time,sys
exec(open('a3.py').read().split("opcode=Int('opcode')")[0])
opcode=Int('opcode')
key=Bs(IntVal(4),Array('key',I,I)); L=Int('L'); mp=Bs(L,Array('mp',I,I))
pre=And(opcode>=0,opcode<16,L>=0)
byte0=128+opcode
e=[Int('e%d'%j) for j in range(8)]
packQ=And(*[And(x>=0,x<256) for x in e], Sum([e[j]*256**(7-j) for j in range(8)])==L)
def spec(w):
    b0=w[0]; b1=w[1]
    fin=b0/128; rsv=(b0/16)%8; op=b0%16; m=b1/128; l7=b1%128
    def beval(off,k): return Sum([w[off+j]*(256**(k-1-j)) for j in range(k)])
    ext = If(l7<126,0,If(l7==126,2,8))
    plen = If(l7<126,l7,If(l7==126,beval(2,2),beval(2,8)))
    koff=2+ext; k=sl(w,koff,4); poff=koff+4*m; p=sl(w,poff,plen)
    return fin,rsv,op,m,k,p,poff+plen, And(Implies(l7==126, plen>=126), Implies(l7==127, plen>=65536))
def beq(x,y,tag):
    j=Int('sk_'+tag); return And(x.n==y.n, Implies(And(j>=0,j<x.n), x[j]==y[j]))
out=cat(cat(lit(byte0,255,*e),key),mp)
fin,rsv,op,m,k,p,total,minimal=spec(out)
for g,gf in {'payload':beq(p,mp,'p'),'total':total==out.n,'min':minimal,'key':beq(k,key,'k')}.items():
    s=Solver(); s.set('timeout',20000); s.add(pre,And(L>=65536,L<2**63),packQ,Not(gf))
    t=time.time(); r=s.check(); print('p64',g,r,round(time.time()-t,2)); sys.stdout.flush()
# sanity: broken variant must be sat: boundary L<=126 in p8
out=cat(cat(lit(byte0,128+L),key),mp)
fin,rsv,op,m,k,p,total,minimal=spec(out)
s=Solver(); s.add(pre,L<=126,Not(beq(p,mp,'p'))); print('mutant(<=126)',s.check(), s.model()[L])
