import time
from z3 import *
B = SeqSort(IntSort())
def U(x): return Unit(x if is_expr(x) else IntVal(x))
def u(*xs):
    r=U(xs[0])
    for x in xs[1:]: r=Concat(r,U(x))
    return r
def be(n,k): return [ (n/ (256**(k-1-j))) % 256 for j in range(k)]
opcode=Int('opcode'); payload=Const('payload',B); key=Const('key',B); mp=Const('mp',B)
L=Length(mp)
pre=And(opcode>=0,opcode<16, Length(key)==4)
byte0 = 128 + opcode
paths=[('p8', L<126, u(byte0,128+L)),
       ('p16', And(L>=126,L<65536), Concat(u(byte0,254), u(*be(L,2)))),
       ('p64', And(L>=65536, L<2**63), Concat(u(byte0,255), u(*be(L,8))))]
def spec(w, l7case):
    b0=w[0]; b1=w[1]
    fin=b0/128; rsv=(b0/16)%8; op=b0%16; m=b1/128; l7=b1%128
    def beval(off,k): return Sum([w[off+j]*(256**(k-1-j)) for j in range(k)])
    ext = If(l7<126,0,If(l7==126,2,8))
    plen = If(l7<126,l7,If(l7==126,beval(2,2),beval(2,8)))
    koff=2+ext; k = Extract(w,koff,4); poff=koff+4*m; p = Extract(w,poff,plen)
    return fin,rsv,op,m,k,p,poff+plen, And(Implies(l7==126, plen>=126), Implies(l7==127, plen>=65536))
for name,cond,hdr in paths:
    out=Concat(hdr,key,mp)
    fin,rsv,op,m,k,p,total,minimal = spec(out,None)
    goals={'fin':fin==1,'rsv':rsv==0,'op':op==opcode,'m':m==1,'key':k==key,'payload':p==mp,'total':total==Length(out),'minimal':minimal}
    for g,gf in goals.items():
        for tac in ('z3',):
            s=Solver(); s.set('timeout',20000); s.add(pre,cond,Not(gf))
            t=time.time(); r=s.check(); print(name,g,r,round(time.time()-t,2))
