# Parser.feed _ReadUntil branch: RI (no complete sep inside old buffer) + find() contract  ==> result is first match in $in[cut:]
import time
from z3 import *
I=IntSort()
IN=Array('IN',I,I); cut,bl,dl=Ints('cut bl dl')   # old buffer = IN[cut:cut+bl]; chunk = IN[cut+bl : cut+bl+dl]
SEP=[13,10,13,10]
def m(j):  # match of sep at offset j relative to cut in $in
    return And(*[IN[cut+j+k]==SEP[k] for k in range(4)])
j=Int('j'); r=Int('r')
RI=ForAll([j],Implies(And(j>=0,j+4<=bl),Not(m(j))),patterns=[IN[cut+j]])
nb=bl+dl  # new buffer length
find_post=Or(And(r==-1, ForAll([j],Implies(And(j>=0,j+4<=nb),Not(m(j))),patterns=[IN[cut+j]])),
             And(r>=0,r+4<=nb,m(r),ForAll([j],Implies(And(j>=0,j<r),Not(m(j))),patterns=[IN[cut+j]])))
pre=And(cut>=0,bl>=0,dl>0)
# goal 1: not found => RI re-established for new buffer
g1=Implies(r==-1, ForAll([j],Implies(And(j>=0,j+4<=nb),Not(m(j)))))
# goal 2: found => r is the first match in $in[cut:] (spec first_match, independent of bl/dl) and r+4 > bl (progress)
k=Int('k')
g2=Implies(r>=0, And(m(r), Implies(And(k>=0,k<r),Not(m(k))), r+4>bl))
for nm,g in (('notfound',g1),('found',g2)):
    s=Solver(); s.set('timeout',20000); s.add(pre,RI,find_post,Not(g)); t=time.time(); print(nm,s.check(),round(time.time()-t,2))
# mutant: search only the new chunk (misses separators split across reads)
find_post_m=Or(And(r==-1), And(r>=bl,r+4<=nb,m(r),ForAll([j],Implies(And(j>=bl,j<r),Not(m(j))),patterns=[IN[cut+j]])))
s=Solver(); s.set('timeout',20000); s.add(pre,RI,find_post_m,Not(g2)); print('mutant',s.check())
