"""Prototype executor: loop-free functions of lomond.frame / lomond.mask, read from the real source."""
import ast, inspect, importlib, sys, copy
sys.path.insert(0, '/repo')
from z3 import *
from sval import *

class Unsupported(Exception): pass
class MRef:                      # reference to a mutable bytearray object
    def __init__(s, ident): s.ident = ident
class XorRow:                    # _XOR_TABLE[n]
    def __init__(s, n): s.n = n
class Raised:
    def __init__(s, exc): s.exc = exc
class State:
    def __init__(s): s.loc = {}; s.pc = []; s.mem = {}; s.assumed = []; s.obl = []; s.ghost = {}
    def fork(s):
        t = State(); t.loc = dict(s.loc); t.pc = list(s.pc); t.mem = dict(s.mem); t.assumed = list(s.assumed); t.obl = s.obl; t.ghost = dict(s.ghost); return t
    def alloc(s, content):
        ident = 'ba%d' % next(_cnt); s.mem[ident] = content; return MRef(ident)
import itertools; _cnt = itertools.count()

xor = Function('xor', I, I, I)
def get_func(qual):
    modname, _, rest = qual.partition(':')
    mod = importlib.import_module(modname)
    src = inspect.getsourcefile(mod); assert src.startswith('/repo/'), src
    tree = ast.parse(open(src).read())
    node = tree
    for part in rest.split('.'):
        node = next(n for n in node.body if isinstance(n, (ast.FunctionDef, ast.ClassDef)) and n.name == part)
    return node, mod

def feasible(st, extra=()):
    s = Solver(); s.set('timeout', 5000); s.add(*st.pc, *st.assumed, *extra); return s.check() != unsat

class Exec:
    def __init__(s, mod, contracts=None): s.mod = mod; s.contracts = contracts or {}
    # ---- expressions
    def bytes_of(s, v, st):
        if isinstance(v, MRef): return st.mem[v.ident]
        if isinstance(v, SBytes): return v
        if isinstance(v, bytes): return SBytes.lit(list(v))
        raise Unsupported('bytes_of %r' % (v,))
    def truth(s, v, st):
        if isinstance(v, bool): return BoolVal(v)
        if is_bool(v): return v
        if isinstance(v, int): return BoolVal(v != 0)
        if is_int(v): return v != 0
        if v is None: return BoolVal(False)
        if isinstance(v, (SBytes, MRef)): return s.bytes_of(v, st).n > 0
        raise Unsupported('truth %r' % (v,))
    def ev(s, e, st):
        m = getattr(s, 'ev_' + type(e).__name__, None)
        if m is None: raise Unsupported(ast.dump(e)[:80])
        return m(e, st)
    def ev_Constant(s, e, st): return e.value
    def ev_Name(s, e, st):
        if e.id in st.loc: return st.loc[e.id]
        if hasattr(s.mod, e.id): return getattr(s.mod, e.id)
        import builtins; return getattr(builtins, e.id)
    def ev_Attribute(s, e, st):
        base = s.ev(e.value, st)
        if isinstance(base, (SBytes, MRef, XorRow, bytes)): return ('method', base, e.attr)
        return getattr(base, e.attr)
    def ev_Tuple(s, e, st): return tuple(s.ev(x, st) for x in e.elts)
    def ev_IfExp(s, e, st):
        c = s.truth(s.ev(e.test, st), st)
        c = simplify(c)
        if is_true(c): return s.ev(e.body, st)
        if is_false(c): return s.ev(e.orelse, st)
        a, b = s.ev(e.body, st), s.ev(e.orelse, st)
        if all(isinstance(x, int) or is_int(x) for x in (a, b)): return If(c, a, b)
        # decide by path condition (kinds are static; the only symbolic tests here are Option tests)
        if not feasible(st, [Not(c)]): return a
        if not feasible(st, [c]): return b
        raise Unsupported('symbolic IfExp over non-scalars')
    def ev_BinOp(s, e, st):
        a, b = s.ev(e.left, st), s.ev(e.right, st); op = type(e.op).__name__
        if all(isinstance(x, int) and not isinstance(x, bool) for x in (a, b)):
            import operator as O
            return {'LShift': O.lshift, 'BitOr': O.or_, 'Add': O.add, 'Sub': O.sub}[op](a, b)
        if op == 'LShift' and isinstance(b, int): return a * (1 << b)
        if op == 'BitOr': return s.bitop(a, b, st, lambda x, y: x | y)
        if op == 'Add':
            if isinstance(a, (SBytes, MRef, bytes)): return cat(BYTES, [s.bytes_of(a, st), s.bytes_of(b, st)])
            return a + b
        if op == 'Sub': return a - b
        raise Unsupported(op)
    def bitop(s, a, b, st, f, w=16):
        # sound only if both operands are proved within [0, 2^w): emit that as an obligation
        for x in (a, b):
            if not isinstance(x, int): st.obl.append(('bitwidth', list(st.pc), list(st.assumed), And(x >= 0, x < 2 ** w)))
        A = Int2BV(a if not isinstance(a, int) else IntVal(a), w); B = Int2BV(b if not isinstance(b, int) else IntVal(b), w)
        return BV2Int(f(A, B), False)
    def ev_Compare(s, e, st):
        assert len(e.ops) == 1
        a, b = s.ev(e.left, st), s.ev(e.comparators[0], st); op = type(e.ops[0]).__name__
        if op == 'Is': return a is b if (a is None or b is None) and not is_expr(a) and not is_expr(b) else (_ for _ in ()).throw(Unsupported('is'))
        return {'Lt': lambda: a < b, 'LtE': lambda: a <= b, 'Gt': lambda: a > b, 'GtE': lambda: a >= b, 'Eq': lambda: a == b, 'NotEq': lambda: a != b}[op]()
    def ev_UnaryOp(s, e, st):
        v = s.ev(e.operand, st)
        if isinstance(e.op, ast.Not): return Not(s.truth(v, st))
        raise Unsupported('unary')
    def ev_Subscript(s, e, st):
        base = s.ev(e.value, st)
        if base is getattr(s.mod, '_XOR_TABLE', object()):
            return XorRow(s.ev(e.slice, st))
        if isinstance(e.slice, ast.Slice):
            b = s.bytes_of(base, st); sl = e.slice
            lo = s.ev(sl.lower, st) if sl.lower else 0; step = s.ev(sl.step, st) if sl.step else 1
            if sl.upper is None and isinstance(lo, int) and isinstance(step, int): 
                r = strided(b, lo, step); r.kind = b.kind; return r if b.kind == BYTES else st.alloc(r)
        raise Unsupported('subscript')
    def ev_GeneratorExp(s, e, st): return ('genexp', e)
    def ev_Call(s, e, st):
        f = s.ev(e.func, st); args = [s.ev(a, st) for a in e.args]; kw = {k.arg: s.ev(k.value, st) for k in e.keywords}
        return s.call(f, args, kw, st, e)
    def call(s, f, args, kw, st, e):
        import struct, builtins
        if f is builtins.isinstance:
            v, T = args
            k = BYTEARRAY if isinstance(v, MRef) else v.kind if isinstance(v, SBytes) else type(v).__name__
            return {bytes: k == BYTES, bytearray: k == BYTEARRAY}[T]
        if f is builtins.bytearray: return st.alloc(SBytes(BYTEARRAY, s.bytes_of(args[0], st).n, s.bytes_of(args[0], st).at))
        if f is builtins.bytes: b = s.bytes_of(args[0], st); return SBytes(BYTES, b.n, b.at)
        if f is builtins.len: return s.bytes_of(args[0], st).n
        if isinstance(f, tuple) and f[0] == 'method':
            _, recv, name = f
            if name == 'translate' and isinstance(args[0], XorRow):
                b = s.bytes_of(recv, st); k = args[0].n
                r = SBytes(b.kind, b.n, lambda j: xor(b.at(j), k)); return r if b.kind == BYTES else st.alloc(r)
            if name == 'join' and recv == b'':
                return cat(BYTES, [s.bytes_of(p, st) for p in args[0]])
        if getattr(f, '__self__', None).__class__ is struct.Struct:      # bound Struct.pack
            fmt = f.__self__.format; fmt = fmt.decode() if isinstance(fmt, bytes) else fmt
            return s.struct_pack(fmt, args, st)
        q = (getattr(f, '__module__', '') or '') + ':' + getattr(f, '__qualname__', repr(f))
        if f is getattr(s.mod, 'make_masking_key', None):
            k = SBytes.sym('key!%d' % next(_cnt)); st.assumed += [k.n == 4, k.wf()]; st.ghost['key_used'] = k; return k
        if q in s.contracts: return s.contracts[q](s, st, args, kw)
        raise Unsupported('call %s' % q)
    def struct_pack(s, fmt, args, st):
        sizes = {'B': 1, 'H': 2, 'Q': 8}; fmt = fmt.lstrip('!'); out = []
        if fmt == '4s':
            b = s.bytes_of(args[0], st); st.obl.append(('struct-4s', list(st.pc), list(st.assumed), b.n == 4)); return SBytes(BYTES, IntVal(4), b.at)
        for ch, a in zip(fmt, args):
            k = sizes[ch]; a = IntVal(a) if isinstance(a, int) else a
            st.obl.append(('struct-range:' + ch, list(st.pc), list(st.assumed), And(a >= 0, a < 256 ** k)))   # else struct.error
            bs = [fresh('pk') for _ in range(k)]
            st.assumed += [And(x >= 0, x < 256) for x in bs] + [Sum([bs[j] * 256 ** (k - 1 - j) for j in range(k)]) == a]
            out += bs
        return SBytes.lit(out)
    # ---- statements: returns list of (kind, value, state)
    def block(s, stmts, st):
        outs = []; cur = [st]
        for stmt in stmts:
            nxt = []
            for c in cur:
                for kind, val, st2 in s.stmt(stmt, c):
                    (nxt if kind == 'normal' else outs).append((kind, val, st2) if kind != 'normal' else st2)
            cur = nxt
        return outs + [('normal', None, c) for c in cur]
    def stmt(s, n, st):
        if isinstance(n, ast.Expr):
            if isinstance(n.value, ast.Constant): return [('normal', None, st)]      # docstring: dropped
            s.ev(n.value, st); return [('normal', None, st)]
        if isinstance(n, ast.Return): return [('return', s.ev(n.value, st) if n.value else None, st)]
        if isinstance(n, ast.Raise):
            exc = n.exc; cls = s.ev(exc.func, st) if isinstance(exc, ast.Call) else s.ev(exc, st); return [('raise', cls, st)]
        if isinstance(n, ast.Assign):
            v = s.ev(n.value, st); t = n.targets[0]; return s.assign(t, v, st)
        if isinstance(n, ast.If):
            c = s.truth(s.ev(n.test, st), st); res = []
            for cond, body in ((c, n.body), (Not(c), n.orelse)):
                st2 = st.fork(); st2.pc.append(simplify(cond))
                if feasible(st2): res += s.block(body, st2)
            return res
        raise Unsupported(type(n).__name__)
    def assign(s, t, v, st):
        if isinstance(t, ast.Name): st.loc[t.id] = v; return [('normal', None, st)]
        if isinstance(t, ast.Tuple):
            if isinstance(v, tuple) and v and v[0] == 'genexp':
                ge = v[1]; comp = ge.generators[0]; it = s.bytes_of(s.ev(comp.iter, st), st); k = len(t.elts)
                st.obl.append(('unpack-arity', list(st.pc), list(st.assumed), it.n == k)); vals = []
                for j in range(k):
                    st.loc[comp.target.id] = it.at(IntVal(j)); vals.append(s.ev(ge.elt, st))
                v = tuple(vals)
            for tt, vv in zip(t.elts, v): s.assign(tt, vv, st)
            return [('normal', None, st)]
        if isinstance(t, ast.Subscript) and isinstance(t.slice, ast.Slice):      # data[k::4] = rhs
            base = s.ev(t.value, st); assert isinstance(base, MRef); old = st.mem[base.ident]
            lo = s.ev(t.slice.lower, st) if t.slice.lower else 0; step = s.ev(t.slice.step, st)
            rhs = s.bytes_of(v, st); tgt = strided(old, lo, step)
            st.obl.append(('extslice-len', list(st.pc), list(st.assumed), rhs.n == tgt.n))        # else ValueError
            st.mem[base.ident] = SBytes(BYTEARRAY, old.n, lambda i, old=old, rhs=rhs, lo=lo, step=step: If(And(i >= lo, i < old.n, (i - lo) % step == 0), rhs.at((i - lo) / step), old.at(i)))
            return [('normal', None, st)]
        raise Unsupported('assign target')
