import time, sys
from ex import *
def discharge(name, pc, assumed, goal, expect=unsat):
    s = Solver(); s.set('timeout', 20000); s.add(*pc, *assumed, Not(goal)); t = time.time(); r = s.check()
    print('  %-38s %-8s %.3fs' % (name, 'proved' if r == unsat else 'REFUTED' if r == sat else 'unknown', time.time() - t))
    return r, (s.model() if r == sat else None)

# ---------------- mask_payload(masking_key, data) against its contract
def verify_mask(fn_node, mod, label='mask_payload'):
    print(label)
    ex = Exec(mod); st = State()
    key = SBytes.sym('key'); data0 = SBytes.sym('data', BYTEARRAY)
    st.assumed += [key.n == 4, key.wf(), data0.wf()]
    # table fact, checked exhaustively on the real object first
    T = mod._XOR_TABLE; assert all(T[b][a] == a ^ b for a in range(256) for b in range(256))
    d = st.alloc(data0); st.loc = {'masking_key': key, 'data': d}
    outs = ex.block(fn_node.body, st); n = 0
    for kind, val, st2 in outs:
        assert kind == 'normal', kind
        for nm, pc, asm, g in st2.obl: discharge('side:' + nm, pc, asm, g); n += 1
        res = st2.mem[d.ident]; j = fresh('j')
        post = And(res.n == data0.n, Implies(And(j >= 0, j < data0.n), res.at(j) == xor(data0.at(j), key.at(j % 4))))
        r = discharge('ensures:xor-per-index', st2.pc, st2.assumed, post); n += 1
    return n
node, mod = get_func('lomond.mask:mask_payload')
verify_mask(node, mod)

# ---------------- Frame.build using mask_payload's CONTRACT (modular)
def mask_contract(ex, st, args, kw):
    key, data = args; k = ex.bytes_of(key, st); assert isinstance(data, MRef); old = st.mem[data.ident]
    st.obl.append(('pre:mask_payload.len(key)==4', list(st.pc), list(st.assumed), k.n == 4))
    st.mem[data.ident] = SBytes(BYTEARRAY, old.n, lambda i: xor(old.at(i), k.at(i % 4)))
    return None
def spec_decode(w):       # RFC 6455 5.2, independent of the code
    b0, b1 = w.at(IntVal(0)), w.at(IntVal(1))
    fin, rsv, op, m, l7 = b0 / 128, (b0 / 16) % 8, b0 % 16, b1 / 128, b1 % 128
    be = lambda off, k: Sum([w.at(IntVal(off + j)) * 256 ** (k - 1 - j) for j in range(k)])
    ext = If(l7 < 126, 0, If(l7 == 126, 2, 8)); plen = If(l7 < 126, l7, If(l7 == 126, be(2, 2), be(2, 8)))
    koff = 2 + ext; poff = koff + 4 * m
    return dict(fin=fin, rsv=rsv, op=op, m=m, key=SBytes(BYTES, IntVal(4), lambda i: w.at(i + koff)), payload=SBytes(BYTES, plen, lambda i: w.at(i + poff)),
                total=poff + plen, minimal=And(Implies(l7 == 126, plen >= 126), Implies(l7 == 127, plen >= 65536)))
def verify_build(node, mod, payload_kind, label):
    print(label)
    ex = Exec(mod, {'lomond.mask:mask_payload': mask_contract}); st = State()
    opcode = Int('opcode'); payload0 = SBytes.sym('payload', payload_kind)
    st.assumed += [opcode >= 0, opcode < 16, payload0.wf()]
    p = payload0 if payload_kind == BYTES else st.alloc(payload0)
    st.loc = dict(cls=mod.Frame, opcode=opcode, payload=p, fin=1, rsv1=0, rsv2=0, rsv3=0, mask=True, masking_key=None)
    outs = ex.block(node.body, st); n = 0
    for kind, val, st2 in outs:
        print(' path:', kind, [str(simplify(c)) for c in st2.pc])
        if kind == 'raise':
            discharge('raises:FrameBuildError iff len>=2^63', st2.pc, st2.assumed, And(val is mod.errors.FrameBuildError, payload0.n >= 2 ** 63)); n += 1; continue
        for nm, pc, asm, g in st2.obl: discharge('side:' + nm, pc, asm, g); n += 1
        d = spec_decode(ex.bytes_of(val, st2)); key = st2.ghost['key_used']; j = fresh('j')
        goals = dict(fin=d['fin'] == 1, rsv=d['rsv'] == 0, opcode=d['op'] == opcode, masked=d['m'] == 1, key=beq(d['key'], key),
                     unmask=And(d['payload'].n == payload0.n, Implies(And(j >= 0, j < payload0.n), d['payload'].at(j) == xor(payload0.at(j), key.at(j % 4)))),
                     whole=d['total'] == ex.bytes_of(val, st2).n, minimal=d['minimal'], immutable_result=BoolVal(ex.bytes_of(val, st2).kind == BYTES))
        for g, f in goals.items(): discharge('ensures:' + g, st2.pc, st2.assumed, f); n += 1
        if payload_kind == BYTES:   # caller's bytes object untouched: trivially (immutable); for bytearray it IS mutated (documented)
            pass
    return n
node, mod = get_func('lomond.frame:Frame.build')
t = time.time()
n = verify_build(node, mod, BYTES, 'Frame.build(payload: bytes)')
n += verify_build(node, mod, BYTEARRAY, 'Frame.build(payload: bytearray)')
print('obligations', n, 'wall %.2fs' % (time.time() - t))
