"""Symbolic values for the prototype: ints/bools as z3 terms, byte strings as (kind,len,at)."""
import itertools
from z3 import *
I = IntSort()
_fresh = itertools.count()
def fresh(name, sort=I): return Const('%s!%d' % (name, next(_fresh)), sort)
BYTES, BYTEARRAY, MEMVIEW = 'bytes', 'bytearray', 'memoryview'

class SBytes:
    """immutable *value* view: len term + python closure index->term. kind is a python string."""
    def __init__(s, kind, n, at): s.kind, s.n, s.at = kind, n, at
    @staticmethod
    def sym(name, kind=BYTES):
        a = Array(name, I, I); n = Int(name + '.len')
        b = SBytes(kind, n, lambda i: Select(a, i)); b.base = (a, n); return b
    @staticmethod
    def lit(vals, kind=BYTES):
        vals = list(vals)
        def at(i):
            r = IntVal(0)
            for j in reversed(range(len(vals))): r = If(i == j, vals[j], r)
            return r
        return SBytes(kind, IntVal(len(vals)), at)
    def wf(s):   # well-formedness facts (bytes in range), as a quantified hypothesis on the base array
        i = fresh('wf'); return And(s.n >= 0, ForAll([i], Implies(And(i >= 0, i < s.n), And(s.at(i) >= 0, s.at(i) < 256)), patterns=[s.at(i)]))
def cat(kind, parts):
    def at(i, parts=parts):
        off = IntVal(0); res = None; conds = []
        for p in parts:
            conds.append((i < off + p.n, p.at(i - off))); off = off + p.n
        r = conds[-1][1]
        for c, v in reversed(conds[:-1]): r = If(c, v, r)
        return r
    return SBytes(kind, Sum([p.n for p in parts]), at)
def strided(b, start, step):       # b[start::step] for literal start>=0, step>0
    n = If(b.n > start, (b.n - start + step - 1) / step, 0)
    return SBytes(b.kind, n, lambda j: b.at(start + step * j))
def beq(x, y):
    j = fresh('sk'); return And(x.n == y.n, Implies(And(j >= 0, j < x.n), x.at(j) == y.at(j)))
