import time,sys
from z3 import *
I=IntSort()
xor=Function('xor',I,I,I)
T=Function('XOR_TABLE',I,I,I)   # T(b,a) = _XOR_TABLE[b][a]
a_,b_=Ints('a_ b_')
ax_table=ForAll([a_,b_],Implies(And(a_>=0,a_<256,b_>=0,b_<256), T(b_,a_)==xor(a_,b_)), patterns=[T(b_,a_)])
n=Int('n'); d0=Array('d0',I,I); key=Array('key',I,I)
i=Int('i')
def step(d,k):  # data[k::4] = data[k::4].translate(T[key[k]])
    return Lambda([i], If(And(i>=0,i<n,i%4==k), T(key[k], d[i]), d[i]))
d=d0
for k in range(4): d=step(d,k)
j=Int('j')
bytes_pre=[ForAll([i],Implies(And(i>=0,i<n),And(d0[i]>=0,d0[i]<256)),patterns=[d0[i]])]+[And(key[k]>=0,key[k]<256) for k in range(4)]
goal=Implies(And(j>=0,j<n), d[j]==xor(d0[j],key[j%4]))
s=Solver(); s.set('timeout',20000); s.add(n>=0,ax_table,*bytes_pre,Not(goal))
t=time.time(); print('mask',s.check(),round(time.time()-t,2))
# mutant: lane 3 uses table c
d=d0
for k,kk in zip(range(4),[0,1,2,2]):
    d=Lambda([i], If(And(i>=0,i<n,i%4==k), T(key[kk], d[i]), d[i]))
s=Solver(); s.set('timeout',20000); s.add(n>=0,ax_table,*bytes_pre,Not(Implies(And(j>=0,j<n), d[j]==xor(d0[j],key[j%4]))))
r=s.check(); print('mutant',r)
if r==sat: m=s.model(); print('n',m[n],'j',m[j])
