from z3 import *
import subprocess,time
I=IntSort()
IN=Array('IN',I,I); cut,bl,dl,j,r,k=Ints('cut bl dl j r k')
SEP=[13,10,13,10]
def m(j): return And(*[IN[cut+j+q]==SEP[q] for q in range(4)])
RI=ForAll([j],Implies(And(j>=0,j+4<=bl),Not(m(j))))
nb=bl+dl
fp=Or(And(r==-1, ForAll([j],Implies(And(j>=0,j+4<=nb),Not(m(j))))), And(r>=0,r+4<=nb,m(r),ForAll([j],Implies(And(j>=0,j<r),Not(m(j))))))
g2=Implies(r>=0, And(m(r), Implies(And(k>=0,k<r),Not(m(k))), r+4>bl))
s=Solver(); s.add(cut>=0,bl>=0,dl>0,RI,fp,Not(g2))
open('q.smt2','w').write('(set-logic ALL)\n'+s.to_smt2())
for cmd in (['/usr/bin/cvc5','--tlimit=20000','q.smt2'],['z3-new','-T:20','q.smt2'],['/usr/bin/z3','-T:20','q.smt2']):
    t=time.time(); p=subprocess.run(cmd,capture_output=True,text=True); print(cmd[0],p.stdout.strip()[:80],p.stderr.strip()[:200],round(time.time()-t,2))
import cvc5; print('cvc5 py',cvc5.__version__)
