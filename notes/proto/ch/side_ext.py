import deal
from lomond.extension import parse_extension as _real

def _ref(extension: str):
    parts = extension.split(';')
    opts = {}
    for t in parts[1:]:
        k, _, v = t.strip().partition('=')
        opts[k.strip()] = v.strip().strip('"')
    return parts[0].strip(), opts

@deal.pre(lambda extension: len(extension) <= 12)
@deal.ensure(lambda extension, result: result[0] == extension.split(';')[0].strip() and ('=' in result[0]) == ('=' in extension.split(';')[0]))
@deal.ensure(lambda extension, result: all(';' not in k and k == k.strip() for k in result[1]))
def parse_extension(extension: str):
    return _real(extension)

@deal.ensure(lambda extension, result: 'a' not in result[1])   # deliberately false: must be refuted
def parse_extension_bad(extension: str):
    return _real(extension)
