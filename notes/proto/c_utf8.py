import sys; sys.path.insert(0,'/repo')
from lomond.utf8validator import UTF8VALIDATOR_DFA as D
# spec: RFC 3629 / Unicode Table 3-7 as an automaton: state = tuple of pending (lo,hi) ranges
def spec_step(st,b):
    if st=='REJ': return 'REJ'
    if st==():
        if b<=0x7f: return ()
        if 0xc2<=b<=0xdf: return ((0x80,0xbf),)
        if b==0xe0: return ((0xa0,0xbf),(0x80,0xbf))
        if 0xe1<=b<=0xec or 0xee<=b<=0xef: return ((0x80,0xbf),(0x80,0xbf))
        if b==0xed: return ((0x80,0x9f),(0x80,0xbf))
        if b==0xf0: return ((0x90,0xbf),(0x80,0xbf),(0x80,0xbf))
        if 0xf1<=b<=0xf3: return ((0x80,0xbf),)*3
        if b==0xf4: return ((0x80,0x8f),(0x80,0xbf),(0x80,0xbf))
        return 'REJ'
    lo,hi=st[0]
    return st[1:] if lo<=b<=hi else 'REJ'
def code_step(s,b): return D[256+(s<<4)+D[b]]
R={0:()}; work=[0]; n=0
while work:
    s=work.pop()
    for b in range(256):
        n+=1
        s2=code_step(s,b); t2=spec_step(R[s],b)
        if s2 in R: assert R[s2]==t2,(s,b,s2,R[s2],t2)
        else: R[s2]=t2; work.append(s2)
print('transitions',n,'states',len(R)); print(R)
assert R[1]=='REJ' and [s for s in R if R[s]==()]==[0]
# injectivity => bisimulation
assert len(set(R.values()))==len(R)
