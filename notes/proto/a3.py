# bytes as (len, Array Int->Int). concat defined pointwise via Lambda. goals skolemised.
import time,sys
from z3 import *
I=IntSort()
class Bs:
    def __init__(s,n,a): s.n=n; s.a=a
    def __getitem__(s,i): return Select(s.a,i)
def lit(*xs):
    a=K(I,IntVal(0))
    for j,x in enumerate(xs): a=Store(a,j,x)
    return Bs(IntVal(len(xs)),a)
def cat(x,y):
    i=Int('ci'); return Bs(x.n+y.n, Lambda([i], If(i<x.n, x[i], y[i-x.n])))
def sl(x,off,n):
    i=Int('si'); return Bs(n, Lambda([i], x[i+off]))
def be(n,k): return [ (n/ (256**(k-1-j))) % 256 for j in range(k)]
opcode=Int('opcode')
key=Bs(IntVal(4),Array('key',I,I)); Lm=Int('L'); mp=Bs(Lm,Array('mp',I,I))
L=Lm
pre=And(opcode>=0,opcode<16,L>=0)
byte0=128+opcode
paths=[('p8', L<126, lit(byte0,128+L)),
       ('p16', And(L>=126,L<65536), lit(byte0,254,*be(L,2))),
       ('p64', And(L>=65536, L<2**63), lit(byte0,255,*be(L,8)))]
def spec(w):
    b0=w[0]; b1=w[1]
    fin=b0/128; rsv=(b0/16)%8; op=b0%16; m=b1/128; l7=b1%128
    def beval(off,k): return Sum([w[off+j]*(256**(k-1-j)) for j in range(k)])
    ext = If(l7<126,0,If(l7==126,2,8))
    plen = If(l7<126,l7,If(l7==126,beval(2,2),beval(2,8)))
    koff=2+ext; k=sl(w,koff,4); poff=koff+4*m; p=sl(w,poff,plen)
    return fin,rsv,op,m,k,p,poff+plen, And(Implies(l7==126, plen>=126), Implies(l7==127, plen>=65536))
def beq(x,y,tag):
    j=Int('sk_'+tag)   # skolem for negated forall
    return And(x.n==y.n, Implies(And(j>=0,j<x.n), x[j]==y[j]))
for name,cond,hdr in paths:
    out=cat(cat(hdr,key),mp)
    fin,rsv,op,m,k,p,total,minimal=spec(out)
    goals={'fin':fin==1,'rsv':rsv==0,'op':op==opcode,'m':m==1,'key':beq(k,key,'k'),'payload':beq(p,mp,'p'),'total':total==out.n,'minimal':minimal}
    for g,gf in goals.items():
        s=Solver(); s.set('timeout',20000); s.add(pre,cond,Not(gf))
        t=time.time(); r=s.check(); print(name,g,r,round(time.time()-t,2)); sys.stdout.flush()
