import cvc5, time
s=cvc5.Solver(); s.setOption('enum-inst','true'); s.setOption('tlimit','20000')
p=cvc5.InputParser(s); p.setFileInput(cvc5.InputLanguage.SMT_LIB_2_6,'q.smt2'); sm=p.getSymbolManager()
t=time.time()
while True:
    c=p.nextCommand()
    if c.isNull(): break
    out=c.invoke(s,sm)
    if out.strip(): print('cvc5-1.4:',out.strip())
print(round(time.time()-t,2))
