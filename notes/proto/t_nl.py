from z3 import *
import time
def chk(name,*fs):
    s=Solver(); s.set('timeout',20000); s.add(*fs); t=time.time(); print(name,s.check(),round(time.time()-t,2))
# C16: delay bounds
mn,mx,u,d=Reals('mn mx u d'); p2=Real('p2')
pre=And(mn<=mx,u>=0,u<1,p2>=1)
x=If(mx-mn<p2,mx-mn,p2)
chk('backoff', pre, d==mn+u*x, Not(And(d>=mn, d<=mx, d<=mn+x)))
# C15: next ping: np = k*r with (k-1)r < t <= k r ; next fire t2>np ; claim exists multiple in [t,t2) and np>=t, np<t+r
t,r,t2=Reals('t r t2'); k=Int('k'); np=Real('np')
pre=And(r>0,t>0,ToReal(k-1)*r<t,t<=ToReal(k)*r,np==ToReal(k)*r,t2>np)
chk('ping1',pre,Not(And(np>=t,np<t+r)))
# two pings never in same period (j r,(j+1) r]
j=Int('j')
chk('ping2',pre,ToReal(j)*r<t,t<=ToReal(j+1)*r,ToReal(j)*r<t2,t2<=ToReal(j+1)*r)
