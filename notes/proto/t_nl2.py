from z3 import *
import time
def chk(name,*fs):
    s=Solver(); s.set('timeout',20000); s.add(*fs); t=time.time(); print(name,s.check(),round(time.time()-t,2))
t,r,t2=Reals('t r t2'); k=Int('k'); j=Int('j'); np=Real('np')
K,J=ToReal(k),ToReal(j)
pre=And(r>0,t>0,(K-1)*r<t,t<=K*r,np==K*r,t2>np)
same=And(J*r<t,t<=(J+1)*r,J*r<t2,t2<=(J+1)*r)
# helper lemma (monotonicity), proved separately over reals: a<b & r>0 -> a*r<b*r ; instantiate for (k, j+1):  k <= j  or k >= j+1
a,b=Reals('a b')
chk('lemma', r>0, a<=b, Not(a*r<=b*r))
inst=And(Implies(k>=j+1, K*r>=(J+1)*r), Implies(k<=j, K*r<=J*r))
chk('ping2+lemma',pre,same,inst)
