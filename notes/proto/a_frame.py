# feasibility: Frame.build round trip through an RFC 6455 spec decoder, all lengths, Seq(Int) bytes
import time
from z3 import *
B = SeqSort(IntSort())
def byte(x): return And(x>=0, x<256)
def allbytes(s):
    i=Int('i_%d'%id(s)); return ForAll([i], Implies(And(i>=0,i<Length(s)), byte(s[i])))
def u(*xs): 
    r=Unit(xs[0] if is_expr(xs[0]) else IntVal(xs[0]))
    for x in xs[1:]: r=Concat(r,Unit(x if is_expr(x) else IntVal(x)))
    return r
def be(n,k): # big endian k bytes of int n
    return [ (n/ (256**(k-1-j))) % 256 for j in range(k)]
opcode=Int('opcode'); payload=Const('payload',B); key=Const('key',B); mp=Const('mp',B)
L=Length(payload)
pre=And(opcode>=0,opcode<16, Length(key)==4, Length(mp)==L)
byte0 = 128 + opcode           # fin<<7|0|0|0|opcode  (disjoint bits => sum) -- engine will prove via BV
def build():
    h8 = u(byte0, 128+L)
    h16= Concat(u(byte0,128+126), u(*be(L,2)))
    h64= Concat(u(byte0,128+127), u(*be(L,8)))
    hdr= If(L<126,h8, If(L<65536,h16,h64))
    return Concat(hdr,key,mp), L < 2**63
out,ok = build()
# spec decoder (RFC 5.2) over a byte sequence w
def spec(w):
    b0=w[0]; b1=w[1]
    fin=b0/128; rsv=(b0/16)%8; op=b0%16; m=b1/128; l7=b1%128
    ext = If(l7<126,0,If(l7==126,2,8))
    def beval(off,k): return Sum([w[off+j]*(256**(k-1-j)) for j in range(k)])
    plen = If(l7<126,l7,If(l7==126,beval(2,2),beval(2,8)))
    koff=2+ext
    k = Extract(w,koff,4)
    poff=koff+4*m
    p = Extract(w,poff,plen)
    total=poff+plen
    minimal = And(Implies(l7==126, plen>=126), Implies(l7==127, plen>=65536))
    return fin,rsv,op,m,k,p,total,minimal
fin,rsv,op,m,k,p,total,minimal = spec(out)
goal = And(fin==1, rsv==0, op==opcode, m==1, k==key, p==mp, total==Length(out), minimal)
s=Solver(); s.set('timeout',60000)
s.add(pre, ok, Not(goal))
t=time.time(); r=s.check(); print('roundtrip', r, round(time.time()-t,2))
if r==sat: print(s.model())
