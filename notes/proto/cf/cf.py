"""Prototype: all-paths control-flow executor (exceptions, try/finally, generators, close edges)
over the REAL ast of session.run, with a finite abstract state.  Throw-away."""
import ast, sys
SRC = sys.argv[1] if len(sys.argv) > 1 else '/repo'
def func(path, *names):
    node = ast.parse(open(path).read())
    for nm in names: node = next(n for n in node.body if isinstance(n, (ast.FunctionDef, ast.ClassDef)) and n.name == nm)
    return node
run = func(SRC + '/lomond/session.py', 'WebsocketSession', 'run')

# exception classes (abstract): name -> set of ancestor names
HIER = {'_SocketFail': {'Exception'}, '_ForceDisconnect': {'Exception'}, 'WebSocketError': {'Exception'},
        'AnyException': {'Exception'}, 'GeneratorExit': set(), 'Exception': set()}
def may_match(exc, handler):      # -> set of {True, False}
    if handler is None: return {True}
    if exc == 'AnyException':     # unknown subclass of Exception: matches Exception surely, anything below maybe
        return {True} if handler == 'Exception' else {True, False}
    return {handler == exc or handler in HIER[exc]}

class St(dict):
    def k(s): return tuple(sorted(s.items()))
    def w(s, **kw): t = St(s); t.update(kw); return t

# ---- contracts of callees, keyed by source text of the call (effects on abstract state, possible raises)
def eff_close_socket(st): return st.w(sock='closed' if st['sock'] == 'open' else st['sock'])
CALLS = {
 'self._connect()': dict(raises=['_SocketFail', 'AnyException'], eff=lambda st: st.w(sock='open')),
 'self._send_request()': dict(raises=['WebSocketError']),
 'self._close_socket()': dict(eff=eff_close_socket),
 'self._selector_cls(sock)': dict(eff=lambda st: st.w(sel='open')),          # assumed non-raising (DESIGN C09)
 'selector.wait(self.BUFFER_SIZE, poll)': dict(raises=['AnyException']),
 'self._recv(max_bytes)': dict(raises=['_SocketFail', 'AnyException']),
 "self._socket_fail('connection lost')": dict(raises=['_SocketFail'], always=True),
 'self._on_event(event, auto_pong)': dict(raises=[]),       # contract C14: never raises (after C04 fix)
 'selector.close()': dict(eff=lambda st: st.w(sel='closed' if st['sel'] == 'open' else st['sel'])),
}
# producers: generator contracts.  each step: list of (event_class, site) it may yield, raises, close-effect per site
PRODUCERS = {
 '_regular()': dict(yields=[('Poll', 'reg'), ('Unresponsive', 'reg')], raises=['_ForceDisconnect'], on_close={'reg': lambda st: st}),
 'self.websocket.feed(data)': dict(yields=[('Ready', 'body'), ('Rejected', 'body'), ('Msg', 'body'), ('ProtocolError', 'handler')],
        raises=['_ForceDisconnect', 'AnyException'],
        on_close={'body': eff_close_socket, 'handler': lambda st: st}),        # GeneratorExit arm only guards the try BODY
}
ALLOWED = {('Start', 'Connecting'): 'Connecting', ('Connecting', 'ConnectFail'): 'Done', ('Connecting', 'Connected'): 'Connected',
           ('Connected', 'Ready'): 'Ready', ('Connected', 'Rejected'): 'Connected', ('Connected', 'ProtocolError'): 'Connected', ('Ready', 'ProtocolError'): 'Ready',
           ('Ready', 'Msg'): 'Ready', ('Ready', 'Poll'): 'Ready', ('Ready', 'Unresponsive'): 'Ready', ('Connected', 'Disconnected'): 'Done', ('Ready', 'Disconnected'): 'Done'}

findings = []; yield_sites = {}
class X:
    def __init__(s): s.gens = []      # stack of live nested producers: (name, site of last yield or None)
    def src(s, e): return ast.unparse(e)
    # outcome = (kind, payload, state, gens) kind in normal/return/raise/break/continue
    def block(s, stmts, st, gens):
        cur = [(st, gens)]; outs = []
        for n in stmts:
            nxt = []
            for st1, g1 in cur:
                for o in s.stmt(n, st1, g1):
                    if o[0] == 'normal': nxt.append((o[2], o[3]))
                    else: outs.append(o)
            cur = dedupe(nxt)
        return outs + [('normal', None, a, b) for a, b in cur]
    def calls_in(s, e):
        return [n for n in ast.walk(e) if isinstance(n, ast.Call)] if e is not None else []
    def evalexpr(s, e, st, gens):
        """returns outcomes after evaluating all known calls inside e (left-to-right, innermost first approximated by walk order reversed)"""
        outs = [('normal', None, st, gens)]
        for c in reversed(s.calls_in(e)):
            key = s.src(c)
            if key not in CALLS: continue
            spec = CALLS[key]; nxt = []
            for o in outs:
                if o[0] != 'normal': nxt.append(o); continue
                for ex in spec.get('raises', []): nxt.append(('raise', ex, o[2], o[3]))
                if not spec.get('always'): nxt.append(('normal', None, spec.get('eff', lambda x: x)(o[2]), o[3]))
            outs = nxt
        return outs
    def do_yield(s, cls, site_label, st, gens, lineno):
        ph = ALLOWED.get((st['phase'], cls))
        if ph is None: findings.append(('C07', lineno, 'yield %s in phase %s' % (cls, st['phase']))); ph = st['phase']
        st = st.w(phase=ph)
        yield_sites.setdefault((lineno, cls, site_label), set())
        # successor 1: resume
        res = [('normal', None, st, gens)]
        # successor 2: consumer abandons -> GeneratorExit raised here
        res.append(('raise', 'GeneratorExit', st.w(abandoned='%d:%s:%s' % (lineno, cls, site_label)), gens))
        return res
    def stmt(s, n, st, gens):
        T = type(n).__name__
        if T in ('Expr', 'Assign'):
            v = n.value
            if isinstance(v, ast.Yield):
                cls = v.value.func.attr if isinstance(v.value, ast.Call) else None
                if cls is None:               # `yield event` : class comes from the innermost live producer's last yield
                    cls, site = st['last_ev']
                    return s.do_yield(cls, site, st, gens, n.lineno)
                return s.do_yield(cls, 'own', st, gens, n.lineno)
            return s.evalexpr(v, st, gens)
        if T == 'FunctionDef' or T == 'Pass': return [('normal', None, st, gens)]
        if T == 'Return': return [('return', None, st, gens)]
        if T == 'Break': return [('break', None, st, gens)]
        if T == 'Continue': return [('continue', None, st, gens)]
        if T == 'Raise': return [('raise', 'AnyException', st, gens)]
        if T == 'If':
            outs = []
            for o in s.evalexpr(n.test, st, gens):
                if o[0] != 'normal': outs.append(o); continue
                outs += s.block(n.body, o[2], o[3]) + s.block(n.orelse, o[2], o[3])
            return outs
        if T == 'While': return s.loop(n, st, gens, producer=None)
        if T == 'For':
            key = s.src(n.iter)
            return s.loop(n, st, gens, producer=key if key in PRODUCERS else None)
        if T == 'Try': return s.try_(n, st, gens)
        raise NotImplementedError(T)
    def loop(s, n, st0, gens0, producer):
        """fixpoint over the finite abstract state at the loop head (= inferred invariant)"""
        seen = set(); work = [(st0, gens0)]; exits = []
        while work:
            st, gens = work.pop()
            if (st.k(), gens) in seen: continue
            seen.add((st.k(), gens))
            heads = []
            if producer is None:
                for o in (s.evalexpr(n.test, st, gens) if isinstance(n, ast.While) else [('normal', None, st, gens)]):
                    if o[0] != 'normal': exits.append(o); continue
                    exits.append(('normal', None, o[2], o[3]))          # condition false
                    heads.append((o[2], o[3]))                          # condition true
            else:
                P = PRODUCERS[producer]
                exits.append(('normal', None, st, gens))                 # producer exhausted
                for ex in P['raises']: exits.append(('raise', ex, st, gens))
                for cls, site in P['yields']:
                    heads.append((st.w(last_ev=(cls, site)), gens + ((producer, site),)))
            for sth, gh in heads:
                for o in s.block(n.body, sth, gh):
                    kind, pay, st2, g2 = o
                    if producer is not None and kind in ('break', 'return', 'raise'):
                        # leaving the for statement drops the iterator: producer's close edge fires NOW (CPython refcount)
                        name, site = g2[-1]; st2 = PRODUCERS[name]['on_close'][site](st2); g2 = g2[:-1]
                    elif producer is not None: g2 = g2[:-1]
                    if kind in ('normal', 'continue'): work.append((st2, g2))
                    elif kind == 'break': exits.append(('normal', None, st2, g2))
                    else: exits.append((kind, pay, st2, g2))
        return dedupe_o(exits)
    def try_(s, n, st, gens):
        outs = []
        for o in s.block(n.body, st, gens):
            kind, pay, st2, g2 = o
            if kind == 'raise':
                handled_paths = []; pending = [(st2, g2)]
                for h in n.handlers:
                    hn = None if h.type is None else (h.type.id if isinstance(h.type, ast.Name) else h.type.attr)
                    mm = may_match(pay, hn)
                    if True in mm: handled_paths += s.block(h.body, st2, g2)
                    if False not in mm: pending = []; break
                outs += handled_paths + [('raise', pay, a, b) for a, b in pending]
            elif kind == 'normal' and n.orelse: outs += s.block(n.orelse, st2, g2)
            else: outs.append(o)
        if n.finalbody:
            fin = []
            for kind, pay, st2, g2 in outs:
                for f in s.block(n.finalbody, st2, g2):
                    fin.append((kind, pay, f[2], f[3]) if f[0] == 'normal' else f)
            outs = fin
        return dedupe_o(outs)
def dedupe(l):
    seen = {}; 
    for st, g in l: seen[(st.k(), g)] = (st, g)
    return list(seen.values())
def dedupe_o(l):
    seen = {}
    for o in l: seen[(o[0], o[1], o[2].k(), o[3])] = o
    return list(seen.values())

init = St(sock='none', sel='none', phase='Start', abandoned=None, last_ev=None)
outs = X().block(run.body, init, ())
print('exit outcomes:', len(outs))
bad13 = set(); ok13 = set()
for kind, pay, st, g in outs:
    if kind == 'raise' and pay == 'GeneratorExit':
        (bad13 if (st['sock'] == 'open' or st['sel'] == 'open') else ok13).add((st['abandoned'], st['sock'], st['sel']))
    elif kind in ('normal', 'return'):
        if st['phase'] != 'Done': findings.append(('C07', 0, 'exit in phase %s' % st['phase']))
        if st['sock'] == 'open': findings.append(('C09', 0, 'normal exit with socket open'))
    else: findings.append(('C09', 0, 'exception %s escapes run' % pay))
print('C13 close-edge OK at   :', sorted(x[0] for x in ok13))
print('C13 close-edge LEAKS at:', sorted(bad13))
print('other findings:', sorted(set(findings)))
