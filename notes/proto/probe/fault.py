import h, base64, hashlib, struct, logging, socket
from h import *
logging.disable(logging.CRITICAL)
frames=fr(1,b'hello',fin=0)+fr(9,b'pp')+fr(0,b' world')+fr(2,b'x'*130)+fr(8,struct.pack('!H',1000)+b'bye')
full_len=len(frames)+97
problems=[]; runs=0
class FailSock(Sock):
    def __init__(s,chunks,fail_write_at=None,exc=None): super().__init__(chunks); s.fw=fail_write_at; s.nw=0; s.exc=exc
    def sendall(s,d):
        s.nw+=1
        if s.fw is not None and s.nw==s.fw: raise s.exc
        super().sendall(d)
def go(cut, kind, fail_write_at=None, exc=None):
    global runs; runs+=1
    w=WebSocket('ws://example.com/')
    class S(h.WebsocketSession):
        _selector_cls=h.Sel
        def _connect(s):
            acc=base64.b64encode(hashlib.sha1(w.key+constants.WS_KEY).digest())
            stream=b'HTTP/1.1 101 X\r\nUpgrade: websocket\r\nSec-WebSocket-Accept: '+acc+b'\r\n\r\n'+frames
            ch=[stream[:cut]] if cut else []
            if kind=='eof': pass
            elif kind=='err': ch.append(socket.error('reset'))
            elif kind=='exc': ch.append(RuntimeError('weird'))
            else: ch=[stream]
            s.sk=FailSock([c for c in ch if not isinstance(c,bytes) or c],fail_write_at,exc); return s.sk,None
    evs=[]
    try:
        for e in w.connect(session_class=S,ping_rate=0): evs.append(e)
    except BaseException as ex:
        problems.append((cut,kind,fail_write_at,'ESCAPED '+repr(ex))); return
    names=[type(e).__name__ for e in evs]
    term=[n for n in names if n in('Disconnected','ConnectFail')]
    sk=w.session.sk if hasattr(w.session,'sk') else None
    if len(term)!=1 or names[-1]!=term[0]: problems.append((cut,kind,fail_write_at,names))
    if sk is not None and not sk.closed: problems.append((cut,kind,fail_write_at,'socket open',names))
    closing_started = 'Closing' in names or 'Closed' in names
    if names[-1]=='Disconnected' and evs[-1].graceful and not closing_started: problems.append((cut,kind,fail_write_at,'graceful without close',names))
for cut in range(0,full_len+1):
    for kind in ('eof','err','exc'): go(cut,kind)
for k in range(1,6):
    for exc in (socket.error('epipe'), RuntimeError('x')): go(None,'full',k,exc)
print('runs',runs,'problems',len(problems)); print(problems[:8])
