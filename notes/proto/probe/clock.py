import h, base64, hashlib, struct, logging, random, time as _time
from h import *
import lomond.session as LS, lomond.events as LE
logging.disable(logging.CRITICAL)
rnd=random.Random(7)
class Clock:
    t=1000.0
clk=Clock()
class FakeTime:
    @staticmethod
    def time(): return clk.t
LS.time=FakeTime; LE.time=FakeTime
def scenario(poll, ping_rate, ping_timeout, close_timeout, steps, pong_times=(), close_at=None):
    clk.t=1000.0
    w=WebSocket('ws://example.com/'); log=[]
    class VSel:
        def __init__(s,sock): s.sock=sock
        def wait(s,mb,timeout):
            # advance by random amount <= timeout; data readable if scripted
            if s.sock.chunks and s.sock.ready_at<=clk.t: return True,mb
            nxt=min([clk.t+timeout]+([s.sock.ready_at] if s.sock.chunks else []))
            dt=rnd.uniform(0,1)*(nxt-clk.t) if rnd.random()<0.3 and not s.sock.chunks else nxt-clk.t
            clk.t=max(clk.t,nxt) if dt>=nxt-clk.t else clk.t+dt
            return (bool(s.sock.chunks) and s.sock.ready_at<=clk.t), mb
        def close(s): pass
    class VSock(Sock):
        ready_at=0
        def sendall(s,d): s.out.append((clk.t,bytes(d)))
        def recv_into(s,buf,n):
            c=s.chunks.pop(0)
            if s.chunks: s.ready_at=s.times.pop(0)
            buf[:len(c)]=c; return len(c)
    class S(h.WebsocketSession):
        _selector_cls=VSel
        def _connect(s):
            acc=base64.b64encode(hashlib.sha1(w.key+constants.WS_KEY).digest())
            hdr=b'HTTP/1.1 101 X\r\nUpgrade: websocket\r\nSec-WebSocket-Accept: '+acc+b'\r\n\r\n'
            s.sk=VSock([hdr]+[fr(10,b'') for _ in pong_times]); s.sk.times=[1000.0+t for t in pong_times]+[]; 
            s.sk.ready_at=1000.0; return s.sk,None
    ready=None
    for e in w.connect(session_class=S,poll=poll,ping_rate=ping_rate,ping_timeout=ping_timeout,close_timeout=close_timeout):
        n=type(e).__name__
        if n=='Ready': ready=clk.t
        log.append((n, None if ready is None else round(clk.t-ready,6)))
        if close_at is not None and ready is not None and clk.t-ready>=close_at and not w.is_closing and not w.is_closed: w.close()
        if ready is not None and clk.t-ready>steps: break
    pings=[round(t-ready,6) for t,d in w.session.sk.out[1:] if d[0]&15==9]
    return log,pings
viol=[]
for trial in range(300):
    p=rnd.choice([0.5,1,2,5]); r=rnd.choice([0,1.5,3,7,30]); T=rnd.choice([None,0,4,10]); c=rnd.choice([None,0,3,8])
    pongs=sorted(rnd.uniform(0,30) for _ in range(rnd.randint(0,4)))
    close_at=rnd.choice([None,None,5,12])
    log,pings=scenario(p,r,T,c,40,pongs,close_at)
    polls=[t for n,t in log if n=='Poll']
    if polls and polls[0]!=0: viol.append(('first poll',p,polls[:3]))
    for a,b in zip(polls,polls[1:]):
        if b-a<p-1e-9 or b-a>2*p+1e-9: viol.append(('pollgap',p,a,b)); break
    if r==0 and pings: viol.append(('ping when r=0',pings))
    if r:
        import math
        per=[math.ceil(t/r-1e-12) for t in pings]
        if len(per)!=len(set(per)): viol.append(('two pings one period',r,pings))
    names=[n for n,_ in log]
    if 'Unresponsive' in names:
        tU=[t for n,t in log if n=='Unresponsive'][0]
        last=max([0]+[x for x in pongs if x<=tU])
        if not T or tU-last<=T-1e-9: viol.append(('unresponsive early',T,tU,last))
        if tU-last>T+p+1e-9: viol.append(('unresponsive late',T,tU,last,p))
print('violations',len(viol)); print(viol[:6])
