import h, base64, hashlib, struct, logging, random, zlib, sys
from h import *
logging.disable(logging.CRITICAL)
def sig(evs):
    out=[]
    for e in evs:
        n=type(e).__name__
        if n=='Poll': continue
        out.append((n, getattr(e,'text',None), getattr(e,'data',None), getattr(e,'code',None), getattr(e,'reason',None) if n!='Disconnected' else None, getattr(e,'error',None), getattr(e,'graceful',None)))
    return out
def once(frames, cuts, ext=b''):
    def chunks(stream):
        pts=[0]+sorted(cuts)+[len(stream)]
        return [stream[a:b] for a,b in zip(pts,pts[1:]) if b>a]
    evs,s,ws=run(frames, chunks=chunks, ping_rate=0, exthdr=ext)
    return sig(evs), [bytes(o) for o in s.sk.out[1:]]
rnd=random.Random(int(sys.argv[1]) if len(sys.argv)>1 else 1)
def rframes():
    fs=[]; 
    for _ in range(rnd.randint(1,5)):
        k=rnd.random()
        if k<0.3: fs.append(fr(9,bytes(rnd.randrange(256) for _ in range(rnd.randint(0,5)))))
        elif k<0.6:
            t='h€llo😀'[:rnd.randint(0,7)].encode(); cut=rnd.randint(0,len(t))
            fs+= [fr(1,t[:cut],fin=0), fr(9,b'p'), fr(0,t[cut:],fin=1)] if rnd.random()<0.5 else [fr(1,t)]
        elif k<0.8: fs.append(fr(2,bytes(rnd.randrange(256) for _ in range(rnd.choice([0,1,125,126,127,300])))))
        elif k<0.9: fs.append(fr(1,b'\xe2\x82'))      # truncated
        else: fs.append(fr(rnd.choice([3,8,0]),b'\x03\xe8' ))
    return b''.join(fs)
bad=0
import os
# mask the client key so outputs comparable: patch urandom for masking only
import lomond.frame as F; F.make_masking_key=lambda: b'\0\0\0\0'
for it in range(300):
    frames=rframes(); hdrlen=None
    base=once(frames, [])
    n=len(frames)+97   # approx; cuts anywhere in first part of stream incl header
    for _ in range(4):
        total= n
        cuts=set(rnd.randrange(1,total) for _ in range(rnd.randint(1,12)))
        if rnd.random()<0.2: cuts=set(range(1,total))
        r=once(frames, cuts)
        if r!=base:
            bad+=1; print('DIFF', frames.hex(), sorted(cuts)[:10]); print(base); print(r); break
print('done, diffs:',bad)
