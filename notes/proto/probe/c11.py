import h, base64, hashlib, struct, logging, threading, zlib, time, sys
from h import *
logging.disable(logging.CRITICAL)
w=WebSocket('ws://example.com/', compress=True)
class S(h.WebsocketSession):
    _selector_cls=h.Sel
    def _connect(s):
        acc=base64.b64encode(hashlib.sha1(w.key+constants.WS_KEY).digest())
        s.sk=Sock([b'HTTP/1.1 101 X\r\nUpgrade: websocket\r\nSec-WebSocket-Accept: '+acc+b'\r\nSec-WebSocket-Extensions: permessage-deflate\r\n\r\n']); return s.sk,None
it=w.connect(session_class=S,poll=0,ping_rate=0)
for e in it:
    if e.name=='ready':
        comp=w.state.compression; real=comp.compress; first=[True]
        def compress(p):
            out=real(p)
            if first[0]:
                first[0]=False
                t=threading.Thread(target=lambda:w.send_text('the quick brown fox jumps over the lazy dog -- second')); t.start(); t.join(0.3)   # B runs (or blocks on the lock) while A sits between compress and write
                comp._t=t
            return out
        comp.compress=compress
        w.send_text('the quick brown fox jumps over the lazy dog -- first'); comp._t.join(); sk=w.session.sk; break
inf=zlib.decompressobj(-15); msgs=[]
for o in sk.out[1:]:
    n=o[1]&127; key=o[2:6]; p=bytes(b^key[i%4] for i,b in enumerate(o[6:6+n]))
    try: msgs.append(inf.decompress(p+b'\x00\x00\xff\xff'))
    except Exception as ex: msgs.append('ERR '+str(ex))
print(msgs)
