import sys, socket, base64, hashlib, struct
sys.path.insert(0, __import__('os').environ.get('LOMOND_ROOT','/repo'))
from lomond import WebSocket, events
from lomond.session import WebsocketSession
from lomond import constants

class Sock:
    def __init__(self, chunks): self.chunks=list(chunks); self.out=[]; self.closed=False
    def sendall(self,d): self.out.append(bytes(d))
    def recv_into(self,buf,n):
        if not self.chunks: return 0
        c=self.chunks.pop(0)
        if isinstance(c,Exception): raise c
        c2=c[:n]; rest=c[n:]
        if rest: self.chunks.insert(0,rest)
        buf[:len(c2)]=c2; return len(c2)
    def shutdown(self,*a): pass
    def close(self): self.closed=True
    def settimeout(self,*a): pass
    def fileno(self): return 9
class Sel:
    def __init__(self,s): self.closed=False
    def wait(self,mb,t): return True,mb
    def close(self): self.closed=True

def run(frames, react=None, accept_fn=None, chunks=None, **kw):
    ws=WebSocket('ws://example.com/')
    class S(WebsocketSession):
        _selector_cls=Sel
        def _connect(s):
            key=ws.key
            acc=base64.b64encode(hashlib.sha1(key+constants.WS_KEY).digest())
            hdr=b'HTTP/1.1 101 X\r\nUpgrade: websocket\r\nSec-WebSocket-Accept: '+acc+b'\r\n'+kw.get('exthdr',b'')+b'\r\n'
            s.sk=Sock([hdr+frames] if chunks is None else chunks(hdr+frames))
            return s.sk,None
    evs=[]
    it=ws.connect(session_class=S, **{k:v for k,v in kw.items() if k!='exthdr'})
    for e in it:
        evs.append(e)
        if react: react(ws,e)
    return evs, ws.session if ws.session else None, ws
def fr(op,payload=b'',fin=1,rsv=0,lenform=None,mask=False):
    b0=fin<<7|rsv<<4|op
    n=len(payload)
    if n<126: h=bytes([b0,n])
    elif n<65536: h=bytes([b0,126])+struct.pack('!H',n)
    else: h=bytes([b0,127])+struct.pack('!Q',n)
    return h+payload
