"""Per-property check driver: generate + discharge every obligation serving the property from the
CURRENT source tree, replay refutations on the real code, honour known findings, write evidence.

exit 0  every obligation proved (known findings still reproduce and are listed)
exit 1  an obligation is REFUTED and not covered by known_findings.json  -> VIOLATION line
exit 2  undecided (unknown / construct outside the subset / zero obligations)
exit 3  checker fault (traceback, canary provable, back-end disagreement)
"""
import argparse
import fnmatch
import importlib
import json
import multiprocessing as mp
import os
import re
import subprocess
import sys
import time

VERIF = os.path.dirname(os.path.dirname(os.path.abspath(__file__)))
ROOT = os.environ.get('LOMOND_ROOT', '/repo')
CONTRACT_MODULES = ['frame', 'compression', 'session_send']
REPLAY_PY = os.environ.get('REPLAY_PYTHON', '/venv/bin/python')


def load_contracts():
    sys.path.insert(0, VERIF)
    mods = []
    for f in sorted(os.listdir(os.path.join(VERIF, 'contracts'))):
        if f.endswith('.py') and f not in ('__init__.py',):
            mods.append(importlib.import_module('contracts.' + f[:-3]))
    from pyvc.contracts import REG
    return REG


def _work(job):
    kind, name, timeout_ms, second = job[:4]
    if kind == 'fn':
        from pyvc import driver
        start = job[5] if len(job) > 5 else None
        return driver.verify_and_discharge(name, variant_index=job[4], timeout_ms=timeout_ms, second_opinion=second,
                                           start=start, split_at=None if start is not None else 10)
    from pyvc import ground
    return ground.run(name)


def _child(job, conn, attempt=0):
    os.environ['PYVC_WORKER'] = '1'
    os.environ['PYVC_ATTEMPT'] = str(attempt)
    if os.environ.get('PYVC_DUMP'):      # debugging aid: where is a worker after N seconds?
        import faulthandler
        faulthandler.dump_traceback_later(int(os.environ['PYVC_DUMP']), exit=False)
    try:
        conn.send(_work(job))
    except BaseException as e:       # noqa: B902
        import traceback
        conn.send(dict(qual=job[1], obligations=[], infos=[], error='%s: %s\n%s' % (type(e).__name__, e, traceback.format_exc())))
    finally:
        conn.close()


def run_jobs(jobs, nproc, budget_s):
    """one process per job, at most nproc at a time, each under a wall-clock budget: a solver that
    runs away (or a crashed worker) costs that job only - it is reported as undecided / fault,
    never waited for forever"""
    ctx = mp.get_context('fork')
    results = [None] * len(jobs)
    pending = list(range(len(jobs)))
    running = {}
    retried = {}

    def died(k, p):
        """a worker that crashed (z3 can segfault when its watchdog interrupts it at the wrong moment) is run again with another solver seed,
        up to four attempts in all"""
        retried[k] = retried.get(k, 0) + 1
        if retried[k] < 4:
            pending.append(k)
            return None
        return dict(qual=jobs[k][1], obligations=[], infos=[], error='worker died without a result, four times (exit code %s)' % p.exitcode)
    while pending or running:
        while pending and len(running) < nproc:
            k = pending.pop(0)
            parent, child = ctx.Pipe(duplex=False)
            p = ctx.Process(target=_child, args=(jobs[k], child, retried.get(k, 0)))
            p.start()
            child.close()
            running[k] = (p, parent, time.time())
        done = []
        for k, (p, conn, t0) in running.items():
            if conn.poll(0.02):
                try:
                    results[k] = conn.recv()
                except EOFError:
                    p.join(5)
                    results[k] = died(k, p)
                p.join(5)
                done.append(k)
            elif not p.is_alive():
                p.join()
                if conn.poll(0.2):
                    try:
                        results[k] = conn.recv()
                    except EOFError:
                        results[k] = None
                if results[k] is None:
                    results[k] = died(k, p)
                done.append(k)
            elif time.time() - t0 > budget_s:
                p.terminate()
                p.join(5)
                if p.is_alive():
                    p.kill()
                results[k] = dict(qual=jobs[k][1], obligations=[], infos=[], error=None, timed_out=True,
                                  undecided=['%s: worker exceeded its %d s budget (solver ran away); its obligations are undecided' % (jobs[k][1], budget_s)])
                done.append(k)
        for k in done:
            running.pop(k)
    return results


def known_findings():
    p = os.path.join(VERIF, 'known_findings.json')
    if not os.path.exists(p):
        return dict(findings=[], fixed=[])
    return json.load(open(p))


def sanitize(s):
    return re.sub(r'[^A-Za-z0-9_.#-]+', '_', s)[:150]


def run_replay(pid, obligation, extra=None):
    """run the replay harness on the REAL code under the production interpreter"""
    os.makedirs(os.path.join(VERIF, 'replays', pid), exist_ok=True)
    path = os.path.join(VERIF, 'replays', pid, sanitize(obligation['name']) + '.json')
    req = dict(property=pid, obligation=obligation, extra=extra or {})
    env = dict(os.environ, PYTHONPATH=ROOT + os.pathsep + VERIF, LOMOND_ROOT=ROOT)
    try:
        p = subprocess.run([REPLAY_PY, '-m', 'replay.run'], input=json.dumps(req), capture_output=True, text=True,
                           timeout=300, env=env, cwd=VERIF)
        try:
            res = json.loads(p.stdout.strip().splitlines()[-1])
        except Exception:
            res = dict(found=False, error='replay harness produced no result', stdout=p.stdout[-2000:], stderr=p.stderr[-2000:])
    except subprocess.TimeoutExpired:
        res = dict(found=False, error='replay timed out')
    doc = dict(property=pid, obligation=obligation['name'], source_line=obligation.get('line'),
               verdict=obligation['verdict'], solver=obligation.get('backend'), solver_model=obligation.get('model'),
               path_trace=(obligation.get('info') or {}).get('trace'), replay=res,
               rerun='cd /verif && ./check %s --replay %s' % (pid, os.path.relpath(path, VERIF)))
    with open(path, 'w') as f:
        json.dump(doc, f, indent=1, default=str)
    return path, res


def main(argv=None):
    ap = argparse.ArgumentParser()
    ap.add_argument('pid')
    ap.add_argument('--tier', default=os.environ.get('VERIF_TIER', 'quick'))
    ap.add_argument('--replay')
    ap.add_argument('--jobs', type=int, default=int(os.environ.get('PYVC_JOBS', '16')))
    args = ap.parse_args(argv)
    pid = args.pid
    tier = args.tier if args.tier in ('quick', 'thorough') else 'quick'
    seed = int(os.environ.get('VERIF_SEED', '0') or 0)
    t0 = time.time()

    if args.replay:
        doc = json.load(open(os.path.join(VERIF, args.replay) if not os.path.isabs(args.replay) else args.replay))
        path, res = run_replay(pid, dict(name=doc['obligation'], line=doc.get('source_line'), verdict=doc.get('verdict'),
                                         backend=doc.get('solver'), model=doc.get('solver_model'), info={}))
        print(json.dumps(res, indent=1, default=str))
        return 1 if res.get('found') else 0

    kf = known_findings()
    os.environ['PYVC_KNOWN'] = json.dumps([f['id'] for f in kf.get('findings', [])])
    reg = load_contracts()
    from pyvc import ground
    import bounded.strings  # noqa: F401  (registers the bounded stand-ins)
    import bounded.frames   # noqa: F401
    quals = [q for q, c in reg.contracts.items() if pid in c.serves and not c.external]
    if os.environ.get('PYVC_ONLY'):      # debugging aid: restrict the run to some functions (never used by registered commands)
        quals = [q for q in quals if any(q.endswith(x) for x in os.environ['PYVC_ONLY'].split(','))]
    grounds = [g for g in ground.CHECKS if pid in ground.CHECKS[g].serves]
    timeout_ms = 20000 if tier == 'quick' else 60000
    jobs = [('fn', q, timeout_ms, tier == 'thorough', vi) for q in quals for vi in range(len(reg.contracts[q].variants()))]
    # biggest functions first so that the pool stays busy
    jobs.sort(key=lambda j: 0 if j[1].endswith('.run') else 1)
    jobs += [('ground', g, 0, False) for g in grounds]
    if not jobs:
        print('UNDECIDED property=%s no function under contract serves this property' % pid)
        return 2
    budget = 300 if tier == 'quick' else 1500
    results = run_jobs(jobs, args.jobs, budget)
    # second wave: big functions hand back their pending decision prefixes; spread them
    wave = []
    for job, r in zip(jobs, results):
        for vi, prefix in (r.get('pending', []) if job[0] == 'fn' else []):
            wave.append(('fn', job[1], job[2], job[3], vi, [prefix]))
    if wave:
        results += run_jobs(wave, args.jobs, budget)

    obligations, faults, undecided, functions, assumed = [], [], [], [], set()
    merged = {}
    for r in results:
        m = merged.setdefault(r['qual'], dict(qual=r['qual'], obligations=[], infos=[], error=None, wall_s=0, source=r.get('source'), kind=r.get('kind', 'function')))
        m['obligations'] += r.get('obligations', [])
        m['infos'] += r.get('infos', [])
        m['error'] = m['error'] or r.get('error')
        m['wall_s'] = max(m['wall_s'], r.get('wall_s', 0))
    for r in results:
        for u in r.get('undecided', []):
            undecided.append(u)
    for r in merged.values():
        if r.get('error'):
            faults.append('%s: %s' % (r['qual'], r['error'].splitlines()[0]))
            sys.stderr.write(r['error'] + '\n')
        fn = dict(name=r['qual'], source=r.get('source'), wall_s=r.get('wall_s'), variants=[])
        agg = {}
        for i in r.get('infos', []):
            a = agg.setdefault(i['variant'], dict(variant=i['variant'], paths=0, feasible_paths=0, cut_at_invariants=0,
                                                  yields=i['yields'], loops=i['loops']))
            a['paths'] += i['paths']
            a['feasible_paths'] += i['feasible_paths']
            a['cut_at_invariants'] += i['cut']
            assumed |= set(i['assumed'])
            for u in i['unsupported']:
                undecided.append('%s: %s' % (r['qual'], u))
        for a in agg.values():
            fn['variants'].append(a)
            if a['feasible_paths'] == 0:
                undecided.append('%s%s: no feasible path reaches the end of the function (vacuous contract?)' % (r['qual'], a['variant'] and '#' + a['variant']))
        ncan = 0
        for o in r.get('obligations', []):
            if 'canary' in o['tags']:
                ncan += 1
                if o['verdict'] == 'proved':
                    faults.append('%s: canary provable (contradictory assumptions) at line %s' % (r['qual'], o['line']))
                continue
            tags = [t for t in o['tags'] if re.match(r'^C\d+$', t)]
            if tags and pid not in tags:
                continue
            obligations.append(o)
        fn['canaries_refuted'] = ncan
        fn['kind'] = r.get('kind', 'function')
        functions.append(fn)

    # bounded stand-ins (enumerated small scope on the real function) are reported separately and are
    # never counted as proved obligations
    bounded_obls = [o for o in obligations if (o.get('backend') or '').startswith('bounded')]
    obligations = [o for o in obligations if not (o.get('backend') or '').startswith('bounded')]
    proved = [o for o in obligations if o['verdict'] == 'proved']
    refuted = [o for o in obligations + bounded_obls if o['verdict'] == 'refuted']
    unknown = [o for o in obligations if o['verdict'] not in ('proved', 'refuted')]
    for o in unknown:
        undecided.append('%s: solver %s (%s)' % (o['name'], o['verdict'], (o.get('info') or {}).get('reason')))
    # thorough tier: every proved obligation was also given to cvc5; a contradiction between the back
    # ends is a checker fault, never a verdict
    second = [o for o in proved if (o.get('info') or {}).get('cvc5')]
    for o in second:
        if o['info']['cvc5'] == 'refuted':
            faults.append('%s: z3 proved it but cvc5 reports a counter-model (back-end disagreement)' % o['name'])

    # ---- known findings: each must still reproduce on the real code; its obligations are expected red
    lines = []
    violations = []
    kfs = [f for f in kf.get('findings', []) if f['property'] == pid]
    covered = set()
    for f in kfs:
        path, res = run_replay(pid, dict(name='known-finding:' + f['id'], verdict='known', model=None, line=None, info={}),
                               extra=dict(known_finding=f))
        if res.get('found'):
            lines.append('KNOWN-FINDING: property=%s %s' % (pid, f['what']))
        else:
            lines.append('NOTE: known finding %s no longer reproduces on this tree (%s)' % (f['id'], res.get('error', 'witness passes')))
        for o in refuted:
            if any(fnmatch.fnmatch(o['name'], pat) for pat in f.get('obligations', [])):
                covered.add(o['name'])
    reported = set()
    for o in refuted:
        if o['name'] in covered or o['name'] in reported:
            continue
        reported.add(o['name'])
        if (o.get('backend') or '') in ('bounded enumeration', 'enumeration', 'AST scan', 'inspection') and o.get('model'):
            # the enumeration's own witness IS a concrete failing input on the real function
            os.makedirs(os.path.join(VERIF, 'replays', pid), exist_ok=True)
            path = os.path.join(VERIF, 'replays', pid, sanitize(o['name']) + '.json')
            res = dict(found=True, input=o['model'], note='witness of the exhaustive enumeration, evaluated on the real function')
            json.dump(dict(property=pid, obligation=o['name'], verdict='refuted', checker=o.get('backend'), replay=res), open(path, 'w'), indent=1, default=str)
        else:
            path, res = run_replay(pid, o, extra=dict(known_ids=[f['id'] for f in kfs]))
        rel = os.path.relpath(path, VERIF)
        tail = '' if res.get('found') else ' no-failing-input-found'
        violations.append((o, rel, res))
        lines.append('VIOLATION property=%s replay=%s obligation=%s%s' % (pid, rel, o['name'], tail))

    # thorough tier: the property's whole replay battery is also run on the tree as it is - bounded
    # exploration of the real code, reported separately and never counted as proved
    exploration = None
    # quick tier: the same battery is the fall-back whenever the deductive part could not decide (a rewritten function, a
    # new helper without a contract, a construct outside the subset): "undecided" stays the verdict of the proof, but a
    # failing input found on the real code is a violation in its own right
    if (tier == 'thorough' or undecided or faults or not obligations) and not violations:
        path, res = run_replay(pid, dict(name='exploration:replay-battery', verdict='exploration', model=None, line=None, info={}),
                               extra=dict(known_ids=[f['id'] for f in kfs]))
        exploration = dict(found=bool(res.get('found')), tried=res.get('tried'), input=res.get('input'))
        if res.get('found'):
            rel = os.path.relpath(path, VERIF)
            o = dict(name='exploration:replay-battery', line=None, backend='replay harness (bounded exploration)', verdict='refuted')
            violations.append((o, rel, res))
            lines.append('VIOLATION property=%s replay=%s obligation=exploration:replay-battery' % (pid, rel))
    # thorough tier: CPython cross-check of the verifier's reading of Python on the loop-free functions of this property
    # (pyvc/crosscheck.py): a disagreement is a fault of the CHECKER, never a verdict about lomond
    crosscheck = None
    if tier == 'thorough':
        try:
            p = subprocess.run([sys.executable, '-m', 'pyvc.crosscheck', '--property', pid, '--json'], capture_output=True, text=True,
                               timeout=1200, cwd=VERIF, env=dict(os.environ, PYTHONPATH=ROOT + os.pathsep + VERIF))
            crosscheck = json.loads(p.stdout.strip().splitlines()[-1]) if p.stdout.strip() else dict(error=p.stderr[-500:])
        except Exception as e:      # noqa
            crosscheck = dict(error='%s: %s' % (type(e).__name__, e))
        for m in (crosscheck.get('mismatches') or []):
            faults.append('encoding cross-check: interpreter and CPython disagree on %s (%s): %s' % (m.get('qual'), m.get('inputs'), '; '.join(m.get('problems', []))))
    wall = time.time() - t0
    bounded = [dict(name=o['name'], verdict='held on every enumerated case' if o['verdict'] == 'proved' else 'FAILED', method=o.get('backend'))
               for o in bounded_obls]
    ev = dict(
        property_id=pid, tier=tier, seed=seed, level='proof',
        coverage=dict(
            obligations=len(obligations), discharged=len(proved),
            checker_cmd='./check %s --tier %s' % (pid, tier),
            trusted_base=sorted(assumed) + ['pyvc executor encoding of the Python subset (DESIGN 2.2)', 'z3 5.1.0 / cvc5 1.0.3 / z3 4.8.12'],
            functions_under_contract=functions,
            refuted=[dict(name=o['name'], line=o['line'], backend=o['backend']) for o in refuted],
            known_findings=[f['id'] for f in kfs],
            undecided=undecided, checker_faults=faults,
            solver_ms_total=round(sum(o['ms'] for o in obligations), 1),
            solver_ms_max=round(max([o['ms'] for o in obligations] or [0]), 1),
            backends=sorted(set(o['backend'] or '?' for o in obligations)),
            samples=[dict(name=o['name'], verdict=o['verdict'], ms=o['ms'], backend=o['backend'], line=o['line'])
                     for o in (obligations[:3] + obligations[len(obligations) // 2:len(obligations) // 2 + 2] + obligations[-2:])],
            bounded_stand_ins=bounded,
            exploration=exploration,
            encoding_crosscheck=crosscheck,
            cvc5_second_opinions=len(second),
            source_root=ROOT,
        ),
        assumptions=sorted(assumed),
        wall_s=round(wall, 2), violations=len(violations))
    evdir = os.environ.get('PYVC_EVIDENCE_DIR') or os.path.join(VERIF, 'evidence')   # experiments on scratch trees write elsewhere
    os.makedirs(evdir, exist_ok=True)
    with open(os.path.join(evdir, pid + '.json'), 'w') as f:
        json.dump(ev, f, indent=1, default=str)

    for ln in lines:
        print(ln)
    print('%s: %d obligations, %d proved, %d refuted (%d listed as known), %d undecided, %d functions, %.1fs' % (
        pid, len(obligations), len(proved), len(refuted), len(covered), len(unknown), len(functions), wall))
    if faults:
        for f in faults:
            print('CHECKER-FAULT property=%s %s' % (pid, f))
        # a failing input replayed on the real code stands on its own, whatever else went wrong in the checker
        if any(res.get('found') for _o, _rel, res in violations):
            return 1
        return 3
    if violations:
        return 1
    if undecided or not obligations:
        for u in undecided[:20]:
            print('UNDECIDED property=%s %s' % (pid, u))
        return 2
    return 0


if __name__ == '__main__':
    sys.exit(main())
