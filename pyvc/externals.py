"""Assumed contracts of everything outside the package: builtins, bytes/bytearray/str methods,
struct, os.urandom, time, math, zlib, socket, selector, lock, hashlib/base64, random, json.
Every entry here is part of the TRUSTED BASE (DESIGN section 4 C) and is listed in the evidence
when used (Interp.st.ghost['assumed'])."""
import ast
import base64
import builtins
import hashlib
import inspect
import json
import math
import os
import random as _random
import socket as _socket
import struct
import threading
import time as _time
import zlib

import z3
from z3 import (And, Or, Not, If, Implies, IntVal, BoolVal, RealVal, is_expr, is_int, is_bool,
                simplify, Sum, ForAll, Function)

from .engine import (Unsupported, PyRaise, PathEnd, Env, Closure, BoundMethod, GenObj, LazyGenExp,
                     TableRow, SDictV, SuperProxy, type_of, _Return)
from .sval import (SBytes, SStr, MRef, ORef, SList, SOpt, Rec, Opaque, ExcVal, ExtObj, fresh,
                   to_int, to_real, to_bool, isnum, isreal, iv, cat, bslice, beq, ite,
                   BYTES, BYTEARRAY, MEMVIEW, I, B, R, Str)
from . import sval

xor8 = Function('xor8', I, I, I)       # byte xor, axiomatised by the facts below where needed
sha1_b64 = Function('sha1_b64', z3.ArraySort(I, I), I, Str)
str_to_int = Function('str_to_int', Str, I)
is_int_str = Function('is_int_str', Str, B)
text_of_exc = Function('text_of_exc', I, Str)
accept_text = Function('accept_text', z3.ArraySort(I, I), I, Str)


def digest_text(const):
    """x -> text of base64(sha1(x ++ const)); one uninterpreted symbol per constant"""
    import hashlib as _h
    return Function('digest_text_%s' % _h.md5(const).hexdigest()[:10], z3.ArraySort(I, I), I, Str)


def used(ip, what):
    ip.st.ghost.setdefault('assumed', set()).add(what)


def raise_unknown(ip, base=Exception, tag=''):
    raise PyRaise(ExcVal(None, base=base, tag=tag))


def may_raise(ip, tag, base=Exception):
    """an external call may raise an arbitrary exception (class unknown, subclass of `base`)"""
    if ip.st.choose(['ok', 'raise'], 'ext:' + tag) == 'raise':
        raise_unknown(ip, base, tag)


# ----------------------------------------------------------------------------- struct
def struct_pack(ip, fmt, args):
    st = ip.st
    used(ip, 'struct.pack(%s): big-endian positional encoding (relational)' % fmt)
    sizes = {'B': 1, 'H': 2, 'Q': 8}
    f = fmt.lstrip('!')
    if f == '4s':
        if len(args) != 1 or not ip.is_byteslike(args[0]):
            raise PyRaise(ExcVal(struct.error, tag='4s-arg'))
        b = ip.bytes_of(args[0])
        # struct '4s' pads / truncates silently: result always 4 bytes
        return SBytes(BYTES, IntVal(4), lambda i, b=b: If(iv(i) < b.n, b.at(i), IntVal(0)))
    if len(f) != len(args):
        raise PyRaise(ExcVal(struct.error, tag='pack-arity'))
    out = []
    for ch, a in zip(f, args):
        k = sizes[ch]
        if isinstance(a, SOpt):
            a = ip.unopt(a, 'struct.pack')
        if a is None or not isnum(a) or isreal(a):
            raise PyRaise(ExcVal(struct.error, tag='pack-type'))
        a = to_int(a)
        if not st.decide(And(a >= 0, a < 256 ** k), 'struct-range-' + ch):
            raise PyRaise(ExcVal(struct.error, tag='pack-range'))
        bs = [fresh('pk') for _ in range(k)]
        st.assume(*[And(x >= 0, x < 256) for x in bs])
        st.assume(Sum([bs[j] * 256 ** (k - 1 - j) for j in range(k)]) == a)
        out += bs
    return SBytes.lit(out)


def struct_unpack(ip, fmt, args):
    st = ip.st
    used(ip, 'struct.unpack(%s): big-endian positional decoding' % fmt)
    sizes = {'B': 1, 'H': 2, 'Q': 8}
    f = fmt.lstrip('!')
    if len(args) != 1 or not ip.is_byteslike(args[0]):
        raise PyRaise(ExcVal(TypeError, tag='unpack-arg'))
    b = ip.bytes_of(args[0])
    total = sum(sizes[c] for c in f)
    if not st.decide(b.n == total, 'struct-unpack-len'):
        raise PyRaise(ExcVal(struct.error, tag='unpack-len'))
    out = []
    off = 0
    for ch in f:
        k = sizes[ch]
        bs = [b.at(IntVal(off + j)) for j in range(k)]
        st.assume(*[And(x >= 0, x < 256) for x in bs])
        out.append(simplify(Sum([bs[j] * 256 ** (k - 1 - j) for j in range(k)])))
        off += k
    return tuple(out)


# ----------------------------------------------------------------------------- comprehension helpers
def genexp_parts(ip, g):
    node = g.node
    if len(node.generators) != 1 or node.generators[0].ifs:
        raise Unsupported('comprehension shape')
    comp = node.generators[0]
    saved = ip.env
    ip.env = g.env
    try:
        it = ip.ev(comp.iter)
    finally:
        ip.env = saved
    return comp, it


def eval_elt(ip, g, comp, item):
    env = Env(g.env)
    saved = ip.env
    ip.env = env
    try:
        ip.assign(comp.target, item)
        return ip.ev(g.node.elt)
    finally:
        ip.env = saved


def unpack_genexp(ip, g, k):
    comp, it = genexp_parts(ip, g)
    items = ip.unpack(it, k)
    return [eval_elt(ip, g, comp, x) for x in items]


def list_comp(ip, node):
    g = LazyGenExp(node, ip.env)
    comp, it = genexp_parts(ip, g)
    lst = iter_values(ip, it)
    return ip.st.alloc(map_list(ip, g, comp, lst), 'l')


def iter_values(ip, it):
    """iterable -> SList value"""
    st = ip.st
    if isinstance(it, tuple):
        return SList.of(list(it)) if it else SList.empty()
    if isinstance(it, MRef) and isinstance(st.mem[it.ident], SList):
        return st.mem[it.ident]
    if isinstance(it, SList):
        return it
    raise Unsupported('iteration over %r' % (it,))


def map_list(ip, g, comp, lst):
    n = lst.concrete_len()
    if n is not None:
        items = [eval_elt(ip, g, comp, lst.at(IntVal(j))) for j in range(n)]
        return SList.of(items) if items else SList.empty()

    # symbolic length: the element expression is evaluated ONCE at a generic index k (its side
    # effects are logged with that context = "performed for every k, in order"); the resulting
    # list is abstracted to index-parametrised fresh symbols of the same shape
    st = ip.st
    k = fresh('gk')
    st.assume(k >= 0, k < lst.n)
    st.ghost['comp_ctx'] = (lst, k)

    def effects():
        return (st.oidx, len(st.writes), len(st.memwrites), len(st.mem), len(st.heap),
                sum(len(x) for x in st.ghost.values() if isinstance(x, list)))
    e0 = effects()
    try:
        v = eval_elt(ip, g, comp, lst.at(k))
    finally:
        st.ghost['comp_ctx'] = None
    if effects() == e0:
        # pure element expression: the mapped list is exact
        return SList(lst.n, lambda i, lst=lst: eval_elt(ip, g, comp, lst.at(i)))
    if ip.is_byteslike(v):
        vb = ip.bytes_of(v)
        cid = st.fresh_id('map')
        flen = Function('maplen_' + cid, I, I)
        fat = Function('mapat_' + cid, I, I, I)
        kk, jj = fresh('mk'), fresh('mj')
        st.hyps.append(ForAll([kk], flen(kk) >= 0, patterns=[flen(kk)]))
        st.hyps.append(ForAll([kk, jj], And(fat(kk, jj) >= 0, fat(kk, jj) < 256), patterns=[fat(kk, jj)]))
        # the generic instance is one of them
        st.assume(flen(k) == vb.n)
        st.ghost.setdefault('maps', {})[cid] = (lst, k, vb)
        kind = vb.kind if vb.kind != BYTEARRAY else BYTES
        return SList(lst.n, lambda i, flen=flen, fat=fat, kind=kind: SBytes(kind, flen(iv(i)), lambda j, i=i: fat(iv(i), iv(j))))
    raise Unsupported('comprehension over a symbolic-length list with element %r' % (v,))


def join_bytes(ip, lst):
    st = ip.st
    used(ip, "b''.join: concatenation in order")
    n = lst.concrete_len()
    if n is not None:
        parts = [lst.at(IntVal(j)) for j in range(n)]
        for p in parts:
            if not ip.is_byteslike(p):
                raise PyRaise(ExcVal(TypeError, tag='join-nonbytes'))
        return cat(BYTES, [ip.bytes_of(p) for p in parts])
    # symbolic length: abstract concatenation with its defining axioms
    jid = st.fresh_id('join')
    csum = Function('csum_' + jid, I, I)
    catat = Function('cat_' + jid, I, I)
    k = fresh('jk')
    j = fresh('jj')
    ek = lst.at(k)
    if not ip.is_byteslike(ek):
        raise PyRaise(ExcVal(TypeError, tag='join-nonbytes'))
    ekb = ip.bytes_of(ek)
    st.hyps.append(csum(IntVal(0)) == 0)
    st.hyps.append(ForAll([k], Implies(And(k >= 0, k < lst.n),
                                       And(csum(k + 1) == csum(k) + ekb.n, ekb.n >= 0)), patterns=[csum(k + 1)]))
    st.hyps.append(ForAll([k, j], Implies(And(k >= 0, k < lst.n, j >= 0, j < ekb.n),
                                          catat(csum(k) + j) == ekb.at(j)), patterns=[z3.MultiPattern(csum(k), ekb.at(j))]
                          if False else []))
    res = SBytes(BYTES, csum(lst.n), lambda i: catat(iv(i)), meta=dict(join=jid))
    st.ghost.setdefault('joins', {})[jid] = (lst, res)
    return res


# ----------------------------------------------------------------------------- methods of values
def call_method(ip, recv, name, args, kw):
    st = ip.st
    if isinstance(recv, ExtObj):
        return ext_call(ip, recv, name, args, kw)
    if isinstance(recv, GenObj):
        return recv.contract.gen_method(ip, recv, name, args, kw)
    if isinstance(recv, ExcVal):
        raise Unsupported('method %s of exception' % name)
    if inspect.isclass(recv):
        raise Unsupported('builtin classmethod %s.%s' % (recv.__name__, name))
    # ---- bytes-like
    if ip.is_byteslike(recv):
        b = ip.bytes_of(recv)
        if name == 'translate':
            (t,) = args
            if isinstance(t, TableRow):
                used(ip, 'bytes.translate with _XOR_TABLE[n] == per-byte xor with n (table checked exhaustively at load)')
                k = t.n
                r = SBytes(b.kind, b.n, lambda j, b=b, k=k: xor8(b.at(j), k))
                return st.alloc(r, 'ba') if b.kind == BYTEARRAY else r
            raise Unsupported('translate with unknown table')
        if name == 'extend' and isinstance(recv, MRef):
            (x,) = args
            if not ip.is_byteslike(x):
                raise PyRaise(ExcVal(TypeError, tag='extend-nonbytes'))
            st.mem[recv.ident] = materialise(ip, cat(BYTEARRAY, [b, ip.bytes_of(x)]), 'ext')
            st.memwrites.append(recv.ident)
            return None
        if name == 'find':
            return bytes_find(ip, b, args)
        if name == 'isascii' and not args:
            used(ip, 'bytes.isascii() == every byte < 128')
            asc, k, j = fresh('isascii', B), fresh('nonascii_at'), fresh('aj')
            st.hyps.append(Implies(asc, ForAll([j], Implies(And(j >= 0, j < b.n), b.at(j) < 128))))
            st.assume(Implies(Not(asc), And(k >= 0, k < b.n, b.at(k) >= 128)))
            return asc
        if name == 'decode':
            return bytes_decode(ip, b, args, kw)
        if name == 'join':
            (x,) = args
            if isinstance(x, LazyGenExp):
                comp, it = genexp_parts(ip, x)
                lst = map_list(ip, x, comp, iter_values(ip, it))
            else:
                lst = iter_values(ip, x)
            if b.concrete_len() == 0:
                return join_bytes(ip, lst)
            n = lst.concrete_len()
            if n is None:
                # symbolic number of items: the result is an abstract byte string; what is known about it is its provenance
                # (separator and list, recorded for the contracts) and its length
                used(ip, 'sep.join(items): the items in order, separated by sep')
                jid = st.fresh_id('sjoin')
                csum = Function('sjsum_' + jid, I, I)
                k = fresh('jk')
                ek = lst.at(k)
                if not ip.is_byteslike(ek):
                    raise PyRaise(ExcVal(TypeError, tag='join-nonbytes'))
                ekb = ip.bytes_of(ek)
                st.hyps.append(csum(IntVal(0)) == 0)
                st.hyps.append(ForAll([k], Implies(And(k >= 0, k < lst.n), And(csum(k + 1) == csum(k) + ekb.n + If(k + 1 < lst.n, b.n, 0), ekb.n >= 0)),
                                      patterns=[csum(k + 1)]))
                nm = sval.FRESH.name('sjoined')
                res = SBytes.sym(nm)
                st.hyps.append(res.wf())
                st.assume(res.n == csum(lst.n))
                res.meta = dict(join=jid)
                st.ghost.setdefault('sep_joins', []).append((b, lst, res))
                return res
            parts = []
            for j in range(n):
                if j:
                    parts.append(b)
                parts.append(ip.bytes_of(lst.at(IntVal(j))))
            return cat(BYTES, parts)
        if name in ('split', 'strip', 'lower', 'startswith', 'partition'):
            raise Unsupported('bytes.%s (string code: bounded stand-in only)' % name)
        raise Unsupported('bytes method %s' % name)
    if isinstance(recv, SStr):
        return str_method(ip, recv, name, args, kw)
    if isinstance(recv, MRef) and isinstance(st.mem[recv.ident], SList):
        l = st.mem[recv.ident]
        if name == 'append':
            (x,) = args
            if isinstance(x, ORef):
                x = freeze(ip, x)
            st.mem[recv.ident] = l.append(x)
            st.memwrites.append(recv.ident)
            return None
        if name == 'extend':
            (x,) = args
            other = iter_values(ip, x)
            m = other.concrete_len()
            if m is None:
                raise Unsupported('extend by symbolic list')
            for j in range(m):
                l = l.append(other.at(IntVal(j)))
            st.mem[recv.ident] = l
            st.memwrites.append(recv.ident)
            return None
        raise Unsupported('list method %s' % name)
    if isinstance(recv, SDictV):
        if name == 'get':
            key = args[0]
            default = args[1] if len(args) > 1 else kw.get('default', None)
            if st.decide(to_bool(recv.has(key)), 'dict-has'):
                return recv.value(key)
            return default
        raise Unsupported('dict method %s' % name)
    if isinstance(recv, set) and name == 'add':
        recv.add(args[0].text if isinstance(args[0], SStr) and args[0].text is not None else args[0])
        return None
    if isinstance(recv, dict) and name == 'get':
        raise Unsupported('concrete dict get')
    raise Unsupported('method %s of %r' % (name, recv))


def materialise(ip, b, name):
    """name a composed byte string: a fresh base array defined point-wise (so that later quantified
    facts about it have a usable trigger)"""
    st = ip.st
    nm = sval.FRESH.name(name)
    arr = z3.Array(nm, I, I)
    x = fresh('mx')
    st.hyps.append(ForAll([x], Implies(And(x >= 0, x < b.n), z3.Select(arr, x) == b.at(x)), patterns=[z3.Select(arr, x)]))
    return SBytes(b.kind, b.n, lambda i, arr=arr: z3.Select(arr, iv(i)), arr=arr, meta=b.meta)


def freeze(ip, ref):
    """an object appended to an abstract list is stored as an immutable snapshot record; later
    writes to it are outside the subset (reported as undecided)"""
    o = ip.st.obj(ref)
    o.frozen = True
    f = dict(o.f)
    for k, v in list(f.items()):
        if isinstance(v, MRef) and isinstance(ip.st.mem[v.ident], SBytes):
            b = ip.st.mem[v.ident]
            f[k] = SBytes(BYTES, b.n, b.at, b.arr)      # snapshot of the (from now on unshared) buffer
    return Rec(o.cls, **f)


def bytes_find(ip, b, args):
    """bytearray.find(sep): index of the first occurrence or -1 (assumed contract)"""
    st = ip.st
    used(ip, 'bytearray.find(sep): first occurrence or -1')
    sep = ip.bytes_of(args[0])
    m = sep.concrete_len()
    if m is None or len(args) != 1:
        raise Unsupported('find with symbolic separator length')
    r = fresh('find')
    p = fresh('fp')

    def match_at(pos):
        return And(*[b.at(pos + j) == sep.at(IntVal(j)) for j in range(m)])
    st.assume(r >= -1, r <= b.n - m if m > 0 else r <= b.n)
    st.assume(Implies(r >= 0, match_at(r)))
    st.hyps.append(ForAll([p], Implies(And(p >= 0, p + m <= b.n, Or(r == -1, p < r)), Not(match_at(p))),
                          patterns=[b.at(p)] if b.arr is not None else []))
    st.ghost.setdefault('finds', []).append((r, b, sep))
    return r


def bytes_decode(ip, b, args, kw):
    st = ip.st
    enc = args[0] if args else kw.get('encoding', SStr.lit('utf-8'))
    errors = args[1] if len(args) > 1 else kw.get('errors')
    if not (isinstance(enc, SStr) and enc.text in ('utf-8', 'utf8', 'ascii')):
        raise Unsupported('decode encoding')
    arr = b.as_array()
    if enc.text == 'ascii' or errors is not None:
        src = (b.meta or {}).get('b64_of')
        if src is not None and (src.meta or {}).get('sha1_of') is not None:
            data = src.meta['sha1_of']
            used(ip, 'base64(sha1(x ++ c)).decode("ascii") is a deterministic function of x for a constant c (uninterpreted)')
            parts = (data.meta or {}).get('concat')
            if parts and (parts[1].meta or {}).get('const') is not None:
                return SStr(digest_text(parts[1].meta['const'])(parts[0].as_array(), parts[0].n))
            return SStr(accept_text(data.as_array(), data.n))
        return SStr(fresh('decoded', Str))
    used(ip, "bytes.decode('utf-8'): succeeds iff well-formed per RFC 3629, returns the exact decoding")
    ok = sval.wf_utf8(arr, b.n)
    if not st.decide(ok, 'utf8-decodable'):
        raise PyRaise(ExcVal(UnicodeDecodeError, tag='decode'))
    return SStr(sval.dec_utf8(arr, b.n))


def str_method(ip, s, name, args, kw):
    st = ip.st
    if name == 'encode':
        enc = args[0] if args else kw.get('encoding', SStr.lit('utf-8'))
        if not (isinstance(enc, SStr) and enc.text in ('utf-8', 'utf8')):
            raise Unsupported('encode encoding')
        used(ip, "str.encode('utf-8'): the UTF-8 encoding of the text (uninterpreted utf8(s))")
        for f in sval.str_encode_facts(s):
            st.assume(f)
        return sval.str_encode(s)
    if name == 'format':
        if s.text is not None and not kw and s.text.count('{}') == len(args) and '{' not in s.text.replace('{}', '') and '}' not in s.text.replace('{}', ''):
            vals = [ip.unopt(x, 'format') if isinstance(x, sval.SOpt) else x for x in args]
            if all(isinstance(x, SStr) or (isnum(x) and not isreal(x) and not isinstance(x, bool)) for x in vals):
                used(ip, "'..{}..'.format(str / int arguments): the literal pieces and the arguments' text, in order (str(int) = decimal digits, uninterpreted)")
                parts = []
                lits = s.text.split('{}')
                for j, lit in enumerate(lits):
                    if lit:
                        parts.append(('lit', lit))
                    if j < len(vals):
                        x = vals[j]
                        parts.append(('str', x) if isinstance(x, SStr) else ('int', x if isinstance(x, int) else to_int(x)))
                return SStr(fresh('strfmt', Str), parts=parts)
        used(ip, 'str.format: returns some str (content not modelled)')
        return SStr(fresh('fmt', Str))
    if name == 'join' and len(args) == 1:
        lst = iter_values(ip, args[0])
        used(ip, "str.join: the items' text separated by the separator (uninterpreted function of separator and list)")
        r = SStr(fresh('strjoin', Str))
        st.ghost.setdefault('strjoins', []).append((s, lst, r))
        return r
    if name == 'lower':
        if s.text is not None:
            return SStr.lit(s.text.lower())
        return SStr(sval.str_lower(s.t))
    if name in ('strip', 'lstrip', 'rstrip'):
        raise Unsupported('str.%s (string code: bounded stand-in only)' % name)
    if name == 'decode':
        raise PyRaise(ExcVal(AttributeError, tag='str.decode'))
    raise Unsupported('str method %s' % name)


# ----------------------------------------------------------------------------- builtin classes
def call_builtin_class(ip, f, args, kw):
    st = ip.st
    if f is bytearray:
        if not args:
            return st.alloc(SBytes.lit([], BYTEARRAY), 'ba')
        (x,) = args
        if isinstance(x, SOpt):
            x = ip.unopt(x, 'bytearray()')
        if ip.is_byteslike(x):
            b = ip.bytes_of(x)
            return st.alloc(SBytes(BYTEARRAY, b.n, b.at, b.arr), 'ba')
        if isnum(x) and not isreal(x):
            n = to_int(x)
            if st.decide(n < 0, 'bytearray-neg'):
                raise PyRaise(ExcVal(ValueError))
            return st.alloc(SBytes(BYTEARRAY, n, lambda i: IntVal(0)), 'ba')
        if isinstance(x, SStr):
            raise PyRaise(ExcVal(TypeError, tag='bytearray(str)'))
        if x is None or isinstance(x, Opaque):
            raise PyRaise(ExcVal(TypeError, tag='bytearray(other)'))
        raise Unsupported('bytearray(%r)' % (x,))
    if f is bytes:
        if not args:
            return SBytes.lit([])
        (x,) = args
        if isinstance(x, LazyGenExp):
            raise Unsupported('bytes(genexp)')
        if ip.is_byteslike(x):
            b = ip.bytes_of(x)
            return SBytes(BYTES, b.n, b.at, b.arr)
        if isinstance(x, SStr) or x is None or isinstance(x, Opaque):
            raise PyRaise(ExcVal(TypeError, tag='bytes(nonbytes)'))
        raise Unsupported('bytes(%r)' % (x,))
    if f is memoryview:
        (x,) = args
        if isinstance(x, MRef):
            b = ip.bytes_of(x)
            return SBytes(MEMVIEW, b.n, b.at, b.arr, view_of=x.ident)
        if isinstance(x, SBytes):
            return SBytes(MEMVIEW, x.n, x.at, x.arr)
        raise Unsupported('memoryview(%r)' % (x,))
    if f is bool:
        if not args:
            return False
        t = ip.truth(args[0])
        return t
    if f is int:
        (x,) = args
        if isinstance(x, SOpt):
            x = ip.unopt(x, 'int()')
        if isinstance(x, SStr):
            if x.text is not None:
                try:
                    return int(x.text)
                except ValueError:
                    raise PyRaise(ExcVal(ValueError, tag='int(str)'))
            if not st.decide(is_int_str(x.t), 'int-parsable'):
                raise PyRaise(ExcVal(ValueError, tag='int(str)'))
            return str_to_int(x.t)
        if isnum(x) and not isreal(x):
            return to_int(x)
        if x is None:
            raise PyRaise(ExcVal(TypeError, tag='int(None)'))
        raise Unsupported('int(%r)' % (x,))
    if f is str:
        used(ip, 'str(x): returns some str')
        if args and isinstance(args[0], SStr):
            return args[0]
        return SStr(fresh('str', Str))
    if f is super:
        if len(args) == 2:
            return SuperProxy(args[0], args[1])
        raise Unsupported('zero-argument super')
    if f is set:
        if not args:
            return set()
        raise Unsupported('set(x)')
    if f is tuple or f is list:
        raise Unsupported('%s()' % f.__name__)
    if f is object:
        return Opaque('object')
    if f is threading.Lock or f is threading.RLock or f in (getattr(threading, '_CRLock', None), getattr(threading, '_RLock', None)):
        key = st.fresh_id('lock')
        st.ghost[key] = dict(held=0, reentrant=f is not threading.Lock)
        return ExtObj('lock', key)
    if f is threading.Event:
        key = st.fresh_id('event')
        return ExtObj('event', key)
    if f is struct.Struct:
        raise Unsupported('struct.Struct() inside function')
    if f is dict:
        raise Unsupported('dict()')
    from . import extworld
    r = extworld.call(ip, f, args, kw)
    if r is not extworld.NOT_HANDLED:
        return r
    raise Unsupported('constructor %s' % getattr(f, '__name__', f))


# ----------------------------------------------------------------------------- external functions
def call_external(ip, f, args, kw):
    st = ip.st
    # unbound methods of the byte-string types (bytes.isascii(x), bytearray.extend(x, y), ...)
    if type(f).__name__ == 'method_descriptor' and getattr(f, '__objclass__', None) in (bytes, bytearray) and args:
        return call_method(ip, args[0], f.__name__, list(args[1:]), kw)
    # threading.Lock / RLock are factory functions in CPython
    if f is threading.Lock or f is threading.RLock:
        return call_builtin_class(ip, f, args, kw)
    if f is builtins.len:
        (x,) = args
        if isinstance(x, SOpt):
            x = ip.unopt(x, 'len')
        if ip.is_byteslike(x):
            n = ip.bytes_of(x).n
            st.assume(n >= 0)
            return n
        if isinstance(x, tuple):
            return len(x)
        if isinstance(x, MRef):
            return st.mem[x.ident].n
        if isinstance(x, SList):
            return x.n
        if isinstance(x, SStr):
            if x.text is not None:
                return len(x.text)
            st.assume(sval.strlen(x.t) >= 0)
            return sval.strlen(x.t)
        if isinstance(x, ORef):
            return ip.call(ip.getattr(x, '__len__'), [], {})
        if x is None or isnum(x) or isinstance(x, Opaque):
            raise PyRaise(ExcVal(TypeError, tag='len(non-sized)'))
        raise Unsupported('len(%r)' % (x,))
    if f is builtins.isinstance:
        v, T = args
        return isinstance_(ip, v, T)
    if f is builtins.hasattr:
        v, name = args
        return hasattr_(ip, v, name.text)
    if f is builtins.getattr:
        v, name = args[0], args[1]
        try:
            return ip.getattr(v, name.text)
        except PyRaise as pr:
            if len(args) > 2 and pr.exc.cls is AttributeError:
                return args[2]
            raise
    if f is builtins.iter:
        (x,) = args
        if isinstance(x, GenObj):
            return x
        raise Unsupported('iter(%r)' % (x,))
    if f is builtins.next:
        g = args[0]
        if isinstance(g, GenObj):
            return g.contract.gen_method(ip, g, 'next', list(args[1:]), kw)
        if isinstance(g, ExtObj):
            return ext_call(ip, g, '__next__', list(args[1:]), kw)
        raise Unsupported('next(%r)' % (g,))
    if f in (builtins.min, builtins.max):
        if len(args) != 2:
            raise Unsupported('min/max arity')
        a, b = ip.unopt(args[0]), ip.unopt(args[1])
        if not (isnum(a) and isnum(b)):
            raise PyRaise(ExcVal(TypeError, tag='min/max'))
        if isreal(a) or isreal(b):
            a, b = to_real(a), to_real(b)
        else:
            a, b = to_int(a), to_int(b)
        if f is builtins.min:
            return If(b < a, b, a)
        return If(b > a, b, a)
    if f is builtins.repr or f is builtins.format:
        return SStr(fresh('repr', Str))
    if f is math.ceil:
        (x,) = args
        x = ip.unopt(x, 'ceil')
        used(ip, 'math.ceil exact over the reals (floats treated as reals)')
        k = fresh('ceil')
        xr = to_real(x)
        st.assume(z3.ToReal(k) >= xr, z3.ToReal(k) - 1 < xr)
        st.ghost.setdefault('ceils', []).append((k, xr))
        return k
    if f is _time.time:
        used(ip, 'time.time(): the ghost clock (non-decreasing real)')
        t = fresh('now', R)
        last = st.ghost.get('clock')
        if last is not None:
            if st.ghost.get('clock_frozen', True):
                st.assume(t == last)
            else:
                st.assume(t >= last)
        st.ghost['clock'] = t
        return t
    if f is os.urandom:
        (n,) = args
        used(ip, 'os.urandom(n): n fresh bytes')
        name = st.fresh_id('urandom')
        b = SBytes.sym(name)
        st.assume(b.n == to_int(n))
        st.hyps.append(b.wf())
        st.ghost.setdefault('urandom', []).append(b)
        return b
    if f is base64.b64encode or f is base64.standard_b64encode:
        used(ip, 'base64.b64encode: deterministic function (uninterpreted)')
        (x,) = args
        b = ip.bytes_of(x)
        name = st.fresh_id('b64')
        r = SBytes.sym(name)
        st.hyps.append(r.wf())
        r.meta = dict(b64_of=b)
        st.ghost.setdefault('b64_calls', []).append((b, r))
        return r
    if f is _random.random:
        used(ip, 'random.random() in [0, 1)')
        u = fresh('rand', R)
        st.assume(u >= 0, u < 1)
        st.ghost.setdefault('randoms', []).append(u)
        return u
    if f is json.dumps:
        used(ip, 'json.dumps returns str (or raises TypeError/ValueError)')
        if st.choose(['ok', 'raise'], 'json.dumps') == 'raise':
            raise PyRaise(ExcVal(TypeError, tag='json.dumps'))
        return SStr(fresh('json', Str))
    if getattr(f, '__self__', None).__class__ is struct.Struct:
        fmt = f.__self__.format
        fmt = fmt.decode() if isinstance(fmt, bytes) else fmt
        if f.__name__ == 'pack':
            return struct_pack(ip, fmt, args)
        if f.__name__ == 'unpack':
            return struct_unpack(ip, fmt, args)
    from . import extworld
    r = extworld.call(ip, f, args, kw)
    if r is not extworld.NOT_HANDLED:
        return r
    raise Unsupported('external call %s' % getattr(f, '__qualname__', getattr(f, '__name__', repr(f))))


def isinstance_(ip, v, T):
    if isinstance(T, tuple):
        rs = [isinstance_(ip, v, t) for t in T]
        if any(r is True for r in rs):
            return True
        rs = [r for r in rs if r is not False]
        return Or(*rs) if rs else False
    st = ip.st
    if isinstance(v, SOpt):
        if st.decide(v.is_none, 'isinstance-none'):
            v = None
        else:
            v = v.val
    if isinstance(v, ORef):
        return issubclass(st.obj(v).cls, T)
    if isinstance(v, Rec):
        return inspect.isclass(v.cls) and issubclass(v.cls, T)
    if isinstance(v, ExcVal):
        if v.cls is not None:
            return issubclass(v.cls, T)
        raise Unsupported('isinstance of unknown exception')
    if isinstance(v, MRef):
        c = st.mem[v.ident]
        return T in ((bytearray, object) if isinstance(c, SBytes) else (list, object))
    if isinstance(v, SBytes):
        actual = {BYTES: bytes, BYTEARRAY: bytearray, MEMVIEW: memoryview}[v.kind]
        return issubclass(actual, T)
    if isinstance(v, SStr):
        return issubclass(str, T)
    if v is None:
        return T is object or T is type(None)
    if isinstance(v, bool) or (is_expr(v) and is_bool(v)):
        return issubclass(bool, T)
    if isinstance(v, int) or (is_expr(v) and is_int(v)):
        return issubclass(int, T)
    if is_expr(v) and z3.is_real(v):
        return issubclass(float, T)
    if isinstance(v, tuple):
        return issubclass(tuple, T)
    if isinstance(v, Opaque):
        return T is object
    if isinstance(v, ExtObj):
        return v.kind == getattr(T, '__name__', None) or T is object
    if isinstance(v, (dict, set)):
        return isinstance(v, T)
    raise Unsupported('isinstance(%r, %s)' % (v, T))


def hasattr_(ip, v, name):
    st = ip.st
    if isinstance(v, ExtObj):
        from . import extworld
        return extworld.ext_hasattr(ip, v, name)
    if isinstance(v, ORef):
        o = st.obj(v)
        return name in o.f or hasattr(o.cls, name)
    if inspect.isclass(v) or inspect.ismodule(v):
        return hasattr(v, name)
    raise Unsupported('hasattr(%r, %s)' % (v, name))


def ext_getattr(ip, obj, name):
    from . import extworld
    return extworld.ext_getattr(ip, obj, name)


def ext_call(ip, obj, name, args, kw):
    from . import extworld
    return extworld.ext_call(ip, obj, name, args, kw)


def with_enter(ip, cm):
    if isinstance(cm, ExtObj) and cm.kind == 'lock':
        from . import extworld
        return extworld.lock_acquire(ip, cm)
    raise Unsupported('with %r' % (cm,))


def with_exit(ip, cm):
    if isinstance(cm, ExtObj) and cm.kind == 'lock':
        from . import extworld
        return extworld.lock_release(ip, cm)
    raise Unsupported('with %r' % (cm,))
