"""Extraction of the functions under contract from the real source tree, on every run.

The verified text is the code that runs: modules are imported from LOMOND_ROOT (default /repo),
the file of each imported module is checked to be under that root, parsed with `ast`, and
FunctionDef nodes are matched to the imported function objects by first line number.
"""
import ast
import hashlib
import importlib
import inspect
import os
import sys

ROOT = os.environ.get('LOMOND_ROOT', '/repo')
if ROOT not in sys.path:
    sys.path.insert(0, ROOT)

_MODS = {}


class ModSrc:
    def __init__(self, mod):
        self.mod = mod
        self.path = inspect.getsourcefile(mod)
        assert os.path.realpath(self.path).startswith(os.path.realpath(ROOT) + os.sep), \
            'module %s is not loaded from %s but %s' % (mod.__name__, ROOT, self.path)
        self.text = open(self.path).read()
        self.tree = ast.parse(self.text)
        self.by_line = {}
        for n in ast.walk(self.tree):
            if isinstance(n, (ast.FunctionDef, ast.Lambda)):
                self.by_line.setdefault(n.lineno, n)
                for d in getattr(n, 'decorator_list', []):
                    self.by_line.setdefault(d.lineno, n)
        self.lines = self.text.splitlines()


def modsrc(modname):
    if modname not in _MODS:
        _MODS[modname] = ModSrc(importlib.import_module(modname))
    return _MODS[modname]


def unwrap(f):
    if isinstance(f, (classmethod, staticmethod)):
        return f.__func__
    if isinstance(f, property):
        return f.fget
    return getattr(f, '__func__', f)


def is_repo_function(f):
    f = unwrap(f)
    code = getattr(f, '__code__', None)
    if code is None:
        return False
    fn = code.co_filename
    return os.path.realpath(fn).startswith(os.path.realpath(ROOT) + os.sep)


def node_of(f):
    """FunctionDef node of a function object imported from the tree under verification"""
    f = unwrap(f)
    ms = modsrc(f.__module__)
    node = ms.by_line.get(f.__code__.co_firstlineno)
    if node is None or getattr(node, 'name', None) != f.__name__:
        raise LookupError('cannot locate source of %s.%s' % (f.__module__, f.__qualname__))
    return node, ms


def qualname(f):
    f = unwrap(f)
    return '%s.%s' % (f.__module__, f.__qualname__)


def resolve(qual):
    """'lomond.frame.Frame.build' -> function object"""
    parts = qual.split('.')
    for k in range(len(parts) - 1, 0, -1):
        try:
            obj = importlib.import_module('.'.join(parts[:k]))
        except ImportError:
            continue
        for p in parts[k:]:
            if p == '<locals>':
                raise LookupError(qual)
            obj = inspect.getattr_static(obj, p) if inspect.isclass(obj) else getattr(obj, p)
        return obj
    raise LookupError(qual)


def extracted_text(f):
    """source text of the function as verified (docstring dropped), its line span and sha256"""
    node, ms = node_of(f)
    lo = min([node.lineno] + [d.lineno for d in node.decorator_list])
    hi = node.end_lineno
    text = '\n'.join(ms.lines[lo - 1:hi])
    return dict(file=os.path.relpath(ms.path, ROOT), lines=[lo, hi],
                sha256=hashlib.sha256(text.encode()).hexdigest())


def has_yield(node):
    """does the function body contain a yield of its own (not in a nested def)?"""
    def walk(n):
        for c in ast.iter_child_nodes(n):
            if isinstance(c, (ast.FunctionDef, ast.Lambda, ast.ClassDef)):
                continue
            if isinstance(c, (ast.Yield, ast.YieldFrom)):
                return True
            if walk(c):
                return True
        return False
    return walk(node)


def yield_ordinals(node):
    """Yield nodes of the function in source order -> ordinal (nested defs excluded)"""
    ys = []

    def walk(n):
        for c in ast.iter_child_nodes(n):
            if isinstance(c, (ast.FunctionDef, ast.Lambda, ast.ClassDef)):
                continue
            if isinstance(c, ast.Yield):
                ys.append(c)
            walk(c)
    walk(node)
    ys.sort(key=lambda y: (y.lineno, y.col_offset))
    return {id(y): k for k, y in enumerate(ys)}, ys


def loop_ordinals(node):
    ls = []

    def walk(n):
        for c in ast.iter_child_nodes(n):
            if isinstance(c, (ast.FunctionDef, ast.Lambda, ast.ClassDef)):
                continue
            if isinstance(c, (ast.While, ast.For)):
                ls.append(c)
            walk(c)
    walk(node)
    ls.sort(key=lambda y: (y.lineno, y.col_offset))
    return {id(y): k for k, y in enumerate(ls)}, ls


def assigned_names(stmts):
    """names (locals) assigned anywhere inside the statements (nested defs excluded)"""
    out = set()

    def tgt(t):
        if isinstance(t, ast.Name):
            out.add(t.id)
        elif isinstance(t, (ast.Tuple, ast.List)):
            for e in t.elts:
                tgt(e)
        elif isinstance(t, ast.Starred):
            tgt(t.value)

    def walk(n):
        if isinstance(n, (ast.FunctionDef, ast.Lambda, ast.ClassDef)):
            if isinstance(n, ast.FunctionDef):
                out.add(n.name)
            return
        if isinstance(n, ast.Assign):
            for t in n.targets:
                tgt(t)
        elif isinstance(n, (ast.AugAssign, ast.AnnAssign)):
            tgt(n.target)
        elif isinstance(n, ast.For):
            tgt(n.target)
        elif isinstance(n, ast.ExceptHandler) and n.name:
            out.add(n.name)
        elif isinstance(n, ast.With):
            for it in n.items:
                if it.optional_vars is not None:
                    tgt(it.optional_vars)
        elif isinstance(n, ast.NamedExpr):
            tgt(n.target)
        for c in ast.iter_child_nodes(n):
            walk(c)
    for s in stmts:
        walk(s)
    return out


class Roles:
    """locals of a function under contract identified by ROLE (what they are assigned from / iterate over / are
    compared with), read from the source on every run - so that invariants speak about 'the read position' or 'the
    event being handled' and survive a renaming of incidental temporaries"""
    def __init__(self, f):
        self.node, _ms = node_of(f)
        self.fname = qualname(f)

    def _fail(self, what):
        from pyvc.engine import Unsupported
        raise Unsupported('%s: cannot identify %s' % (self.fname, what))

    def _walk(self):
        out = []

        def walk(n):
            for c in ast.iter_child_nodes(n):
                if isinstance(c, (ast.FunctionDef, ast.Lambda, ast.ClassDef)):
                    continue
                out.append(c)
                walk(c)
        walk(self.node)
        out.sort(key=lambda y: (getattr(y, 'lineno', 0), getattr(y, 'col_offset', 0)))
        return out

    def for_target(self, sub, k=0):
        ls = [n for n in self._walk() if isinstance(n, ast.For) and isinstance(n.target, ast.Name) and sub in ast.unparse(n.iter)]
        if len(ls) <= k:
            self._fail('the loop variable over %s' % sub)
        return ls[k].target.id

    def assigned_from(self, sub, k=0):
        ls = [n for n in self._walk() if isinstance(n, ast.Assign) and len(n.targets) == 1 and isinstance(n.targets[0], ast.Name)
              and sub in ast.unparse(n.value)]
        if len(ls) <= k:
            self._fail('the variable assigned from %s' % sub)
        return ls[k].targets[0].id

    def while_test_names(self, k=0):
        ls = [n for n in self._walk() if isinstance(n, ast.While)]
        if len(ls) <= k:
            self._fail('while loop #%d' % k)
        return [x.id for x in ast.walk(ls[k].test) if isinstance(x, ast.Name)]
