"""Contract language (sidecar, no edit of /repo) and its two readings:

* at a CALL SITE (`Contract.apply`): requires are obligations, the modifies set is havocked, the
  ensures / raises clauses are assumed - the caller never sees the callee's body;
* when the function's own BODY is verified (`driver.verify_function`): requires are assumed, every
  path through the real body must satisfy the ensures clause (normal return) or match a raises
  clause (exceptional return), and may write only what modifies allows.
"""
import inspect
import json
import os

import z3
from z3 import And, Or, Not, If, Implies, IntVal, BoolVal, RealVal, is_expr, simplify

from .engine import Unsupported, PyRaise, PathEnd, GenObj
from .sval import (SBytes, SStr, MRef, ORef, Obj, SList, SOpt, Rec, Opaque, ExcVal, ExtObj, fresh,
                   BYTES, BYTEARRAY, MEMVIEW, I, B, R, Str)
from . import sval


# ids of the known findings (known_findings.json) whose failing class the contracts carve out
KNOWN = set(json.loads(os.environ.get('PYVC_KNOWN', '[]')))


# ----------------------------------------------------------------------------- type descriptors
class T:
    class _Base:
        pass

    class Int(_Base):
        def __init__(self, lo=None, hi=None):
            self.lo, self.hi = lo, hi

    class Bool(_Base):
        pass

    class Real(_Base):
        def __init__(self, lo=None):
            self.lo = lo

    class Str(_Base):
        pass

    class NoneT(_Base):
        pass

    class Bytes(_Base):
        def __init__(self, kind=BYTES, n=None, maxlen=None):
            self.kind, self.n, self.maxlen = kind, n, maxlen

    class Opt(_Base):
        def __init__(self, inner):
            self.inner = inner

    class Tuple(_Base):
        def __init__(self, *ts):
            self.ts = ts

    class Obj(_Base):
        def __init__(self, cls, **fields):
            self.cls, self.fields = cls, fields

    class Ext(_Base):
        def __init__(self, kind):
            self.kind = kind

    class Opaque(_Base):
        def __init__(self, tag='other'):
            self.tag = tag

    class Const(_Base):
        def __init__(self, v):
            self.v = v

    class Known(_Base):
        """loop-carried local with a KNOWN value at every loop head (checked where the invariant is established); in
        contrast a local declared Const(None) in a loop contract is 'irrelevant at the loop head' and must not be read"""
        def __init__(self, v):
            self.v = v


def mk(ip, t, name):
    """fresh symbolic value of type t (with its well-formedness assumptions)"""
    st = ip.st
    if inspect.isclass(t):
        t = t()
    if isinstance(t, T.Int):
        v = fresh(name, I)
        if t.lo is not None:
            st.assume(v >= t.lo)
        if t.hi is not None:
            st.assume(v <= t.hi)
        return v
    if isinstance(t, T.Bool):
        return fresh(name, B)
    if isinstance(t, T.Real):
        v = fresh(name, R)
        if t.lo is not None:
            st.assume(v >= t.lo)
        return v
    if isinstance(t, T.Str):
        return SStr(fresh(name, Str))
    if isinstance(t, T.NoneT):
        return None
    if isinstance(t, (T.Const, T.Known)):
        return t.v
    if isinstance(t, T.Bytes):
        nm = sval.FRESH.name(name)
        b = SBytes.sym(nm, BYTES if t.kind == BYTEARRAY else t.kind)
        st.assume(b.n >= 0)
        if t.n is not None:
            st.assume(b.n == t.n)
        if t.maxlen is not None:
            st.assume(b.n <= t.maxlen)
        st.hyps.append(b.wf())
        if t.kind == BYTEARRAY:
            return st.alloc(SBytes(BYTEARRAY, b.n, b.at, b.arr), 'ba')
        return b
    if isinstance(t, T.Opt):
        return SOpt(fresh(name + '_isnone', B), mk(ip, t.inner, name))
    if isinstance(t, T.Tuple):
        return tuple(mk(ip, x, '%s_%d' % (name, k)) for k, x in enumerate(t.ts))
    if isinstance(t, T.Obj):
        ref = st.new_obj(t.cls)
        for fname, ft in t.fields.items():
            st.heap[ref.oid].f[fname] = mk(ip, ft, '%s.%s' % (name, fname))
        return ref
    if isinstance(t, T.Ext):
        key = st.fresh_id(t.kind)
        return ExtObj(t.kind, key)
    if isinstance(t, T.Opaque):
        return Opaque(t.tag)
    raise TypeError('mk %r' % (t,))


def havoc_like(ip, v, name):
    """fresh value with the shape of v (used for loop-modified locals)"""
    st = ip.st
    if isinstance(v, bool):
        return fresh(name, B)
    if isinstance(v, int):
        return fresh(name, I)
    if is_expr(v):
        return fresh(name, v.sort())
    if isinstance(v, SBytes):
        return mk(ip, T.Bytes(v.kind), name)
    if isinstance(v, SStr):
        return SStr(fresh(name, Str))
    if isinstance(v, SOpt):
        return SOpt(fresh(name + '_isnone', B), havoc_like(ip, v.val, name))
    if isinstance(v, tuple):
        return tuple(havoc_like(ip, x, '%s_%d' % (name, k)) for k, x in enumerate(v))
    if isinstance(v, (MRef, ORef, ExtObj)) or v is None:
        return v          # references stay; contents are havocked through the modifies set
    raise Unsupported('cannot havoc local %s = %r (declare its type in the loop contract)' % (name, v))


def calls_since(ip, old, suffix):
    """calls of the contract whose qualified name ends with `suffix` made since the snapshot `old` (body reading)"""
    n0 = len(old.ghost.get('calls', []))
    return [a for q, a in ip.st.ghost.get('calls', [])[n0:] if q.endswith(suffix)]


class A:
    """bound arguments with attribute access"""
    def __init__(self, d):
        self.__dict__['_d'] = dict(d)

    def __getattr__(self, k):
        try:
            return self._d[k]
        except KeyError:
            raise AttributeError(k)

    def __setattr__(self, k, v):
        self._d[k] = v

    def __contains__(self, k):
        return k in self._d


class Raises:
    """exceptional postcondition (JML `signals`).
    when: formula over the PRE-state under which the function may raise `cls` (None: any time);
    iff:  if True the function MUST raise when `when` holds (so the normal path gets Not(when));
    ensures: list of (name, formula) holding in the post-state when it raises."""
    def __init__(self, cls, name=None, when=None, iff=False, ensures=(), modifies=None, tags=()):
        self.cls, self.name, self.when, self.iff = cls, name or cls.__name__, when, iff
        self.ensures, self.modifies, self.tags = list(ensures), modifies, tuple(tags)


class Contract:
    qual = None
    serves = ()
    external = False          # assumed contract of code that is not verified (listed as trusted)

    # ---- declarative part, overridden per function ------------------------------------------
    def variants(self):
        return [None]

    def setup(self, ip, variant):
        raise NotImplementedError

    def requires(self, ip, a):
        return []

    def axioms(self, ip, a):
        """definitional facts about uninterpreted spec symbols (assumed in both readings, listed)"""
        return []

    def modifies(self, ip, a):
        return []

    def result(self, ip, a, old):
        """fresh result value for the caller (normal return)"""
        return None

    def ensures(self, ip, a, old, res):
        return []

    def raises(self, ip, a, old):
        return []

    def loop(self, ordinal):
        return None

    # ---- reading at a call site ---------------------------------------------------------------
    def apply(self, ip, bound):
        st = ip.st
        a = A(bound)
        st.ghost.setdefault('callee_contracts', set()).add(self.qual)
        # ghost call log: which contracts this path has called, with which arguments (lets a caller's contract say
        # "the pong is ATTEMPTED exactly once" where the wire alone cannot tell an attempt that failed from none)
        st.ghost.setdefault('calls', []).append((self.qual, a))
        for f in self.axioms(ip, a):
            st.assume(f)
        for item in self.requires(ip, a):
            name, f = item[0], item[1]
            st.oblige('pre(%s):%s' % (short(self.qual), name), f, tags=item[2] if len(item) > 2 else ())
        old = st.snapshot()
        saved_reading = getattr(ip, 'reading', 'body')
        ip.reading = 'call'
        try:
            specs = self.raises(ip, a, old)
            labels = ['return'] + ['raise:%s' % s.name for s in specs]
            choice = st.choose(labels, 'call:' + short(self.qual))
            k = labels.index(choice) - 1
            if k >= 0:
                s = specs[k]
                if s.when is not None:
                    st.assume(s.when)
                    if not st.feasible():
                        raise PathEnd('exception not possible in this state')
                self.havoc(ip, a, s.modifies if s.modifies is not None else self.modifies(ip, a))
                for item in s.ensures:
                    if callable(item[1]):       # evaluated on the post-state (after the havoc)
                        item = (item[0], item[1](ip)) + tuple(item[2:])
                    self._assume_post(ip, item, 'raises:' + s.name)
                raise PyRaise(ExcVal(s.cls, tag='from:' + short(self.qual)))
            for s in specs:
                if s.iff and s.when is not None:
                    st.assume(Not(s.when))
            self.havoc(ip, a, self.modifies(ip, a))
            res = self.result(ip, a, old)
            for item in self.ensures(ip, a, old, res):
                self._assume_post(ip, item, 'ensures')
            return res
        finally:
            ip.reading = saved_reading

    def _assume_post(self, ip, item, what):
        """a postcondition that is literally False at a call site means the contract's call-site
        reading (result()) and its ensures() disagree: that is a fault of the contract, never a
        silently dropped path"""
        f = item[1]
        if isinstance(f, bool):
            f = BoolVal(f)
        if z3.is_false(simplify(f)):
            raise Unsupported('contract of %s: %s clause %r is False at a call site (call-site reading inconsistent)'
                              % (short(self.qual), what, item[0]))
        ip.st.assume(f)

    def havoc(self, ip, a, locs):
        st = ip.st
        for loc in locs:
            havoc_loc(ip, loc)


def havoc_loc(ip, loc):
    st = ip.st
    kind = loc[0]
    if kind == 'heap':
        _, ref, field, t = loc
        st.heap[ref.oid].f[field] = mk(ip, t, '%s.%s' % (ref.oid, field))
        st.writes.append((ref.oid, field))
    elif kind == 'mem':
        _, ref = loc[:2]
        old = st.mem[ref.ident]
        if isinstance(old, SBytes):
            nm = sval.FRESH.name('hv_' + ref.ident)
            b = SBytes.sym(nm)
            st.assume(b.n >= 0)
            st.hyps.append(b.wf())
            st.mem[ref.ident] = SBytes(old.kind, b.n, b.at, b.arr)
        else:
            if len(loc) < 3:
                raise Unsupported('havoc of a list needs an element maker')
            n = fresh('hv_len_' + ref.ident, I)
            st.assume(n >= 0)
            st.mem[ref.ident] = SList(n, loc[2])
        st.memwrites.append(ref.ident)
    elif kind == 'ghost':
        _, key, maker = loc
        st.ghost[key] = maker(ip)
    elif kind == 'heapcls':
        pass          # writes to fields of (fresh) objects of a class: allowed, nothing to havoc
    else:
        raise ValueError(loc)


def short(q):
    return q[len('lomond.'):] if q.startswith('lomond.') else q


# ----------------------------------------------------------------------------- registry
class Registry:
    def __init__(self):
        self.contracts = {}
        self.inline = set()
        self.exclude = set()

    def add(self, c):
        assert c.qual, c
        self.contracts[c.qual] = c
        return c

    def get(self, q):
        if q in self.exclude:
            return None
        return self.contracts.get(q)

    def is_inline(self, q):
        return q in self.inline

    def transparent(self, *quals):
        self.inline.update(quals)


REG = Registry()


def contract(qual, serves=(), external=False):
    """class decorator: instantiate and register"""
    def deco(cls):
        cls.qual = qual
        cls.serves = tuple(serves)
        cls.external = external
        REG.add(cls())
        return cls
    return deco


# ----------------------------------------------------------------------------- generators
class YieldSpec:
    """one kind of value a producer may yield.
    ords:      yield ordinals (source order in the producer) this spec describes
    when:      fn(ip, a, g) -> formula over the current state / generator ghost: may be yielded now
    make:      fn(ip, a, g) -> fresh yielded value (consumer side)
    guarantee: fn(ip, a, g, v) -> [(name, formula)] facts about v and the shared state at the yield
    after:     fn(ip, a, g, v) -> None, updates the generator ghost g (both readings)
    site:      free label used by drop() (e.g. 'body' / 'handler')"""
    def __init__(self, name, ords, make=None, when=None, guarantee=None, after=None, site='body', tags=()):
        self.name, self.ords, self.make, self.when = name, set(ords), make, when
        self.guarantee, self.after, self.site, self.tags = guarantee, after, site, tuple(tags)


class ProducerContract(Contract):
    """contract of a generator function.  Consumer side: every `next()` is one of - a yield
    described by a YieldSpec, an exception described by p_raises, exhaustion described by p_done;
    abandoning the generator while it is suspended triggers drop() (the GeneratorExit edge).
    Body side: every `yield` must satisfy its YieldSpec, every exit must match p_done / p_raises,
    and the GeneratorExit edge of every yield must establish drop_ensures."""

    coroutine = False

    def gen_ghost(self, ip, a):
        """initial ghost state of a new generator object: dict name -> value"""
        return {}

    def ghost_types(self):
        return {}

    def p_modifies(self, ip, a):
        return []

    def yields(self, ip, a):
        return []

    def p_raises(self, ip, a, old, g):
        return []

    def p_done(self, ip, a, old, g):
        return []

    def resume_havoc(self, ip, a, k):
        """locations the consumer may legitimately change while the producer is suspended at yield k"""
        return []

    def resume_rely(self, ip, a, k, pre):
        return []

    def drop_modifies(self, ip, a, spec):
        return []

    def drop_ensures(self, ip, a, old, spec, v):
        """state after the generator was abandoned while suspended at a yield of `spec`"""
        return []

    def start_requires(self, ip, a):
        return self.requires(ip, a)

    def suspend_inv(self, ip, a, g):
        """facts that hold whenever the generator is suspended at a yield (after the yield's ghost
        update): asserted in the body at every yield, assumed by the consumer after every step"""
        return []

    def step_effects(self, ip, a, gen, label):
        """ghost effects of one producer step on the consumer's state (e.g. frames written)"""
        return None

    # ---- call of the generator function: returns a generator object, runs nothing
    def apply(self, ip, bound):
        st = ip.st
        a = A(bound)
        st.ghost.setdefault('callee_contracts', set()).add(self.qual)
        key = st.fresh_id('gen')
        gen = GenObj(self, a, key)
        gen.g = dict(self.gen_ghost(ip, a))
        gen.last = None
        gen.started = False
        return gen

    def havoc_ghost(self, ip, gen):
        for name, t in self.ghost_types().items():
            gen.g[name] = mk(ip, t, 'gg_%s_%s' % (gen.key, name))

    # ---- consumer side
    def step(self, ip, gen, sent=None):
        st = ip.st
        a = gen.args
        if gen.done:
            return ('done',)
        saved = ip.reading
        ip.reading = 'call'
        try:
            self.start(ip, gen)
            old = st.snapshot()
            specs = self.yields(ip, a)
            rspecs = self.p_raises(ip, a, old, gen.g)
            labels = ['yield:' + s.name for s in specs] + ['raise:' + r.name for r in rspecs] + ['done']
            choice = st.choose(labels, 'step:' + short(self.qual))
            k = labels.index(choice)
            # the guard of a yield speaks about the generator's ghost state, which only the
            # YieldSpec.after hooks change: it is taken BEFORE the step's havoc of the shared heap
            if k < len(specs) and specs[k].when is not None and not getattr(specs[k], 'when_after_havoc', False):
                st.assume(specs[k].when(ip, a, gen.g))
                if not st.feasible():
                    raise PathEnd('yield not possible in this state')
            self.havoc(ip, a, self.p_modifies(ip, a))
            self.step_effects(ip, a, gen, choice)
            if k < len(specs):
                s = specs[k]
                if s.when is not None and getattr(s, 'when_after_havoc', False):
                    st.assume(s.when(ip, a, gen.g))
                v = s.make(ip, a, gen.g)
                for item in (s.guarantee(ip, a, gen.g, v) if s.guarantee else []):
                    self._assume_post(ip, item, 'yield:' + s.name)
                if s.after:
                    s.after(ip, a, gen.g, v)
                for item in self.suspend_inv(ip, a, gen.g):
                    self._assume_post(ip, item, 'suspended:' + s.name)
                gen.last = (s, v)
                return ('yield', v)
            gen.done = True
            gen.last = None
            if k < len(specs) + len(rspecs):
                r = rspecs[k - len(specs)]
                if r.when is not None:
                    st.assume(r.when)
                for item in r.ensures:
                    self._assume_post(ip, item, 'raises:' + r.name)
                raise PyRaise(ExcVal(r.cls, tag='from:' + short(self.qual)))
            for item in self.p_done(ip, a, old, gen.g):
                self._assume_post(ip, item, 'done')
            return ('done',)
        finally:
            ip.reading = saved

    def start(self, ip, gen):
        """the precondition of a generator is due when it first runs; a `for` statement runs it at
        once, so the loop machinery calls this BEFORE cutting the loop at its invariant"""
        if gen.started:
            return
        st = ip.st
        a = gen.args
        for f in self.axioms(ip, a):
            st.assume(f)
        for item in self.start_requires(ip, a):
            st.oblige('pre(%s):%s' % (short(self.qual), item[0]), item[1], tags=item[2] if len(item) > 2 else ())
        gen.started = True

    def drop(self, ip, gen):
        """the consumer abandons the generator (break / exception / return out of a for loop, or
        the consumer itself being closed): CPython finalises it at once (assumption B)"""
        st = ip.st
        if gen.done or gen.last is None:
            gen.done = True
            return
        gen.done = True
        s, v = gen.last
        a = gen.args
        saved = ip.reading
        ip.reading = 'call'
        try:
            old = st.snapshot()
            self.havoc(ip, a, self.drop_modifies(ip, a, s))
            for item in self.drop_ensures(ip, a, old, s, v):
                self._assume_post(ip, item, 'drop:' + s.name)
        finally:
            ip.reading = saved

    def gen_method(self, ip, gen, name, args, kw):
        if name in ('next', '__next__'):
            r = self.step(ip, gen)
            if r[0] == 'done':
                if args:
                    return args[0]
                raise PyRaise(ExcVal(StopIteration))
            return r[1]
        if name == 'close':
            self.drop(ip, gen)
            return None
        raise Unsupported('generator method %s' % name)

    # ---- body side
    def spec_for(self, ip, a, k):
        for s in self.yields(ip, a):
            if k in s.ords:
                return s
        return None

    def at_yield(self, ip, k, v, node):
        st = ip.st
        a = ip.args
        s = self.spec_for(ip, a, k)
        if s is None:
            st.oblige('yield%d:no-yield-spec-allows-a-yield-here' % k, BoolVal(False))
            raise PathEnd('unspecified yield')
        g = st.ghost.setdefault('self_gen', {})
        if s.when is not None:
            st.oblige('yield%d(%s):allowed-now' % (k, s.name), s.when(ip, a, g), tags=s.tags)
        for item in (s.guarantee(ip, a, g, v) if s.guarantee else []):
            st.oblige('yield%d(%s):%s' % (k, s.name, item[0]), item[1], tags=item[2] if len(item) > 2 else s.tags)
        if s.after:
            s.after(ip, a, g, v)
        for item in self.suspend_inv(ip, a, g):
            st.oblige('yield%d(%s):suspended:%s' % (k, s.name, item[0]), item[1], tags=item[2] if len(item) > 2 else s.tags)
        st.ghost['last_yield'] = (k, s, v)
        st.ghost.setdefault('yield_trace', []).append((k, s.name))
        if st.choose(['resume', 'close'], 'yield%d' % k) == 'close':
            st.ghost['closing_at'] = (k, s, v, st.snapshot())
            raise PyRaise(ExcVal(GeneratorExit, tag='closed-at-yield%d' % k))
        pre = st.snapshot()
        self.havoc(ip, a, self.resume_havoc(ip, a, k))
        for item in self.resume_rely(ip, a, k, pre):
            st.assume(item[1])
        return self.received(ip, a, k, v)

    def received(self, ip, a, k, v):
        return None

    def check_exit(self, ip, a, old, kind, res):
        st = ip.st
        g = st.ghost.setdefault('self_gen', {})
        closing = st.ghost.get('closing_at')
        if closing is not None and (kind == 'return' or res.cls is GeneratorExit):
            # the generator was closed at a yield: whether it lets GeneratorExit propagate or
            # catches it and returns, close() completes; the close postcondition must hold now
            k, s, v, snap = closing
            for item in self.drop_ensures(ip, a, snap, s, v):
                st.oblige('yield%d(%s):on-close:%s' % (k, s.name, item[0]), item[1], tags=item[2] if len(item) > 2 else ())
            return
        if kind == 'return':
            for item in self.p_done(ip, a, old, g):
                st.oblige('exhausted:%s' % item[0], item[1], tags=item[2] if len(item) > 2 else ())
            return
        exc = res
        closing = st.ghost.get('closing_at')
        if closing is not None and exc.cls is GeneratorExit:
            k, s, v, snap = closing
            for item in self.drop_ensures(ip, a, snap, s, v):
                st.oblige('yield%d(%s):on-close:%s' % (k, s.name, item[0]), item[1], tags=item[2] if len(item) > 2 else ())
            return
        if closing is not None:
            st.oblige('yield%d:exception-%s-while-being-closed' % (closing[0], exc.cls.__name__ if exc.cls else 'unknown'), BoolVal(False))
            return
        from .engine import exc_matches, spec_matches
        matched = None
        for r in self.p_raises(ip, a, old, g):
            if spec_matches(exc, r.cls) is True and (r.when is None or st.feasible(r.when)):
                matched = r
                break
        if matched is None:
            st.oblige('no-unexpected-exception:%s%s' % (exc.cls.__name__ if exc.cls else 'unknown-' + exc.base.__name__,
                                                        ('[' + exc.tag + ']') if exc.tag else ''), BoolVal(False))
            return
        if matched.when is not None:
            st.oblige('raises-only-when:%s' % matched.name, matched.when, tags=matched.tags)
        for item in matched.ensures:
            st.oblige('raises-ensures:%s:%s' % (matched.name, item[0]), item[1], tags=item[2] if len(item) > 2 else matched.tags)
