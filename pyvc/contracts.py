"""Contract language (sidecar, no edit of /repo) and its two readings:

* at a CALL SITE (`Contract.apply`): requires are obligations, the modifies set is havocked, the
  ensures / raises clauses are assumed - the caller never sees the callee's body;
* when the function's own BODY is verified (`driver.verify_function`): requires are assumed, every
  path through the real body must satisfy the ensures clause (normal return) or match a raises
  clause (exceptional return), and may write only what modifies allows.
"""
import inspect

import z3
from z3 import And, Or, Not, If, Implies, IntVal, BoolVal, RealVal, is_expr, simplify

from .engine import Unsupported, PyRaise, PathEnd, GenObj
from .sval import (SBytes, SStr, MRef, ORef, Obj, SList, SOpt, Rec, Opaque, ExcVal, ExtObj, fresh,
                   BYTES, BYTEARRAY, MEMVIEW, I, B, R, Str)
from . import sval


# ----------------------------------------------------------------------------- type descriptors
class T:
    class _Base:
        pass

    class Int(_Base):
        def __init__(self, lo=None, hi=None):
            self.lo, self.hi = lo, hi

    class Bool(_Base):
        pass

    class Real(_Base):
        def __init__(self, lo=None):
            self.lo = lo

    class Str(_Base):
        pass

    class NoneT(_Base):
        pass

    class Bytes(_Base):
        def __init__(self, kind=BYTES, n=None, maxlen=None):
            self.kind, self.n, self.maxlen = kind, n, maxlen

    class Opt(_Base):
        def __init__(self, inner):
            self.inner = inner

    class Tuple(_Base):
        def __init__(self, *ts):
            self.ts = ts

    class Obj(_Base):
        def __init__(self, cls, **fields):
            self.cls, self.fields = cls, fields

    class Ext(_Base):
        def __init__(self, kind):
            self.kind = kind

    class Opaque(_Base):
        def __init__(self, tag='other'):
            self.tag = tag

    class Const(_Base):
        def __init__(self, v):
            self.v = v


def mk(ip, t, name):
    """fresh symbolic value of type t (with its well-formedness assumptions)"""
    st = ip.st
    if inspect.isclass(t):
        t = t()
    if isinstance(t, T.Int):
        v = fresh(name, I)
        if t.lo is not None:
            st.assume(v >= t.lo)
        if t.hi is not None:
            st.assume(v <= t.hi)
        return v
    if isinstance(t, T.Bool):
        return fresh(name, B)
    if isinstance(t, T.Real):
        v = fresh(name, R)
        if t.lo is not None:
            st.assume(v >= t.lo)
        return v
    if isinstance(t, T.Str):
        return SStr(fresh(name, Str))
    if isinstance(t, T.NoneT):
        return None
    if isinstance(t, T.Const):
        return t.v
    if isinstance(t, T.Bytes):
        nm = sval.FRESH.name(name)
        b = SBytes.sym(nm, BYTES if t.kind == BYTEARRAY else t.kind)
        st.assume(b.n >= 0)
        if t.n is not None:
            st.assume(b.n == t.n)
        if t.maxlen is not None:
            st.assume(b.n <= t.maxlen)
        st.hyps.append(b.wf())
        if t.kind == BYTEARRAY:
            return st.alloc(SBytes(BYTEARRAY, b.n, b.at, b.arr), 'ba')
        return b
    if isinstance(t, T.Opt):
        return SOpt(fresh(name + '_isnone', B), mk(ip, t.inner, name))
    if isinstance(t, T.Tuple):
        return tuple(mk(ip, x, '%s_%d' % (name, k)) for k, x in enumerate(t.ts))
    if isinstance(t, T.Obj):
        ref = st.new_obj(t.cls)
        for fname, ft in t.fields.items():
            st.heap[ref.oid].f[fname] = mk(ip, ft, '%s.%s' % (name, fname))
        return ref
    if isinstance(t, T.Ext):
        key = st.fresh_id(t.kind)
        return ExtObj(t.kind, key)
    if isinstance(t, T.Opaque):
        return Opaque(t.tag)
    raise TypeError('mk %r' % (t,))


def havoc_like(ip, v, name):
    """fresh value with the shape of v (used for loop-modified locals)"""
    st = ip.st
    if isinstance(v, bool):
        return fresh(name, B)
    if isinstance(v, int):
        return fresh(name, I)
    if is_expr(v):
        return fresh(name, v.sort())
    if isinstance(v, SBytes):
        return mk(ip, T.Bytes(v.kind), name)
    if isinstance(v, SStr):
        return SStr(fresh(name, Str))
    if isinstance(v, SOpt):
        return SOpt(fresh(name + '_isnone', B), havoc_like(ip, v.val, name))
    if isinstance(v, tuple):
        return tuple(havoc_like(ip, x, '%s_%d' % (name, k)) for k, x in enumerate(v))
    if isinstance(v, (MRef, ORef, ExtObj)) or v is None:
        return v          # references stay; contents are havocked through the modifies set
    raise Unsupported('cannot havoc local %s = %r (declare its type in the loop contract)' % (name, v))


class A:
    """bound arguments with attribute access"""
    def __init__(self, d):
        self.__dict__['_d'] = dict(d)

    def __getattr__(self, k):
        try:
            return self._d[k]
        except KeyError:
            raise AttributeError(k)

    def __setattr__(self, k, v):
        self._d[k] = v

    def __contains__(self, k):
        return k in self._d


class Raises:
    """exceptional postcondition (JML `signals`).
    when: formula over the PRE-state under which the function may raise `cls` (None: any time);
    iff:  if True the function MUST raise when `when` holds (so the normal path gets Not(when));
    ensures: list of (name, formula) holding in the post-state when it raises."""
    def __init__(self, cls, name=None, when=None, iff=False, ensures=(), modifies=None, tags=()):
        self.cls, self.name, self.when, self.iff = cls, name or cls.__name__, when, iff
        self.ensures, self.modifies, self.tags = list(ensures), modifies, tuple(tags)


class Contract:
    qual = None
    serves = ()
    external = False          # assumed contract of code that is not verified (listed as trusted)

    # ---- declarative part, overridden per function ------------------------------------------
    def variants(self):
        return [None]

    def setup(self, ip, variant):
        raise NotImplementedError

    def requires(self, ip, a):
        return []

    def axioms(self, ip, a):
        """definitional facts about uninterpreted spec symbols (assumed in both readings, listed)"""
        return []

    def modifies(self, ip, a):
        return []

    def result(self, ip, a, old):
        """fresh result value for the caller (normal return)"""
        return None

    def ensures(self, ip, a, old, res):
        return []

    def raises(self, ip, a, old):
        return []

    def loop(self, ordinal):
        return None

    # ---- reading at a call site ---------------------------------------------------------------
    def apply(self, ip, bound):
        st = ip.st
        a = A(bound)
        st.ghost.setdefault('callee_contracts', set()).add(self.qual)
        for f in self.axioms(ip, a):
            st.assume(f)
        for item in self.requires(ip, a):
            name, f = item[0], item[1]
            st.oblige('pre(%s):%s' % (short(self.qual), name), f, tags=item[2] if len(item) > 2 else ())
        old = st.snapshot()
        saved_reading = getattr(ip, 'reading', 'body')
        ip.reading = 'call'
        try:
            specs = self.raises(ip, a, old)
            labels = ['return'] + ['raise:%s' % s.name for s in specs]
            choice = st.choose(labels, 'call:' + short(self.qual))
            k = labels.index(choice) - 1
            if k >= 0:
                s = specs[k]
                if s.when is not None:
                    st.assume(s.when)
                self.havoc(ip, a, s.modifies if s.modifies is not None else self.modifies(ip, a))
                for item in s.ensures:
                    self._assume_post(ip, item, 'raises:' + s.name)
                raise PyRaise(ExcVal(s.cls, tag='from:' + short(self.qual)))
            for s in specs:
                if s.iff and s.when is not None:
                    st.assume(Not(s.when))
            self.havoc(ip, a, self.modifies(ip, a))
            res = self.result(ip, a, old)
            for item in self.ensures(ip, a, old, res):
                self._assume_post(ip, item, 'ensures')
            return res
        finally:
            ip.reading = saved_reading

    def _assume_post(self, ip, item, what):
        """a postcondition that is literally False at a call site means the contract's call-site
        reading (result()) and its ensures() disagree: that is a fault of the contract, never a
        silently dropped path"""
        f = item[1]
        if isinstance(f, bool):
            f = BoolVal(f)
        if z3.is_false(simplify(f)):
            raise Unsupported('contract of %s: %s clause %r is False at a call site (call-site reading inconsistent)'
                              % (short(self.qual), what, item[0]))
        ip.st.assume(f)

    def havoc(self, ip, a, locs):
        st = ip.st
        for loc in locs:
            havoc_loc(ip, loc)


def havoc_loc(ip, loc):
    st = ip.st
    kind = loc[0]
    if kind == 'heap':
        _, ref, field, t = loc
        st.heap[ref.oid].f[field] = mk(ip, t, '%s.%s' % (ref.oid, field))
        st.writes.append((ref.oid, field))
    elif kind == 'mem':
        _, ref = loc[:2]
        old = st.mem[ref.ident]
        if isinstance(old, SBytes):
            nm = sval.FRESH.name('hv_' + ref.ident)
            b = SBytes.sym(nm)
            st.assume(b.n >= 0)
            st.hyps.append(b.wf())
            st.mem[ref.ident] = SBytes(old.kind, b.n, b.at, b.arr)
        else:
            if len(loc) < 3:
                raise Unsupported('havoc of a list needs an element maker')
            n = fresh('hv_len_' + ref.ident, I)
            st.assume(n >= 0)
            st.mem[ref.ident] = SList(n, loc[2])
        st.memwrites.append(ref.ident)
    elif kind == 'ghost':
        _, key, maker = loc
        st.ghost[key] = maker(ip)
    else:
        raise ValueError(loc)


def short(q):
    return q[len('lomond.'):] if q.startswith('lomond.') else q


# ----------------------------------------------------------------------------- registry
class Registry:
    def __init__(self):
        self.contracts = {}
        self.inline = set()
        self.exclude = set()

    def add(self, c):
        assert c.qual, c
        self.contracts[c.qual] = c
        return c

    def get(self, q):
        if q in self.exclude:
            return None
        return self.contracts.get(q)

    def is_inline(self, q):
        return q in self.inline

    def transparent(self, *quals):
        self.inline.update(quals)


REG = Registry()


def contract(qual, serves=(), external=False):
    """class decorator: instantiate and register"""
    def deco(cls):
        cls.qual = qual
        cls.serves = tuple(serves)
        cls.external = external
        REG.add(cls())
        return cls
    return deco
