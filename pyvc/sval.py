"""Symbolic values of the pyvc executor.

Ints are z3 Int terms (or Python ints when concrete), bools z3 Bool terms (or Python bools),
floats z3 Real terms.  Byte strings are (kind, length term, index -> term closure); only base
symbols are z3 arrays, concat/slice/stride are composed at the meta level so queries stay in
arrays + linear integer arithmetic.  Mutable byte strings and lists live in State.mem behind an
MRef.  Objects live in State.heap behind an ORef (concrete-shape heap).
"""
import itertools
import z3
from z3 import (And, Or, Not, If, Implies, IntVal, BoolVal, RealVal, Int, Bool, Real, Const,
                Array, Select, Function, ForAll, Sum, IntSort, BoolSort, RealSort, is_expr,
                is_int, is_bool, is_real, simplify, is_true, is_false)

I, B, R = IntSort(), BoolSort(), RealSort()
Str = z3.DeclareSort('Str')
BYTES, BYTEARRAY, MEMVIEW = 'bytes', 'bytearray', 'memoryview'


class Fresh:
    """Per-path deterministic fresh-name supply (reset at the start of every path run so that a
    replayed decision prefix rebuilds the very same terms)."""
    def __init__(self):
        self.c = itertools.count()

    def reset(self):
        self.c = itertools.count()

    def name(self, base):
        return '%s!%d' % (base, next(self.c))

    def const(self, base, sort=I):
        return Const(self.name(base), sort)


FRESH = Fresh()


def fresh(base, sort=I):
    return FRESH.const(base, sort)


def is_sym(v):
    return is_expr(v)


def to_int(v):
    """coerce Python/z3 bool/int to a z3 Int term"""
    if isinstance(v, bool):
        return IntVal(1 if v else 0)
    if isinstance(v, int):
        return IntVal(v)
    if is_expr(v):
        if is_bool(v):
            return If(v, IntVal(1), IntVal(0))
        return v
    raise TypeError('to_int %r' % (v,))


def to_real(v):
    if isinstance(v, bool):
        return RealVal(1 if v else 0)
    if isinstance(v, (int, float)):
        return RealVal(v)
    if is_expr(v):
        if is_bool(v):
            return If(v, RealVal(1), RealVal(0))
        if is_int(v):
            return z3.ToReal(v)
        return v
    raise TypeError('to_real %r' % (v,))


def to_bool(v):
    if isinstance(v, bool):
        return BoolVal(v)
    if is_expr(v) and is_bool(v):
        return v
    raise TypeError('to_bool %r' % (v,))


def isnum(v):
    return isinstance(v, (int, float)) or (is_expr(v) and (is_int(v) or is_real(v) or is_bool(v)))


def isreal(v):
    return isinstance(v, float) or (is_expr(v) and is_real(v))


# ----------------------------------------------------------------------------- byte strings
class SBytes:
    """An immutable byte-string *value*."""
    __slots__ = ('kind', 'n', 'at', 'arr', 'view_of', 'meta')

    def __init__(self, kind, n, at, arr=None, view_of=None, meta=None):
        self.kind = kind
        self.n = n if is_expr(n) else IntVal(n)
        self.at = at
        self.arr = arr          # base z3 array when this value *is* a base symbol
        self.view_of = view_of  # for memoryviews: ident of the bytearray they alias
        self.meta = meta        # provenance used by spec-level matching (join id, b64 source ...)

    @staticmethod
    def sym(name, kind=BYTES):
        a = Array(name, I, I)
        n = Int(name + '.len')
        return SBytes(kind, n, lambda i, a=a: Select(a, i), arr=a)

    @staticmethod
    def lit(vals, kind=BYTES):
        vals = [v if is_expr(v) else IntVal(v) for v in vals]

        def at(i, vals=vals):
            if isinstance(i, int):
                return vals[i] if 0 <= i < len(vals) else IntVal(0)
            si = simplify(i)
            if z3.is_int_value(si):
                k = si.as_long()
                return vals[k] if 0 <= k < len(vals) else IntVal(0)
            r = IntVal(0)
            for j in reversed(range(len(vals))):
                r = If(i == j, vals[j], r)
            return r
        b = SBytes(kind, IntVal(len(vals)), at)
        return b

    def with_kind(self, kind):
        return SBytes(kind, self.n, self.at, self.arr)

    def wf(self):
        """0 <= b[i] < 256 for all valid i, and len >= 0 (quantified hypothesis)"""
        i = fresh('wf')
        body = self.at(i)
        return And(self.n >= 0,
                   ForAll([i], Implies(And(i >= 0, i < self.n), And(body >= 0, body < 256)),
                          patterns=[body] if self.arr is not None else []))

    def as_array(self):
        if self.arr is not None:
            return self.arr
        i = Int('lam!i')
        return z3.Lambda([i], self.at(i))

    def concrete_len(self):
        s = simplify(self.n)
        return s.as_long() if z3.is_int_value(s) else None

    def __repr__(self):
        return 'SBytes<%s len=%s>' % (self.kind, simplify(self.n))


def iv(x):
    return x if is_expr(x) else IntVal(x)


def cat(kind, parts):
    parts = list(parts)
    if not parts:
        return SBytes.lit([], kind)
    if len(parts) == 1:
        return SBytes(kind, parts[0].n, parts[0].at)

    def at(i, parts=parts):
        i = iv(i)
        off = IntVal(0)
        conds = []
        for p in parts:
            conds.append((i < off + p.n, p.at(i - off)))
            off = off + p.n
        r = conds[-1][1]
        for c, v in reversed(conds[:-1]):
            r = If(c, v, r)
        return r
    return SBytes(kind, simplify(Sum([p.n for p in parts])), at)


def clamp_index(idx, n):
    """Python slice-bound normalisation for a possibly negative / out-of-range bound."""
    idx = iv(idx)
    s = simplify(idx)
    if z3.is_int_value(s) and s.as_long() >= 0:
        return If(idx > n, n, idx)
    return If(idx < 0, If(idx + n < 0, IntVal(0), idx + n), If(idx > n, n, idx))


def bslice(b, lo, hi, kind=None):
    """b[lo:hi] with Python clamping (lo/hi may be None)."""
    lo2 = IntVal(0) if lo is None else clamp_index(lo, b.n)
    hi2 = b.n if hi is None else clamp_index(hi, b.n)
    n = simplify(If(hi2 > lo2, hi2 - lo2, IntVal(0)))
    lo2 = simplify(lo2)
    return SBytes(kind or b.kind, n, lambda i, b=b, lo2=lo2: b.at(lo2 + iv(i)))


def strided(b, start, step, kind=None):
    """b[start::step] for literal start >= 0, step > 0"""
    assert isinstance(start, int) and isinstance(step, int) and start >= 0 and step > 0
    n = simplify(If(b.n > start, (b.n - start + step - 1) / step, IntVal(0)))
    return SBytes(kind or b.kind, n, lambda j, b=b: b.at(start + step * iv(j)))


def beq(x, y):
    """extensional equality of two byte strings (quantified; z3 skolemises it when negated)"""
    j = fresh('j')
    return And(x.n == y.n, ForAll([j], Implies(And(j >= 0, j < x.n), x.at(j) == y.at(j))))


# ----------------------------------------------------------------------------- strings
_LITS = {}
litid = Function('litid', Str, I)
strlen = Function('strlen', Str, I)
utf8_len = Function('utf8_len', Str, I)
utf8_at = Function('utf8_at', Str, I, I)
dec_utf8 = Function('dec_utf8', z3.ArraySort(I, I), I, Str)       # decoding of (array, length)
wf_utf8 = Function('wf_utf8', z3.ArraySort(I, I), I, B)          # RFC 3629 well-formedness
str_lower = Function('str_lower', Str, Str)


class SStr:
    """A text string: opaque z3 term of sort Str; literals are named constants with distinct ids."""
    __slots__ = ('t', 'text', 'parts')

    def __init__(self, t, text=None, parts=None):
        self.t = t
        self.text = text
        self.parts = parts      # for the result of 'lit{}lit{}'.format(...): [('lit', text) | ('str', SStr) | ('int', term)] in order

    @staticmethod
    def lit(text):
        if text not in _LITS:
            c = Const('str"%s"' % text, Str)
            _LITS[text] = (c, len(_LITS))
        return SStr(_LITS[text][0], text)

    @staticmethod
    def sym(name):
        return SStr(Const(name, Str))

    def __repr__(self):
        return 'SStr<%s>' % (self.text if self.text is not None else self.t)


def literal_facts():
    """distinctness and length of every string literal seen so far"""
    fs = []
    for text, (c, k) in _LITS.items():
        fs.append(litid(c) == k)
        fs.append(strlen(c) == len(text))
        try:
            enc = text.encode('utf-8')
            fs.append(utf8_len(c) == len(enc))
            if len(enc) <= 64:
                for j, byte in enumerate(enc):
                    fs.append(utf8_at(c, j) == byte)
        except UnicodeEncodeError:
            pass
    return fs


itoa_len = Function('itoa_len', I, I)          # str(n).encode(): decimal digits of an int (uninterpreted; only its shape is stated)
itoa_at = Function('itoa_at', I, I, I)


def str_encode(s):
    if s.text is not None:
        try:
            return SBytes.lit(list(s.text.encode('utf-8')))
        except UnicodeEncodeError:
            pass
    if s.parts is not None:
        # UTF-8 encoding distributes over concatenation
        pieces = []
        for kind, v in s.parts:
            if kind == 'lit':
                pieces.append(SBytes.lit(list(v.encode('utf-8'))))
            elif kind == 'str':
                pieces.append(str_encode(v))
            elif isinstance(v, int):
                pieces.append(SBytes.lit(list(str(v).encode('ascii'))))
            else:
                pieces.append(SBytes(BYTES, itoa_len(v), lambda i, v=v: itoa_at(v, iv(i))))
        return cat(BYTES, pieces)
    t = s.t
    return SBytes(BYTES, utf8_len(t), lambda i, t=t: utf8_at(t, iv(i)))


def str_encode_facts(s):
    if s.parts is not None:
        out = []
        i = fresh('ue')
        for kind, v in s.parts:
            if kind == 'str':
                out += str_encode_facts(v)
            elif kind == 'int' and not isinstance(v, int):
                out += [itoa_len(v) >= 1, ForAll([i], And(itoa_at(v, i) >= 0, itoa_at(v, i) < 256), patterns=[itoa_at(v, i)])]
        return out
    if s.text is not None:
        return []
    t = s.t
    i = fresh('ue')
    return [utf8_len(t) >= 0,
            ForAll([i], Implies(And(i >= 0, i < utf8_len(t)), And(utf8_at(t, i) >= 0, utf8_at(t, i) < 256)),
                   patterns=[utf8_at(t, i)] if z3.is_const(t) else [])]


# ----------------------------------------------------------------------------- containers / refs
class MRef:
    """reference to a mutable bytearray or list held in State.mem"""
    __slots__ = ('ident',)

    def __init__(self, ident):
        self.ident = ident

    def __repr__(self):
        return 'MRef(%s)' % self.ident


class ORef:
    """reference to a heap object (State.heap[oid])"""
    __slots__ = ('oid',)

    def __init__(self, oid):
        self.oid = oid

    def __repr__(self):
        return 'ORef(%s)' % self.oid

    def __eq__(self, o):
        return isinstance(o, ORef) and o.oid == self.oid

    def __hash__(self):
        return hash(self.oid)


class Obj:
    __slots__ = ('cls', 'f', 'frozen')

    def __init__(self, cls, f=None):
        self.cls = cls
        self.f = dict(f or {})
        self.frozen = False

    def copy(self):
        o = Obj(self.cls, self.f)
        o.frozen = self.frozen
        return o


class SList:
    """list *value*: length term + index -> element closure (elements are values / records)"""
    __slots__ = ('n', 'at', 'base')

    def __init__(self, n, at, base=None):
        self.n = iv(n)
        self.at = at
        self.base = base          # the list value this one is a read-through view of

    @staticmethod
    def empty():
        return SList(IntVal(0), lambda i: None)

    @staticmethod
    def of(items):
        items = list(items)

        def at(i, items=items):
            if isinstance(i, int):
                return items[i]
            s = simplify(i)
            if z3.is_int_value(s):
                return items[s.as_long()]
            r = items[-1]
            for j in reversed(range(len(items) - 1)):
                r = ite(i == j, items[j], r)
            return r
        return SList(IntVal(len(items)), at)

    def append(self, v):
        n0, at0 = self.n, self.at

        def at(i):
            c = simplify(iv(i) == n0)
            if is_true(c):
                return v
            if is_false(c):
                return at0(i)
            return ite(c, v, at0(i))
        return SList(simplify(n0 + 1), at)

    def concrete_len(self):
        s = simplify(self.n)
        return s.as_long() if z3.is_int_value(s) else None


class SOpt:
    """Optional value: is_none (z3 Bool) + value when present"""
    __slots__ = ('is_none', 'val')

    def __init__(self, is_none, val):
        self.is_none = is_none
        self.val = val

    def __repr__(self):
        return 'SOpt(%s,%r)' % (self.is_none, self.val)


class Rec:
    """immutable record value (snapshot of an object, or a spec-level tuple with named fields)"""
    def __init__(self, cls, **f):
        self.cls = cls
        self.f = f

    def __getattr__(self, k):
        try:
            return self.__dict__['f'][k]
        except KeyError:
            raise AttributeError(k)

    def __repr__(self):
        return 'Rec<%s %s>' % (getattr(self.cls, '__name__', self.cls), sorted(self.f))


class Opaque:
    """a value of some type the code does not inspect (or 'other' API argument)"""
    def __init__(self, tag):
        self.tag = tag

    def __repr__(self):
        return 'Opaque(%s)' % self.tag


class ExcVal:
    """an exception instance: cls is a real class, or None for 'some unknown subclass of base'"""
    def __init__(self, cls, args=(), base=None, tag=None):
        self.cls = cls
        self.args = args
        self.base = base or cls
        self.tag = tag

    def known(self):
        return self.cls is not None

    def __repr__(self):
        return 'ExcVal(%s)' % (self.cls.__name__ if self.cls else 'unknown<%s>' % self.base.__name__)


class ExtObj:
    """external object (socket, selector, zlib object, lock, coroutine ...) with ghost state kept
    in State.ghost under self.key"""
    def __init__(self, kind, key):
        self.kind = kind
        self.key = key

    def __repr__(self):
        return 'ExtObj(%s:%s)' % (self.kind, self.key)

    def __eq__(self, o):
        return isinstance(o, ExtObj) and o.key == self.key

    def __hash__(self):
        return hash(self.key)


def ite(c, a, b):
    """merge two values of the same shape under a z3 condition"""
    if isinstance(c, bool):
        return a if c else b
    c = simplify(c)
    if is_true(c):
        return a
    if is_false(c):
        return b
    if a is b:
        return a
    if a is None and b is None:
        return None
    if isnum(a) and isnum(b):
        if isreal(a) or isreal(b):
            return If(c, to_real(a), to_real(b))
        if (isinstance(a, bool) or (is_expr(a) and is_bool(a))) and (isinstance(b, bool) or (is_expr(b) and is_bool(b))):
            return If(c, to_bool(a), to_bool(b))
        return If(c, to_int(a), to_int(b))
    if isinstance(a, SBytes) and isinstance(b, SBytes):
        assert a.kind == b.kind
        return SBytes(a.kind, If(c, a.n, b.n), lambda i: If(c, a.at(i), b.at(i)))
    if isinstance(a, tuple) and isinstance(b, tuple) and len(a) == len(b):
        return tuple(ite(c, x, y) for x, y in zip(a, b))
    if isinstance(a, SStr) and isinstance(b, SStr):
        return SStr(If(c, a.t, b.t))
    if isinstance(a, Rec) and isinstance(b, Rec) and (issubclass(a.cls, b.cls) or issubclass(b.cls, a.cls)):
        return Rec(b.cls if issubclass(a.cls, b.cls) else a.cls, **{k: ite(c, a.f[k], b.f[k]) for k in a.f if k in b.f})
    if isinstance(a, SOpt) and isinstance(b, SOpt):
        return SOpt(If(c, a.is_none, b.is_none), ite(c, a.val, b.val))
    if a is None and isinstance(b, Rec):
        return b     # None only as the out-of-range filler of SList.empty()
    if b is None and isinstance(a, Rec):
        return a
    raise TypeError('cannot merge %r / %r' % (a, b))
