"""Path exploration, body-vs-contract checking, and discharge of obligations."""
import hashlib
import os
import subprocess
import sys
import tempfile
import time
import traceback

import z3
from z3 import And, Or, Not, BoolVal, IntVal, simplify, is_true, is_false

from . import source
from .engine import (_has_quant, State, Interp, Env, Unsupported, PathEnd, PyRaise, _Return, _Break, _Continue,
                     Obligation, exc_matches, spec_matches)
from .contracts import A, REG, short
from .sval import FRESH, ExcVal, ORef, MRef, literal_facts
from . import loops  # noqa: F401  (mixes loop handling into Interp)

QUICK_TIMEOUT_MS = int(os.environ.get('PYVC_TIMEOUT_MS', '20000'))
MAX_PATHS = int(os.environ.get('PYVC_MAX_PATHS', '4000'))


class PathResult:
    def __init__(self, kind, detail=None):
        self.kind, self.detail = kind, detail


def explore(task, max_paths=MAX_PATHS, start=None, split_at=None):
    """run `task(st)` once per decision prefix until no unexplored alternative is left.
    start: list of decision prefixes to explore (default: the empty prefix);
    split_at: once that many prefixes are pending (and a few paths are done) stop and hand the
    pending prefixes back, so that the caller can spread them over worker processes"""
    work = [list(p) for p in (start if start is not None else [[]])]
    done = []
    while work:
        if split_at is not None and len(work) >= split_at and len(done) >= 4:
            return done, work
        prefix = work.pop()
        FRESH.reset()
        st = State([list(x) for x in prefix])
        res = task(st)
        work.extend(st.new_alts)
        done.append((st, res))
        if len(done) > max_paths:
            raise Unsupported('more than %d paths' % max_paths)
    return done, []


def canonical_sites(c, yo, ylist, node):
    """yield sites are numbered in source order; a contract may name them by WHAT they yield instead
    (site_keys(sites) with sites = [(source ordinal, source of the yielded expression, source of the enclosing
    statement, type of the enclosing except handler)] -> canonical ordinals), so that reordering the arms of an if/elif chain or of a try statement does
    not move a clause to another yield"""
    if hasattr(c, 'site_keys_ast') and ylist:
        ks = list(c.site_keys_ast(node, ylist))
        if sorted(ks) != list(range(len(ylist))):
            raise Unsupported('%s: its yield sites are not the ones the contract names (%s)' % (c.qual, ks))
        return {id(y): k2 for y, k2 in zip(ylist, ks)}
    key = getattr(c, 'site_keys', None)
    if key is None or not ylist:
        return yo
    import ast as _ast
    parent = {}
    for n in _ast.walk(node):
        if isinstance(n, _ast.stmt):
            for sub in _ast.walk(n):
                if isinstance(sub, (_ast.Yield, _ast.YieldFrom)) and sub in ylist:
                    # innermost enclosing simple statement wins (walk visits outer statements first)
                    if not isinstance(n, (_ast.If, _ast.While, _ast.For, _ast.Try, _ast.With, _ast.FunctionDef)):
                        parent[id(sub)] = n
    handler = {}
    for n in _ast.walk(node):
        if isinstance(n, _ast.ExceptHandler):
            for sub in _ast.walk(n):
                if isinstance(sub, (_ast.Yield, _ast.YieldFrom)):
                    handler[id(sub)] = _ast.unparse(n.type) if n.type is not None else 'BaseException'     # innermost wins (walk order)
    sites = [(k, _ast.unparse(y.value) if getattr(y, 'value', None) is not None else '',
              _ast.unparse(parent[id(y)]) if id(y) in parent else '', handler.get(id(y), '')) for k, y in enumerate(ylist)]
    ks = list(key(sites))
    if sorted(ks) != list(range(len(ylist))):
        raise Unsupported('%s: its yield sites are not the ones the contract names (%s)' % (c.qual, ks))
    return {id(y): k2 for y, k2 in zip(ylist, ks)}


def verify_function(c, variant=None, vname='', start=None, split_at=None):
    """verify the real body of c.qual against contract c; returns (obligations, info)"""
    func = source.unwrap(source.resolve(c.qual))
    node, ms = source.node_of(func)
    yo, ylist = source.yield_ordinals(node)
    info0 = dict(qual=c.qual, variant=vname, paths=0, feasible_paths=0, cut=0, unsupported=[], yields=len(ylist), loops=0,
                 assumed=set(), callees=set(), pending=[])
    try:
        yo = canonical_sites(c, yo, ylist, node)
    except Unsupported as u:
        info0['unsupported'].append(str(u))
        return [], info0
    lo, llist = source.loop_ordinals(node)
    if hasattr(c, 'loop_keys'):
        # loops named by ROLE (what they iterate over and what they are nested in), not by their position in the source
        try:
            ks = list(c.loop_keys(node, llist))
        except Unsupported as u:
            info0['unsupported'].append(str(u))
            return [], info0
        if sorted(ks) != list(range(len(llist))):
            info0['unsupported'].append('%s: its loops are not the ones the contract names (%s)' % (c.qual, ks))
            return [], info0
        lo = {id(l): k2 for l, k2 in zip(llist, ks)}
    info = dict(qual=c.qual, variant=vname, paths=0, feasible_paths=0, cut=0, unsupported=[],
                yields=len(ylist), loops=len(llist), assumed=set(), callees=set())

    def task(st):
        ip = Interp(st, REG, fcontract=c)
        ip.yield_ord, ip.loop_ord, ip.top_node = yo, lo, node
        try:
            bound = c.setup(ip, variant)
            a = A(bound)
            for f in c.axioms(ip, a):
                st.assume(f)
            for item in c.requires(ip, a):
                st.assume(item[1])
            if not st.feasible():
                return PathResult('vacuous')
            st.writes, st.memwrites = [], []
            st.ghost['allocated'] = []
            if hasattr(c, 'gen_ghost'):
                st.ghost['self_gen'] = dict(c.gen_ghost(ip, a))
            old = st.snapshot()
            ip.old = old
            ip.args = a
            env = Env(None, func.__globals__, func)
            env.vars.update(bound)
            ip.env = env
            try:
                ip.block(node.body)
                res = None
                kind = 'return'
            except _Return as r:
                res, kind = r.value, 'return'
            except PyRaise as pr:
                res, kind = pr.exc, 'raise'
            if hasattr(c, 'check_exit'):
                c.check_exit(ip, a, old, kind, res)
            else:
                check_post(ip, c, a, old, kind, res)
            if not st.feasible_without_goals():
                # the path turned out to be infeasible after its last branch (e.g. a loop invariant
                # assumed at a cut contradicts the state the loop was entered with) - judged on the path's own
                # assumptions, NOT on the goals assumed after earlier obligations
                st.obls = [o for o in st.obls if False]
                return PathResult('cut', 'infeasible at end')
            # vacuity guard: the assumptions of a completed path must be satisfiable, i.e. the
            # obligation `False` must NOT be provable here
            st.obls.append(Obligation('canary', [f for f in list(st.pc) + list(st.hyps) if f.get_id() not in st.goal_ids],
                                        BoolVal(False), ('canary',), st.cur_line))
            return PathResult(kind, res)
        except PathEnd as pe:
            return PathResult('cut', pe.reason)
        except Unsupported as u:
            return PathResult('unsupported', '%s (line %s)' % (u, st.cur_line))
        except (_Break, _Continue):
            return PathResult('unsupported', 'break/continue outside loop')

    done, pending = explore(task, start=start, split_at=split_at)
    info['pending'] = pending
    obls = {}
    for st, res in done:
        info['paths'] += 1
        info['assumed'] |= st.ghost.get('assumed', set())
        info['callees'] |= st.ghost.get('callee_contracts', set())
        if res.kind == 'unsupported':
            info['unsupported'].append(res.detail)
        elif res.kind == 'cut':
            info['cut'] += 1
        elif res.kind == 'vacuous':
            pass
        else:
            info['feasible_paths'] += 1
        for o in st.obls:
            key = (o.name, tuple(x.get_id() for x in o.pc), o.goal.get_id())
            if key not in obls:
                o.info = dict(o.info or {}, trace=' '.join(st.trace[-12:]))
                obls[key] = o
    return list(obls.values()), info


def check_post(ip, c, a, old, kind, res):
    """normal / exceptional postconditions and frame condition of a non-generator function"""
    st = ip.st
    specs = c.raises(ip, a, old)
    if kind == 'return':
        for s in specs:
            if s.iff and s.when is not None:
                st.oblige('must-raise:%s' % s.name, Not(s.when), tags=s.tags)
        for item in c.ensures(ip, a, old, res):
            st.oblige('ensures:%s' % item[0], item[1], tags=item[2] if len(item) > 2 else ())
    else:
        exc = res
        matched = None
        for s in specs:
            m = spec_matches(exc, s.cls)
            if m is True:
                ok = True
                if s.when is not None:
                    # several clauses may share a class: pick the first whose `when` can hold
                    if not st.feasible(s.when):
                        continue
                matched = s
                break
        if matched is None:
            st.oblige('no-unexpected-exception:%s%s' % (exc.cls.__name__ if exc.cls else 'unknown-' + exc.base.__name__,
                                                        ('[' + exc.tag + ']') if exc.tag else ''), BoolVal(False))
            return
        if matched.when is not None:
            st.oblige('raises-only-when:%s' % matched.name, matched.when, tags=matched.tags)
        for item in matched.ensures:
            if callable(item[1]):
                item = (item[0], item[1](ip)) + tuple(item[2:])
            st.oblige('raises-ensures:%s:%s' % (matched.name, item[0]), item[1], tags=item[2] if len(item) > 2 else matched.tags)
    check_frame(ip, c, a, old, matched.modifies if kind == 'raise' and matched is not None and matched.modifies is not None else None)


def check_frame(ip, c, a, old, mods=None):
    st = ip.st
    allowed_heap = set()
    allowed_mem = set()
    for loc in (mods if mods is not None else c.modifies(ip, a)):
        if loc[0] == 'heap':
            allowed_heap.add((loc[1].oid, loc[2]))
        elif loc[0] == 'mem':
            allowed_mem.add(loc[1].ident)
    bad = []
    for oid, field in st.writes:
        if oid in old.heap and (oid, field) not in allowed_heap and (oid, '*') not in allowed_heap:
            bad.append('%s.%s' % (st.heap[oid].cls.__name__, field))
    for ident in st.memwrites:
        if ident in old.mem and ident not in allowed_mem:
            bad.append('mem:' + ident)
    if bad:
        st.oblige('frame:writes-outside-modifies:%s' % ','.join(sorted(set(bad))), BoolVal(False))
    else:
        st.oblige('frame:writes-within-modifies', BoolVal(True))


# ----------------------------------------------------------------------------- discharge
def split_hyps(fs):
    """flatten conjunctions; separate quantifier-free formulas from (top-level) universal ones"""
    qf, qs = [], []
    stack = list(fs)
    while stack:
        f = stack.pop()
        if z3.is_and(f):
            stack.extend(f.children())
        elif z3.is_quantifier(f) and f.is_forall():
            qs.append(f)
        elif _has_quant(f):
            qs.append(f)
        else:
            qf.append(f)
    return qf, qs


def _int_consts(fs):
    seen, out, stack = set(), [], list(fs)
    while stack:
        t = stack.pop()
        if t.get_id() in seen:
            continue
        seen.add(t.get_id())
        if z3.is_const(t) and t.decl().kind() == z3.Z3_OP_UNINTERPRETED and z3.is_int(t):
            out.append(t)
        if z3.is_quantifier(t):
            stack.append(t.body())
        else:
            stack.extend(t.children())
    return out


def instantiate(q, K):
    """ground instances of a universal hypothesis at indices 0..K-1 (all its variables)"""
    if not (z3.is_quantifier(q) and q.is_forall()):
        return None
    nv = q.num_vars()
    if nv > 2:
        return None
    body = q.body()
    rng = range(K if nv == 1 else min(K, 12))
    out = []
    if nv == 1:
        for i in rng:
            out.append(z3.substitute_vars(body, IntVal(i)))
    else:
        for i in rng:
            for j in rng:
                out.append(z3.substitute_vars(body, IntVal(i), IntVal(j)))
    return out


def refute_bounded(o, timeout_ms, K=132, bound_lengths=True, want='model'):
    """search a counter-model with the quantified hypotheses replaced by their instances at
    0..K-1 (complete for index domains below K, partial beyond) and the negated goal skolemised
    by z3.  Returns model dict or None."""
    qf, qs = split_hyps(list(o.pc) + literal_facts())
    s = z3.Solver()
    s.set('timeout', timeout_ms)
    s.add(*qf)
    # soundness of the instantiation: every byte-string length is kept below K/4, so that every
    # index into a concatenation of up to four of them is among the instantiated ones
    L = K // 4 - 1
    if bound_lengths:
        for c in _int_consts(list(o.pc) + [o.goal]):
            if c.decl().name().endswith('.len'):
                s.add(c <= L)
    for q in qs:
        inst = instantiate(q, K)
        if inst is None:
            continue
        s.add(*inst)
    ng = Not(o.goal)
    s.add(ng)
    s.set('smt.mbqi', False)
    r = guarded_check(s, timeout_ms)
    if want == 'verdict':
        return r
    if r == z3.sat:
        return model_dict(s.model())
    return None


import threading


def guarded_check(s, timeout_ms):
    """z3 sometimes ignores its own timeout on quantified array queries: a watchdog interrupts the
    context a little after the deadline; an interrupted query counts as unknown"""
    done = threading.Event()
    ctx = s.ctx              # the long-lived main context: the thread must not keep `s` alive (z3
    wait_s = timeout_ms / 1000.0 + 6.0      # objects must not be released from another thread)

    def watchdog(done=done, ctx=ctx, wait_s=wait_s):
        if not done.wait(wait_s):
            try:
                ctx.interrupt()
            except Exception:
                pass
            # z3 5.1.0 occasionally neither honours its timeout nor the interrupt (seen on one tile obligation of a
            # harmlessly edited Parser.feed, only under full load, not reproducible from the dumped query): a worker
            # process that is stuck gives up its job instead of burning the whole job budget; check.py runs the job again
            # with another solver seed.  Only in worker processes (PYVC_WORKER), never in the main process.
            if os.environ.get('PYVC_WORKER') and not done.wait(15.0):
                os._exit(75)
    t = threading.Thread(target=watchdog, daemon=True)
    t.start()
    try:
        return s.check()
    except z3.Z3Exception:
        return z3.unknown
    finally:
        done.set()


_DUMPN = [0]
_SLOW = {'n': 0}
_SECOND = {'spent': 0.0}
SECOND_BUDGET_S = float(os.environ.get('PYVC_SECOND_BUDGET', '400'))
SLOW_BUDGET = int(os.environ.get('PYVC_SLOW_BUDGET', '6'))


def discharge(o, timeout_ms=QUICK_TIMEOUT_MS, second_opinion=False):
    t0 = time.time()
    if os.environ.get('PYVC_TRACE'):      # debugging aid: which obligation is a worker on?
        sys.stderr.write('[%d] %s line %s\n' % (os.getpid(), o.name, o.lineno))
        sys.stderr.flush()
    g = o.goal
    sg = simplify(g)
    if is_true(sg):
        o.verdict, o.backend, o.ms = 'proved', 'simplifier', 0.0
        return o
    s = z3.Solver()
    if os.environ.get('PYVC_ATTEMPT', '0') != '0':
        s.set('smt.random_seed', int(os.environ['PYVC_ATTEMPT']))       # a re-run after a stuck / crashed worker takes another route
    exhausted = _SLOW['n'] > SLOW_BUDGET
    s.set('timeout', 400 if exhausted else min(timeout_ms, 2500))
    if os.environ.get('PYVC_MBQI', '0') != '1':
        # stage 1 proves by E-matching only: model-based quantifier instantiation is what makes z3
        # run away (and ignore its timeout) on satisfiable queries; counter-models come from the
        # bounded-instantiation stage instead
        s.set('smt.mbqi', False)
    if 'canary' in o.tags:
        # vacuity guard: are the assumptions of this path contradictory?  Decided on the quantifier-
        # free part plus ground instances of the quantified hypotheses (sound for 'contradictory';
        # never runs model-based instantiation, which is where z3 can run away on satisfiable input)
        r = refute_bounded(o, 3000, K=24, bound_lengths=False, want='verdict')
        o.verdict = 'proved' if r == z3.unsat else 'refuted'
        o.model, o.backend = {}, 'z3-%s (ground instances)' % z3.get_version_string()
        o.ms = (time.time() - t0) * 1000
        return o
    s.add(*o.pc)
    s.add(*literal_facts())
    s.add(Not(g))
    first_timeout = 400 if exhausted else min(timeout_ms, 2500)
    if os.environ.get('PYVC_DUMP_SMT') and os.environ.get('PYVC_DUMP_SMT_NAME', '') in o.name:      # debugging aid
        _DUMPN[0] += 1
        with open(os.path.join(os.environ['PYVC_DUMP_SMT'], '%d-%d.smt2' % (os.getpid(), _DUMPN[0])), 'w') as f_:
            f_.write('; %s line %s\n(set-logic ALL)\n%s' % (o.name, o.lineno, s.to_smt2()))
    r = guarded_check(s, first_timeout)
    o.backend = 'z3-%s' % z3.get_version_string()
    if r == z3.unknown:
        _SLOW['n'] += 1
        if _SLOW['n'] > SLOW_BUDGET:
            # many hard queries in one function (typically a changed function that no longer fits
            # its invariants): keep the run bounded - one short refutation attempt, then undecided
            m = refute_bounded(o, 1500) if _SLOW['n'] <= 4 * SLOW_BUDGET else None
            if m is not None:
                o.verdict, o.model = 'refuted', m
                o.backend += ' (counter-model under bounded instantiation of quantified hypotheses)'
            else:
                o.verdict = 'unknown'
                o.info = dict(o.info or {}, reason='slow-query budget of this function exhausted')
            o.ms = (time.time() - t0) * 1000
            return o
        # a counter-model once the quantified hypotheses are instantiated?  (fast, tried first)
        m = refute_bounded(o, min(timeout_ms, 8000))
        if m is not None:
            o.verdict, o.model = 'refuted', m
            o.backend += ' (counter-model under bounded instantiation of quantified hypotheses)'
            o.ms = (time.time() - t0) * 1000
            return o
        s.set('timeout', timeout_ms)
        s.set('smt.mbqi', True)
        r = guarded_check(s, timeout_ms)
    if r == z3.unsat:
        o.verdict = 'proved'
    elif r == z3.sat:
        o.verdict = 'refuted'
        try:
            o.model = model_dict(s.model())
        except Exception:
            o.model = {}
    else:
        o.verdict = 'unknown'
        o.info = dict(o.info or {}, reason=s.reason_unknown())
        smt2 = '(set-logic ALL)\n' + s.to_smt2()
        v = run_cvc5(smt2, timeout_ms)
        if v == 'proved':
            o.verdict, o.backend = v, 'cvc5-1.0.3 --enum-inst'
        else:
            v = run_z3_old(smt2, timeout_ms)
            if v == 'proved':
                o.verdict, o.backend = v, 'z3-4.8.12'
    if second_opinion and o.verdict == 'proved' and not o.backend.startswith('cvc5') and _SECOND['spent'] < SECOND_BUDGET_S:
        # thorough tier: cvc5 re-decides what z3 proved (10 s each, within a per-worker time budget so that the tier
        # terminates; the evidence says how many obligations got a second opinion)
        t1 = time.time()
        smt2 = '(set-logic ALL)\n' + s.to_smt2()
        v = run_cvc5(smt2, 10000)
        _SECOND['spent'] += time.time() - t1
        o.info = dict(o.info or {}, cvc5=v)
    o.ms = (time.time() - t0) * 1000
    return o


def model_dict(m):
    out = {}
    for d in m.decls():
        try:
            v = m[d]
            s = str(v)
            if len(s) < 400:
                out[d.name()] = s
        except Exception:
            pass
    return out


def _run_solver(cmd, smt2, timeout_ms):
    with tempfile.NamedTemporaryFile('w', suffix='.smt2', delete=False, dir=os.environ.get('PYVC_TMP', None)) as f:
        f.write(smt2)
        path = f.name
    try:
        p = subprocess.run(cmd + [path], capture_output=True, text=True, timeout=timeout_ms / 1000.0 + 5)
        out = p.stdout.strip().splitlines()
        first = out[0].strip() if out else ''
        return {'unsat': 'proved', 'sat': 'refuted'}.get(first, 'unknown')
    except Exception:
        return 'unknown'
    finally:
        try:
            os.unlink(path)
        except OSError:
            pass


def run_cvc5(smt2, timeout_ms):
    return _run_solver(['/usr/bin/cvc5', '--enum-inst', '--tlimit=%d' % timeout_ms], smt2, timeout_ms)


def run_z3_old(smt2, timeout_ms):
    return _run_solver(['/usr/bin/z3', '-T:%d' % max(1, timeout_ms // 1000)], smt2, timeout_ms)


def verify_and_discharge(qual, variant_index=None, timeout_ms=QUICK_TIMEOUT_MS, second_opinion=False, start=None, split_at=None):
    """worker entry point: returns plain data (no z3 objects)"""
    c = REG.contracts[qual]
    t0 = time.time()
    _SLOW['n'] = 0
    out = dict(qual=qual, obligations=[], infos=[], error=None)
    try:
        variants = c.variants()
        for vi, v in enumerate(variants):
            if variant_index is not None and vi != variant_index:
                continue
            vname = '' if v is None else (v if isinstance(v, str) else str(v))
            obls, info = verify_function(c, v, vname, start=start, split_at=split_at)
            out.setdefault('pending', []).extend((vi, p) for p in info.pop('pending'))
            info['assumed'] = sorted(info['assumed'])
            info['callees'] = sorted(info['callees'])
            out['infos'].append(info)
            for o in obls:
                discharge(o, timeout_ms, second_opinion)
                out['obligations'].append(dict(
                    name='%s/%s%s' % (short(qual), o.name, ('#' + vname) if vname else ''),
                    verdict=o.verdict, ms=round(o.ms, 2), backend=o.backend, tags=list(o.tags),
                    line=o.lineno, model=o.model, info=o.info))
    except Exception as e:       # checker fault, never a verdict
        out['error'] = '%s: %s\n%s' % (type(e).__name__, e, traceback.format_exc())
    out['wall_s'] = round(time.time() - t0, 3)
    out['source'] = source.extracted_text(source.resolve(qual)) if out['error'] is None or True else None
    return out
