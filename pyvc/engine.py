"""pyvc executor: symbolic execution of real Python function bodies (ast) against sidecar contracts.

Style: a plain recursive interpreter that runs ONE path per run; every symbolic branch consults a
decision oracle (`State.decide` / `State.choose`), and the driver re-runs the function from the
start for every unexplored decision prefix (DFS).  Exceptions of the analysed code are Python
exceptions of the interpreter (PyRaise), so try/except/finally, generators' close edges and
implicit exceptions (index out of range, struct range, None attribute ...) are ordinary paths.
Calls into the package use the callee's CONTRACT (or inline a function declared transparent);
loops are cut at supplied invariants; nothing is unrolled.
"""
import ast
import os
import builtins
import functools
import inspect
import itertools
import time

import z3
from z3 import (And, Or, Not, If, Implies, IntVal, BoolVal, RealVal, is_expr, is_int, is_bool,
                is_real, simplify, is_true, is_false, Sum, ForAll)

from . import source
from .sval import (SBytes, SStr, MRef, ORef, Obj, SList, SOpt, Rec, Opaque, ExcVal, ExtObj, FRESH,
                   fresh, to_int, to_real, to_bool, isnum, isreal, iv, cat, bslice, strided, beq,
                   ite, BYTES, BYTEARRAY, MEMVIEW, I, B, R, Str, literal_facts)
from . import sval


_SELF_ATTRS = {}


def _assigned_on_self(cls, name):
    """does any method of cls (or of a base class defined in the package) store self.<name>?"""
    out = False
    for k in getattr(cls, '__mro__', (cls,)):
        if k is object:
            continue
        if k not in _SELF_ATTRS:
            names = set()
            try:
                import textwrap
                tree = ast.parse(textwrap.dedent(inspect.getsource(k)))
                for n in ast.walk(tree):
                    if isinstance(n, ast.Attribute) and isinstance(n.ctx, ast.Store) and isinstance(n.value, ast.Name) and n.value.id in ('self', 's'):
                        names.add(n.attr)
            except (OSError, TypeError, SyntaxError):
                pass
            _SELF_ATTRS[k] = names
        out = out or name in _SELF_ATTRS[k]
    return out


class _Stale:
    def __repr__(self):
        return 'STALE'


STALE = _Stale()      # value of a loop-carried local that the loop contract declares irrelevant (see loops._cut)


class Unsupported(Exception):
    """construct outside the supported subset: the function is UNDECIDED, never silently skipped"""


class PathEnd(Exception):
    """the current path ends here (infeasible, or cut at a loop invariant)"""
    def __init__(self, reason=''):
        self.reason = reason


class PyRaise(Exception):
    """the analysed code raises"""
    def __init__(self, exc):
        self.exc = exc


class _Return(Exception):
    def __init__(self, value):
        self.value = value


class _Break(Exception):
    pass


class _Continue(Exception):
    pass


class Env:
    def __init__(self, parent=None, globs=None, func=None):
        self.vars = {}
        self.parent = parent
        self.globs = globs if globs is not None else (parent.globs if parent else {})
        self.func = func

    def lookup(self, name):
        e = self
        while e is not None:
            if name in e.vars:
                return e.vars[name]
            e = e.parent
        if name in self.globs:
            return self.globs[name]
        if hasattr(builtins, name):
            return getattr(builtins, name)
        raise Unsupported('unbound name %s' % name)


class Closure:
    def __init__(self, node, env, ms, qual):
        self.node, self.env, self.ms, self.qual = node, env, ms, qual


class BoundMethod:
    def __init__(self, recv, func, name=None):
        self.recv, self.func, self.name = recv, func, name or getattr(func, '__name__', '?')


class SuperProxy:
    def __init__(self, after, recv):
        self.after, self.recv = after, recv


class GenObj:
    """a generator object created by calling a generator function that has a producer contract"""
    def __init__(self, contract, args, key):
        self.contract, self.args, self.key = contract, args, key
        self.done = False


class LazyGenExp:
    def __init__(self, node, env):
        self.node, self.env = node, env


class Obligation:
    __slots__ = ('name', 'pc', 'goal', 'tags', 'lineno', 'verdict', 'ms', 'model', 'backend', 'info')

    def __init__(self, name, pc, goal, tags=(), lineno=None, info=None):
        self.name, self.pc, self.goal, self.tags, self.lineno = name, pc, goal, tuple(tags), lineno
        self.verdict = None
        self.ms = 0.0
        self.model = None
        self.backend = None
        self.info = info


class State:
    def __init__(self, oracle):
        self.pc = []          # quantifier-free path condition + assumptions (feasibility uses this)
        self.hyps = []        # quantified hypotheses (used when discharging obligations)
        self.heap = {}
        self.mem = {}
        self.ghost = {}
        self.obls = []
        self.oracle = oracle  # list of [value, n_alternatives]
        self.oidx = 0
        self.new_alts = []    # decision prefixes discovered on this run
        self.writes = []      # (oid, field) heap writes, in order
        self.memwrites = []
        self.ids = itertools.count()
        self.solver = z3.Solver()
        self.solver.set('timeout', 3000)
        self.nadded = 0
        self.trace = []       # human-readable decision log of the path
        self.cur_line = None
        self.exc_stack = []
        self.frame_marks = []
        self.goal_ids = set()

    # ---- solver-backed feasibility (quantifier-free part only; unknown counts as feasible)
    def _sync(self):
        while self.nadded < len(self.pc):
            self.solver.add(self.pc[self.nadded])
            self.nadded += 1

    def _check(self):
        """solver.check() with a watchdog (z3 occasionally ignores its timeout)"""
        import threading
        done = threading.Event()
        ctx = self.solver.ctx      # only the long-lived context is shared with the watchdog thread

        def watchdog(done=done, ctx=ctx):
            if not done.wait(12.0):
                try:
                    ctx.interrupt()
                except Exception:
                    pass
                if os.environ.get('PYVC_WORKER') and not done.wait(15.0):
                    os._exit(75)        # stuck worker: give the job back (see driver.guarded_check)
        threading.Thread(target=watchdog, daemon=True).start()
        try:
            return self.solver.check()
        except z3.Z3Exception:
            return z3.unknown
        finally:
            done.set()

    def feasible(self, extra=None):
        self._sync()
        if extra is None:
            return self._check() != z3.unsat
        self.solver.push()
        self.solver.add(extra)
        r = self._check()
        self.solver.pop()
        return r != z3.unsat

    def feasible_without_goals(self):
        """is the path feasible on its OWN assumptions - leaving out the goals of earlier obligations, which are assumed
        only to keep later obligations independent?  A path on which an obligation is certainly false must not look
        infeasible because of that very obligation (it is the path the refutation lives on)."""
        fs = [f for f in self.pc if f.get_id() not in self.goal_ids]
        if len(fs) == len(self.pc):
            return self.feasible()
        saved, nadded = self.solver, self.nadded
        try:
            self.solver = z3.Solver()
            self.solver.set('timeout', 3000)
            self.solver.add(*fs)
            return self._check() != z3.unsat
        finally:
            self.solver, self.nadded = saved, nadded

    def must(self, cond):
        """is cond implied by the path condition? (used for encoding side conditions)"""
        c = simplify(to_bool(cond)) if not isinstance(cond, bool) else BoolVal(cond)
        if is_true(c):
            return True
        if is_false(c):
            return False
        self._sync()
        self.solver.push()
        self.solver.add(Not(c))
        r = self._check()
        self.solver.pop()
        return r == z3.unsat

    def assume(self, *fs):
        for f in fs:
            if isinstance(f, bool):
                if not f:
                    raise PathEnd('assume False')
                continue
            if _has_quant(f):
                self.hyps.append(f)
            else:
                f = simplify(f)
                if is_false(f):
                    raise PathEnd('assume false')
                if not is_true(f):
                    self.pc.append(f)

    def decide(self, cond, label=''):
        """branch on a symbolic condition following the oracle"""
        if isinstance(cond, bool):
            return cond
        c = simplify(cond)
        if is_true(c):
            return True
        if is_false(c):
            return False
        if self.oidx < len(self.oracle):
            d = self.oracle[self.oidx][0]
        else:
            t = self.feasible(c)
            f = self.feasible(Not(c))
            if t and f:
                d = True
                self.new_alts.append([list(x) for x in self.oracle] + [[False, 2]])
                self.oracle.append([True, 2])
            elif t:
                d = True
                self.oracle.append([True, 1])
            elif f:
                d = False
                self.oracle.append([False, 1])
            else:
                raise PathEnd('infeasible')
        self.oidx += 1
        self.pc.append(c if d else simplify(Not(c)))
        self.trace.append('%s%s@%s' % ('' if d else '!', label or 'c', self.cur_line))
        return d

    def choose(self, options, label=''):
        """non-deterministic choice among labelled alternatives"""
        options = list(options)
        if len(options) == 1:
            return options[0]
        if self.oidx < len(self.oracle):
            k = self.oracle[self.oidx][0]
        else:
            k = 0
            for j in range(1, len(options)):
                self.new_alts.append([list(x) for x in self.oracle] + [[j, len(options)]])
            self.oracle.append([0, len(options)])
        self.oidx += 1
        self.trace.append('%s=%s@%s' % (label or 'ch', options[k], self.cur_line))
        return options[k]

    # ---- obligations
    def oblige(self, name, goal, tags=(), info=None):
        if isinstance(goal, bool):
            goal = BoolVal(goal)
        self.obls.append(Obligation(name, list(self.pc) + list(self.hyps), goal, tags, self.cur_line, info))
        # continue the path as if it held (so later failures are reported independently); the
        # assumed goals are remembered so that the vacuity canary can leave them out
        n1, n2 = len(self.pc), len(self.hyps)
        try:
            self.assume(goal)
        except PathEnd:
            # certainly false here: it is recorded (and will be refuted); the path goes on WITHOUT assuming it, so that the
            # obligations that follow - possibly serving other properties - are still generated for this path
            return
        for f in self.pc[n1:] + self.hyps[n2:]:
            self.goal_ids.add(f.get_id())

    # ---- memory helpers
    def alloc(self, content, prefix='m'):
        ident = '%s%d' % (prefix, next(self.ids))
        self.mem[ident] = content
        return MRef(ident)

    def new_obj(self, cls, **fields):
        oid = 'o%d' % next(self.ids)
        self.heap[oid] = Obj(cls, fields)
        return ORef(oid)

    def obj(self, ref):
        return self.heap[ref.oid]

    def get(self, ref, field):
        return self.heap[ref.oid].f[field]

    def set(self, ref, field, value):
        o = self.heap[ref.oid]
        if o.frozen:
            raise Unsupported('write to %s.%s after the object escaped into an abstract list' % (o.cls.__name__, field))
        o.f[field] = value
        self.writes.append((ref.oid, field))
        hook = self.ghost.get('write_hook')
        if hook is not None:
            hook(self, ref, field)

    def snapshot(self):
        return Snapshot(self)

    def fresh_id(self, p='x'):
        return '%s%d' % (p, next(self.ids))


class Snapshot:
    """immutable copy of heap / mem / ghost at some instant (old() in contracts)"""
    def __init__(self, st):
        self.heap = {k: dict(o.f) for k, o in st.heap.items()}
        self.mem = dict(st.mem)
        self.ghost = {k: (list(v) if isinstance(v, list) else (dict(v) if isinstance(v, dict) else v)) for k, v in st.ghost.items()}

    def get(self, ref, field):
        return self.heap.get(ref.oid, {}).get(field)

    def bytes(self, ref):
        return self.mem[ref.ident]


def _has_quant(f):
    seen = set()
    stack = [f]
    while stack:
        t = stack.pop()
        if t.get_id() in seen:
            continue
        seen.add(t.get_id())
        if z3.is_quantifier(t):
            return True
        stack.extend(t.children())
    return False


BUILTIN_EXC = (BaseException,)


def classname(c):
    return getattr(c, '__name__', str(c))


# =============================================================================== interpreter
class Interp:
    def __init__(self, st, registry, fcontract=None):
        self.st = st
        self.reg = registry
        self.fcontract = fcontract      # contract of the function whose body is being verified
        self.depth = 0
        self.yield_ord = None
        self.loop_ord = None
        self.top_node = None
        self.inlining = 0
        self.reading = 'body'

    # ------------------------------------------------------------------ conversion of constants
    def conv(self, v):
        if isinstance(v, (bool, int)) or v is None:
            return v
        if isinstance(v, float):
            return RealVal(v)
        if isinstance(v, bytes):
            b = SBytes.lit(list(v), BYTES)
            if len(v) > 32:
                b.meta = dict(const=v)
            return b
        if isinstance(v, str):
            return SStr.lit(v)
        if isinstance(v, tuple):
            return tuple(self.conv(x) for x in v)
        return v       # modules, classes, functions, sets/dicts of constants, Ellipsis ...

    # ------------------------------------------------------------------ truthiness / coercions
    def bytes_of(self, v):
        st = self.st
        if isinstance(v, MRef):
            c = st.mem[v.ident]
            if isinstance(c, SBytes):
                return c
            raise Unsupported('bytes_of list')
        if isinstance(v, SBytes):
            if v.kind == MEMVIEW and v.view_of is not None:
                return v
            return v
        if isinstance(v, bytes):
            return SBytes.lit(list(v))
        raise Unsupported('bytes_of %r' % (v,))

    def is_byteslike(self, v):
        return isinstance(v, SBytes) or (isinstance(v, MRef) and isinstance(self.st.mem[v.ident], SBytes))

    def truth(self, v):
        st = self.st
        if isinstance(v, bool):
            return v
        if v is None:
            return False
        if isinstance(v, int):
            return v != 0
        if is_expr(v):
            if is_bool(v):
                return v
            if is_int(v):
                return v != 0
            if is_real(v):
                return v != 0
            if v.sort() == Str:
                return sval.strlen(v) > 0
        if isinstance(v, SStr):
            if v.text is not None:
                return len(v.text) > 0
            return sval.strlen(v.t) > 0
        if isinstance(v, SBytes):
            return v.n > 0
        if isinstance(v, MRef):
            c = st.mem[v.ident]
            return c.n > 0
        if isinstance(v, (tuple, list, set, dict)):
            return len(v) > 0
        if isinstance(v, SList):
            return v.n > 0
        if isinstance(v, SOpt):
            t = self.truth(v.val)
            return And(Not(v.is_none), to_bool(t))
        if isinstance(v, ORef):
            cls = st.obj(v).cls
            if '__len__' in dir(cls) or '__bool__' in dir(cls):
                ln = self.call(self.getattr(v, '__len__'), [], {})
                return iv(ln) > 0
            return True
        if isinstance(v, (ExtObj, ExcVal, Closure, BoundMethod, GenObj, Opaque)):
            if isinstance(v, Opaque):
                return fresh('truth_' + v.tag, B)
            return True
        if isinstance(v, SDictV):
            return v.nonempty
        if callable(v) or inspect.ismodule(v) or inspect.isclass(v):
            return True
        raise Unsupported('truth of %r' % (v,))

    def cond(self, v, label=''):
        t = self.truth(v)
        return self.st.decide(t if isinstance(t, bool) else to_bool(t), label)

    # ------------------------------------------------------------------ expressions
    def ev(self, e):
        m = getattr(self, 'ev_' + type(e).__name__, None)
        if m is None:
            raise Unsupported('expression %s' % type(e).__name__)
        if hasattr(e, 'lineno'):
            self.st.cur_line = e.lineno
        return m(e)

    def ev_Constant(self, e):
        return self.conv(e.value)

    def ev_Name(self, e):
        try:
            v = self.env.lookup(e.id)
            if v is STALE:
                # a local whose value at the head of a loop the loop contract does not describe ("re-assigned before it is
                # read in every iteration"): reading it is outside what the invariant can justify - undecided, never a guess
                raise Unsupported('local %r is read although the loop contract leaves its value at the loop head undescribed' % e.id)
            return self.conv(v)
        except Unsupported:
            # a local of the function under verification that no statement on this path has bound: CPython raises
            # UnboundLocalError here.  Only claimed for names that are never assigned inside a loop of the function
            # (a loop cut leaves such names unbound in THIS interpreter although an iteration may have bound them).
            top = getattr(self, 'top_node', None)
            if top is not None and not self.inlining:
                from . import source
                if e.id in source.assigned_names(top.body):
                    loops = [n for n in ast.walk(top) if isinstance(n, (ast.For, ast.While))]
                    in_loop = set()
                    for l in loops:
                        in_loop |= source.assigned_names(l.body) | source.assigned_names([l])
                    if e.id not in in_loop:
                        raise PyRaise(ExcVal(UnboundLocalError, tag='unbound-local:' + e.id))
                elif self.env.parent is None:
                    # assigned nowhere in the function, not a global, not a builtin: CPython raises NameError
                    raise PyRaise(ExcVal(NameError, tag='undefined-name:' + e.id))
            raise

    def ev_Tuple(self, e):
        return tuple(self.ev(x) for x in e.elts)

    def ev_List(self, e):
        items = [self.ev(x) for x in e.elts]
        return self.st.alloc(SList.of(items) if items else SList.empty(), 'l')

    def ev_Set(self, e):
        return set(self.ev(x) for x in e.elts)

    def ev_JoinedStr(self, e):
        return SStr(fresh('fstr', Str))

    def ev_IfExp(self, e):
        if self.cond(self.ev(e.test), 'ifexp'):
            return self.ev(e.body)
        return self.ev(e.orelse)

    def ev_BoolOp(self, e):
        isand = isinstance(e.op, ast.And)
        v = None
        for k, x in enumerate(e.values):
            v = self.ev(x)
            if k == len(e.values) - 1:
                return v
            t = self.cond(v, 'and' if isand else 'or')
            if isand and not t:
                return v
            if not isand and t:
                return v
        return v

    def ev_UnaryOp(self, e):
        v = self.ev(e.operand)
        if isinstance(e.op, ast.Not):
            t = self.truth(v)
            return (not t) if isinstance(t, bool) else simplify(Not(to_bool(t)))
        if isinstance(e.op, ast.USub):
            if isinstance(v, (int, float)) and not isinstance(v, bool):
                return -v
            return -(to_real(v) if isreal(v) else to_int(v))
        if isinstance(e.op, ast.UAdd):
            return v
        raise Unsupported('unary %s' % type(e.op).__name__)

    def ev_Compare(self, e):
        left = self.ev(e.left)
        res = None
        for op, right_e in zip(e.ops, e.comparators):
            right = self.ev(right_e)
            r = self.compare(type(op).__name__, left, right)
            if res is None:
                res = r
            else:
                res = r if res is True else (False if res is False else (And(to_bool(res), to_bool(r)) if r is not False else False))
            if res is False:
                return False
            left = right
        return res if isinstance(res, bool) else simplify(res)

    def compare(self, op, a, b):
        st = self.st
        if op in ('Is', 'IsNot'):
            r = self.identical(a, b)
            if op == 'IsNot':
                r = (not r) if isinstance(r, bool) else Not(r)
            return r
        if op in ('In', 'NotIn'):
            r = self.contains(b, a)
            if op == 'NotIn':
                r = (not r) if isinstance(r, bool) else Not(to_bool(r))
            return r
        if op in ('Eq', 'NotEq'):
            r = self.equal(a, b)
            if op == 'NotEq':
                r = (not r) if isinstance(r, bool) else Not(to_bool(r))
            return r
        if isinstance(a, SOpt) or isinstance(b, SOpt):
            a, b = self.unopt(a, 'compare'), self.unopt(b, 'compare')
        if a is None or b is None:
            raise PyRaise(ExcVal(TypeError, tag='order-compare-none'))
        if not (isnum(a) and isnum(b)):
            raise Unsupported('ordering of %r, %r' % (a, b))
        if all(isinstance(x, (int, float)) for x in (a, b)):
            return {'Lt': a < b, 'LtE': a <= b, 'Gt': a > b, 'GtE': a >= b}[op]
        if isreal(a) or isreal(b):
            a, b = to_real(a), to_real(b)
        else:
            a, b = to_int(a), to_int(b)
        return {'Lt': a < b, 'LtE': a <= b, 'Gt': a > b, 'GtE': a >= b}[op]

    def unopt(self, v, why=''):
        """use an optional value where a non-None is required: the None case raises TypeError"""
        if isinstance(v, SOpt):
            if self.st.decide(v.is_none, 'is_none:' + why):
                raise PyRaise(ExcVal(TypeError, tag='none-operand:' + why))
            return v.val
        return v

    def identical(self, a, b):
        if isinstance(a, SOpt) and b is None:
            return a.is_none
        if isinstance(b, SOpt) and a is None:
            return b.is_none
        if a is None or b is None:
            if a is None and b is None:
                return True
            other = b if a is None else a
            if isinstance(other, Opaque):
                return False
            return False
        if isinstance(a, ORef) and isinstance(b, ORef):
            return a.oid == b.oid
        if isinstance(a, MRef) and isinstance(b, MRef):
            return a.ident == b.ident
        if a is Ellipsis or b is Ellipsis:
            return a is b
        if isinstance(a, bool) and isinstance(b, bool):
            return a == b
        if inspect.isclass(a) or inspect.isclass(b):
            return a is b
        raise Unsupported('is-comparison of %r and %r' % (a, b))

    def equal(self, a, b):
        if isinstance(a, SOpt) or isinstance(b, SOpt):
            if isinstance(a, SOpt) and isinstance(b, SOpt):
                raise Unsupported('== of two optionals')
            o, x = (a, b) if isinstance(a, SOpt) else (b, a)
            if x is None:
                return o.is_none
            inner = self.equal(o.val, x)
            return And(Not(o.is_none), to_bool(inner))
        if a is None or b is None:
            return a is None and b is None
        if isnum(a) and isnum(b):
            if all(isinstance(x, (int, float, bool)) for x in (a, b)):
                return a == b
            if isreal(a) or isreal(b):
                return to_real(a) == to_real(b)
            return to_int(a) == to_int(b)
        if isinstance(a, SStr) and isinstance(b, SStr):
            if a.text is not None and b.text is not None:
                return a.text == b.text
            return a.t == b.t
        if self.is_byteslike(a) and self.is_byteslike(b):
            return beq(self.bytes_of(a), self.bytes_of(b))
        if isinstance(a, SStr) != isinstance(b, SStr) and (self.is_byteslike(a) or self.is_byteslike(b)):
            return False
        if isinstance(a, tuple) and isinstance(b, tuple):
            if len(a) != len(b):
                return False
            rs = [self.equal(x, y) for x, y in zip(a, b)]
            if any(r is False for r in rs):
                return False
            rs = [r for r in rs if r is not True]
            return And(*[to_bool(r) for r in rs]) if rs else True
        if isinstance(a, ORef) and isinstance(b, ORef):
            return a.oid == b.oid
        if inspect.isclass(a) and inspect.isclass(b):
            return a is b
        raise Unsupported('== of %r and %r' % (a, b))

    def contains(self, container, x):
        if isinstance(container, (set, frozenset, tuple, list)):
            items = [self.conv(i) for i in container]
            if all(isinstance(i, int) for i in items) and isnum(x):
                if isinstance(x, int):
                    return x in items
                return _int_set_membership(to_int(x), items)
            rs = [self.equal(x, i) for i in items]
            if any(r is True for r in rs):
                return True
            rs = [to_bool(r) for r in rs if r is not False]
            return Or(*rs) if rs else False
        if isinstance(container, SDictV):
            return container.has(x)
        if isinstance(container, SOpt):
            container = self.unopt(container, 'in')
            return self.contains(container, x)
        raise Unsupported('membership in %r' % (container,))

    def ev_BinOp(self, e):
        a, b = self.ev(e.left), self.ev(e.right)
        return self.binop(type(e.op).__name__, a, b)

    def binop(self, op, a, b):
        st = self.st
        if isinstance(a, SOpt) or isinstance(b, SOpt):
            a, b = self.unopt(a, op), self.unopt(b, op)
        # concrete
        if all(isinstance(x, (int, float)) for x in (a, b)):
            import operator as O
            fn = {'Add': O.add, 'Sub': O.sub, 'Mult': O.mul, 'LShift': O.lshift, 'RShift': O.rshift,
                  'BitOr': O.or_, 'BitAnd': O.and_, 'BitXor': O.xor, 'FloorDiv': O.floordiv,
                  'Mod': O.mod, 'Pow': O.pow, 'Div': O.truediv}[op]
            try:
                r = fn(a, b)
            except ZeroDivisionError:
                raise PyRaise(ExcVal(ZeroDivisionError))
            return RealVal(r) if isinstance(r, float) else r
        if op == 'Add' and (self.is_byteslike(a) or self.is_byteslike(b)):
            if not (self.is_byteslike(a) and self.is_byteslike(b)):
                raise PyRaise(ExcVal(TypeError, tag='bytes+nonbytes'))
            A, Bv = self.bytes_of(a), self.bytes_of(b)
            kind = BYTEARRAY if A.kind == BYTEARRAY else (BYTES if A.kind == BYTES else Bv.kind)
            r = cat(BYTES if kind != BYTEARRAY else BYTEARRAY, [A, Bv])
            r.meta = dict(concat=(A, Bv))
            return st.alloc(r, 'ba') if r.kind == BYTEARRAY else r
        if op == 'Add' and isinstance(a, SStr) and isinstance(b, SStr):
            return SStr(fresh('strcat', Str))
        if op == 'Mod' and isinstance(a, SStr):
            return SStr(fresh('strfmt', Str))
        if a is None or b is None or not (isnum(a) and isnum(b)):
            if isinstance(a, Opaque) or isinstance(b, Opaque) or a is None or b is None:
                raise PyRaise(ExcVal(TypeError, tag='binop-' + op))
            raise Unsupported('binop %s on %r, %r' % (op, a, b))
        real = isreal(a) or isreal(b)
        if real or op == 'Div':
            A, Bv = to_real(a), to_real(b)
            if op == 'Add':
                return A + Bv
            if op == 'Sub':
                return A - Bv
            if op == 'Mult':
                return A * Bv
            if op == 'Div':
                if st.decide(Bv == 0, 'div0'):
                    raise PyRaise(ExcVal(ZeroDivisionError))
                return A / Bv
            if op == 'Pow' and not isreal(b) and ((isinstance(a, float) and a == 2.0) or
                                                  (is_expr(a) and z3.is_rational_value(a) and a.as_fraction() == 2)):
                # IEEE double (the one place where "floats as reals" would hide a difference from int arithmetic):
                # 2.0 ** n is exact for 0 <= n <= 1023 and raises OverflowError from n = 1024 on
                n = to_int(b)
                if st.decide(n >= 1024, 'float-pow-overflow'):
                    raise PyRaise(ExcVal(OverflowError, tag='2.0**n with n >= 1024'))
                if not st.must(n >= 0):
                    raise Unsupported('2.0 ** negative exponent')
                return z3.ToReal(pow2(n, st))
            raise Unsupported('real binop %s' % op)
        A, Bv = to_int(a), to_int(b)
        if op == 'Add':
            return A + Bv
        if op == 'Sub':
            return A - Bv
        if op == 'Mult':
            return A * Bv
        if op == 'LShift':
            if isinstance(b, int) and b >= 0:
                return A * (1 << b)
            raise Unsupported('symbolic shift amount')
        if op == 'RShift':
            if isinstance(b, int) and b >= 0:
                return A / (1 << b)        # z3 int div with positive divisor = floor
            raise Unsupported('symbolic shift amount')
        if op == 'BitAnd':
            for x, y in ((a, Bv), (b, A)):
                if isinstance(x, int) and x >= 0 and (x & (x + 1)) == 0:
                    return y % (x + 1)     # mask 2^k-1
            return self.bitop(A, Bv, lambda x, y: x & y)
        if op == 'BitOr':
            # disjoint bit ranges (hi part a multiple of 2^k, lo part below 2^k): a | b == a + b
            for hi, lo in ((A, Bv), (Bv, A)):
                for k in (1, 2, 3, 4, 5, 6, 7, 8, 16):
                    if st.must(And(lo >= 0, lo < 2 ** k)):
                        if st.must(And(hi >= 0, hi % (2 ** k) == 0)):
                            return hi + lo
                        break
            return self.bitop(A, Bv, lambda x, y: x | y)
        if op == 'BitXor':
            return self.bitop(A, Bv, lambda x, y: x ^ y)
        if op in ('FloorDiv', 'Mod'):
            if isinstance(b, int) and b > 0:
                return A / Bv if op == 'FloorDiv' else A % Bv
            if st.decide(Bv == 0, 'div0'):
                raise PyRaise(ExcVal(ZeroDivisionError))
            if not st.must(Bv > 0):
                raise Unsupported('floor division by a possibly negative divisor')
            return A / Bv if op == 'FloorDiv' else A % Bv
        if op == 'Pow':
            if isinstance(a, int) and a == 2:
                return pow2(Bv, st)
            raise Unsupported('pow')
        raise Unsupported('binop %s' % op)

    def bitop(self, A, Bv, f, w=16):
        """bitwise op through bit-vectors; sound only if both operands are within [0, 2^w)"""
        st = self.st
        for x in (A, Bv):
            if not st.must(And(x >= 0, x < 2 ** w)):
                w2 = 72
                if not st.must(And(x >= 0, x < 2 ** w2)):
                    raise Unsupported('bitwise operation on an operand not provably within 0..2^%d' % w2)
                w = w2
        return z3.BV2Int(f(z3.Int2BV(A, w), z3.Int2BV(Bv, w)), False)

    def ev_Attribute(self, e):
        base = self.ev(e.value)
        return self.getattr(base, e.attr)

    def getattr(self, base, name):
        st = self.st
        if isinstance(base, SOpt):
            if st.decide(base.is_none, 'attr-of-none:' + name):
                raise PyRaise(ExcVal(AttributeError, tag='NoneType.' + name))
            base = base.val
        if base is None:
            raise PyRaise(ExcVal(AttributeError, tag='NoneType.' + name))
        if isinstance(base, ORef):
            o = st.obj(base)
            if name in o.f:
                return o.f[name]
            if name == '__class__':
                return o.cls
            return self.class_attr(o.cls, name, base)
        if isinstance(base, Rec):
            if name in base.f:
                return base.f[name]
            return self.class_attr(base.cls, name, base)
        if isinstance(base, SuperProxy):
            cls = type_of(self, base.recv)
            mro = cls.__mro__
            idx = mro.index(base.after)
            for c in mro[idx + 1:]:
                if name in c.__dict__:
                    return self.bind_descriptor(c.__dict__[name], base.recv, cls, name)
            raise PyRaise(ExcVal(AttributeError, tag='super.' + name))
        if isinstance(base, (SBytes, MRef, SStr, SList, tuple, SDictV, set)):
            return BoundMethod(base, name, name)
        if isinstance(base, ExtObj):
            from . import externals
            return externals.ext_getattr(self, base, name)
        if isinstance(base, ExcVal):
            if name == 'args':
                return base.args
            return BoundMethod(base, name, name)
        if isinstance(base, GenObj):
            return BoundMethod(base, name, name)
        if inspect.isclass(base):
            if name == '__name__':
                return SStr.lit(base.__name__)
            return self.class_attr(base, name, None, klass=base)
        if inspect.ismodule(base):
            try:
                return self.conv(getattr(base, name))
            except AttributeError:
                raise PyRaise(ExcVal(AttributeError, tag='module.' + name))
        if isinstance(base, Opaque):
            raise PyRaise(ExcVal(AttributeError, tag='opaque.' + name))
        if isinstance(base, (int, bool)) or is_expr(base):
            raise PyRaise(ExcVal(AttributeError, tag='scalar.' + name))
        if isinstance(base, functools.partial) or callable(base):
            return self.conv(getattr(base, name))
        raise Unsupported('attribute %s of %r' % (name, base))

    def class_attr(self, cls, name, recv, klass=None):
        try:
            raw = inspect.getattr_static(cls, name)
        except AttributeError:
            if recv is not None and _assigned_on_self(cls, name):
                # the tree under verification gives its instances this attribute (some method stores self.<name>), the
                # symbolic world does not know it: the model is closed, the code may be fine - undecided, not an AttributeError
                raise Unsupported('%s.%s: an attribute the code assigns but the contracts\' world model does not describe' % (classname(cls), name))
            raise PyRaise(ExcVal(AttributeError, tag='%s.%s' % (classname(cls), name)))
        return self.bind_descriptor(raw, recv, klass or cls, name)

    def bind_descriptor(self, raw, recv, cls, name):
        if isinstance(raw, property):
            if recv is None:
                return raw
            return self.call_function(raw.fget, [recv], {})
        if isinstance(raw, classmethod):
            return BoundMethod(cls, raw.__func__, name)
        if isinstance(raw, staticmethod):
            return raw.__func__
        if inspect.isfunction(raw):
            if recv is None:
                return raw
            return BoundMethod(recv, raw, name)
        if type(raw).__name__ == 'member_descriptor':      # __slots__ entry not yet assigned
            if recv is not None and _assigned_on_self(cls, name):
                raise Unsupported('%s.%s: a slot the code assigns but the contracts\' world model does not describe' % (classname(cls), name))
            raise PyRaise(ExcVal(AttributeError, tag='unset-slot.' + name))
        return self.conv(raw)

    def ev_Subscript(self, e):
        base = self.ev(e.value)
        if isinstance(e.slice, ast.Slice):
            lo = self.ev(e.slice.lower) if e.slice.lower is not None else None
            hi = self.ev(e.slice.upper) if e.slice.upper is not None else None
            step = self.ev(e.slice.step) if e.slice.step is not None else None
            return self.getslice(base, lo, hi, step)
        idx = self.ev(e.slice)
        return self.getitem(base, idx)

    def getslice(self, base, lo, hi, step):
        st = self.st
        if isinstance(base, SOpt):
            base = self.unopt(base, 'slice')
        if self.is_byteslike(base):
            b = self.bytes_of(base)
            if step is not None and step != 1:
                if not (isinstance(step, int) and step > 0 and hi is None and isinstance(lo or 0, int) and (lo or 0) >= 0):
                    raise Unsupported('general extended slice')
                r = strided(b, lo or 0, step)
            else:
                lo = self.unopt(lo) if lo is not None else None
                hi = self.unopt(hi) if hi is not None else None
                r = bslice(b, None if lo is None else to_int(lo), None if hi is None else to_int(hi))
            if b.kind == BYTEARRAY:
                return st.alloc(r.with_kind(BYTEARRAY), 'ba')
            if b.kind == MEMVIEW:
                r = SBytes(MEMVIEW, r.n, r.at, view_of=b.view_of)
            return r
        if isinstance(base, tuple):
            if all(x is None or isinstance(x, int) for x in (lo, hi, step)):
                return base[slice(lo, hi, step)]
        if isinstance(base, MRef) and isinstance(st.mem[base.ident], SList):
            l = st.mem[base.ident]
            if lo is None and hi is None and step is None:
                return st.alloc(SList(l.n, l.at), 'l')
            n = l.concrete_len()
            if n is not None and all(x is None or isinstance(x, int) for x in (lo, hi, step)):
                items = [l.at(i) for i in range(n)][slice(lo, hi, step)]
                return st.alloc(SList.of(items) if items else SList.empty(), 'l')
            if isinstance(lo, int) and lo >= 0 and hi is None and step is None:
                n2 = simplify(If(l.n > lo, l.n - lo, IntVal(0)))
                return st.alloc(SList(n2, lambda i, l=l, lo=lo: l.at(iv(i) + lo)), 'l')
        if isinstance(base, SStr):
            return SStr(fresh('strslice', Str))
        raise Unsupported('slice of %r' % (base,))

    def getitem(self, base, idx):
        st = self.st
        if isinstance(base, SOpt):
            base = self.unopt(base, 'index')
        if isinstance(idx, SOpt):
            idx = self.unopt(idx, 'index')
        if self.is_byteslike(base):
            b = self.bytes_of(base)
            i = to_int(idx)
            if b.meta and 'const' in b.meta and not isinstance(idx, int):
                return const_table_lookup(self, tuple(b.meta['const']), i)
            ok = And(i >= -b.n, i < b.n)
            if not st.decide(ok, 'index-in-range'):
                raise PyRaise(ExcVal(IndexError))
            i2 = simplify(If(i < 0, i + b.n, i))
            v = b.at(i2)
            st.assume(v >= 0, v < 256)
            return v
        if isinstance(base, tuple):
            if isinstance(idx, int):
                try:
                    return base[idx]
                except IndexError:
                    raise PyRaise(ExcVal(IndexError))
            # constant tuple of ints indexed symbolically (the UTF-8 table)
            if all(isinstance(x, int) for x in base):
                return const_table_lookup(self, base, to_int(idx))
            raise Unsupported('symbolic index into tuple')
        if isinstance(base, (list,)) and all(isinstance(x, bytes) for x in base) and len(base) == 256:
            return TableRow(base, idx)
        if isinstance(base, MRef) and isinstance(st.mem[base.ident], SList):
            l = st.mem[base.ident]
            i = to_int(idx)
            ok = And(i >= -l.n, i < l.n)
            if not st.decide(ok, 'index-in-range'):
                raise PyRaise(ExcVal(IndexError))
            return l.at(simplify(If(i < 0, i + l.n, i)))
        if isinstance(base, SList):
            i = to_int(idx)
            if not st.decide(And(i >= -base.n, i < base.n), 'index-in-range'):
                raise PyRaise(ExcVal(IndexError))
            return base.at(simplify(If(i < 0, i + base.n, i)))
        if isinstance(base, SDictV):
            if not st.decide(to_bool(base.has(idx)), 'key-present'):
                raise PyRaise(ExcVal(KeyError))
            return base.value(idx)
        raise Unsupported('subscript of %r' % (base,))

    def ev_GeneratorExp(self, e):
        return LazyGenExp(e, self.env)

    def ev_ListComp(self, e):
        from . import externals
        return externals.list_comp(self, e)

    def ev_DictComp(self, e):
        raise Unsupported('dict comprehension')

    def ev_Lambda(self, e):
        return Closure(e, self.env, None, '<lambda>')

    def ev_Call(self, e):
        f = self.ev(e.func)
        args = []
        for a in e.args:
            if isinstance(a, ast.Starred):
                v = self.ev(a.value)
                if not isinstance(v, tuple):
                    raise Unsupported('star-args of non-tuple')
                args.extend(v)
            else:
                args.append(self.ev(a))
        kw = {}
        for k in e.keywords:
            if k.arg is None:
                v = self.ev(k.value)
                if isinstance(v, dict) and not v:
                    continue
                raise Unsupported('**kwargs')
            kw[k.arg] = self.ev(k.value)
        self.st.cur_line = e.lineno
        return self.call(f, args, kw, e)

    def ev_Yield(self, e):
        if self.fcontract is None or self.inlining:
            raise Unsupported('yield outside the generator under verification')
        v = self.ev(e.value) if e.value is not None else None
        self.st.cur_line = e.lineno
        k = self.yield_ord[id(e)]
        if self.st.ghost.get('closing_at') is not None:
            # the consumer closed this generator at an earlier yield (GeneratorExit was raised there); yielding again means
            # the body swallowed it: CPython turns that into RuntimeError('generator ignored GeneratorExit') in the consumer
            self.st.oblige('yield%d:no-yield-after-GeneratorExit(the close of an abandoned generator must not be swallowed)' % k,
                           BoolVal(False), tags=('C13', 'C07'))
            raise PathEnd('generator ignored GeneratorExit')
        return self.fcontract.at_yield(self, k, v, e)

    # ------------------------------------------------------------------ calls
    def call(self, f, args, kw, node=None):
        from . import externals
        st = self.st
        if isinstance(f, SOpt):
            if st.decide(f.is_none, 'call-none'):
                raise PyRaise(ExcVal(TypeError, tag='call-none'))
            f = f.val
        if isinstance(f, Closure):
            return self.call_closure(f, args, kw)
        if isinstance(f, BoundMethod):
            if inspect.isfunction(f.func):
                return self.call_function(f.func, [f.recv] + list(args), kw)
            return externals.call_method(self, f.recv, f.func, args, kw)
        if isinstance(f, functools.partial):
            return self.call(self.conv(f.func), [self.conv(a) for a in f.args] + list(args), dict(f.keywords, **kw))
        if inspect.isclass(f):
            if issubclass(f, BaseException):
                return ExcVal(f, tuple(args))
            if source_is_repo_class(f):
                return self.instantiate(f, args, kw)
            return externals.call_builtin_class(self, f, args, kw)
        if inspect.isfunction(f) and source.is_repo_function(f):
            return self.call_function(f, args, kw)
        return externals.call_external(self, f, args, kw)

    def instantiate(self, cls, args, kw):
        st = self.st
        ref = st.new_obj(cls)
        st.ghost.setdefault('allocated', []).append(ref.oid)
        init = inspect.getattr_static(cls, '__init__', None)
        if init is not None and inspect.isfunction(init):
            self.call_function(init, [ref] + list(args), kw)
        elif args or kw:
            raise PyRaise(ExcVal(TypeError, tag='ctor-args'))
        return ref

    def bind_args(self, func, args, kw):
        sig = inspect.signature(func)
        try:
            ba = sig.bind(*args, **kw)
        except TypeError:
            raise PyRaise(ExcVal(TypeError, tag='bad-call-signature:%s' % func.__name__))
        out = {}
        for name, p in sig.parameters.items():
            if name in ba.arguments:
                out[name] = ba.arguments[name]
            elif p.kind == p.VAR_KEYWORD:
                out[name] = {}
            elif p.kind == p.VAR_POSITIONAL:
                out[name] = ()
            else:
                out[name] = self.conv(p.default)
        return out

    def call_function(self, func, args, kw):
        """call of a function defined in the package: contract, or inline if declared transparent"""
        func = source.unwrap(func)
        q = source.qualname(func)
        bound = self.bind_args(func, args, kw)
        c = self.reg.get(q)
        if c is not None and not getattr(c, 'inline_at_calls', False):
            return c.apply(self, bound)
        if c is not None:
            return self.inline(func, bound)       # verified on its own, simple enough to inline at call sites
        if self.reg.is_inline(q):
            return self.inline(func, bound)
        raise Unsupported('call to %s needs a contract' % q)

    def inline(self, func, bound):
        node, ms = source.node_of(func)
        if source.has_yield(node):
            raise Unsupported('generator %s needs a producer contract' % source.qualname(func))
        env = Env(None, func.__globals__, func)
        env.vars.update(bound)
        saved = (self.env, self.yield_ord, self.loop_ord)
        self.env = env
        self.inlining += 1
        if self.inlining > 12:
            raise Unsupported('inline depth')
        try:
            self.block(node.body)
            return None
        except _Return as r:
            return r.value
        finally:
            self.inlining -= 1
            self.env, self.yield_ord, self.loop_ord = saved

    def call_closure(self, c, args, kw):
        node = c.node
        if isinstance(node, ast.Lambda):
            env = Env(c.env)
            for p, a in zip(node.args.args, args):
                env.vars[p.arg] = a
            saved = self.env
            self.env = env
            try:
                return self.ev(node.body)
            finally:
                self.env = saved
        if source.has_yield(node):
            raise Unsupported('nested generator function')
        env = Env(c.env)
        params = [p.arg for p in node.args.args]
        if len(args) > len(params) or kw:
            raise Unsupported('closure call shape')
        for p, a in zip(params, args):
            env.vars[p] = a
        saved = self.env
        self.env = env
        self.inlining += 1
        try:
            self.block(node.body)
            return None
        except _Return as r:
            return r.value
        finally:
            self.inlining -= 1
            self.env = saved

    # ------------------------------------------------------------------ statements
    def block(self, stmts):
        for s in stmts:
            self.stmt(s)

    def stmt(self, n):
        self.st.cur_line = n.lineno
        m = getattr(self, 'st_' + type(n).__name__, None)
        if m is None:
            raise Unsupported('statement %s' % type(n).__name__)
        return m(n)

    def st_Expr(self, n):
        if isinstance(n.value, ast.Constant):
            return           # docstring / bare constant: dropped
        if _is_log_call(n.value):
            return           # logging dropped (documented)
        self.ev(n.value)

    def st_Pass(self, n):
        pass

    def st_Assert(self, n):
        if not self.cond(self.ev(n.test), 'assert'):
            raise PyRaise(ExcVal(AssertionError))

    def st_Return(self, n):
        raise _Return(self.ev(n.value) if n.value is not None else None)

    def st_Break(self, n):
        raise _Break()

    def st_Continue(self, n):
        raise _Continue()

    def st_Raise(self, n):
        if n.exc is None:
            if not self.st.exc_stack:
                raise Unsupported('bare raise outside handler')
            raise PyRaise(self.st.exc_stack[-1])
        v = self.ev(n.exc)
        if inspect.isclass(v) and issubclass(v, BaseException):
            v = ExcVal(v)
        if not isinstance(v, ExcVal):
            raise Unsupported('raise of %r' % (v,))
        raise PyRaise(v)

    def st_Assign(self, n):
        v = self.ev(n.value)
        for t in n.targets:
            self.assign(t, v)

    def st_AugAssign(self, n):
        cur = self.ev(_as_load(n.target))
        v = self.ev(n.value)
        self.assign(n.target, self.binop(type(n.op).__name__, cur, v))

    def st_Delete(self, n):
        st = self.st
        for t in n.targets:
            if isinstance(t, ast.Subscript) and isinstance(t.slice, ast.Slice) and \
                    t.slice.lower is None and t.slice.upper is None and t.slice.step is None:
                base = self.ev(t.value)
                if isinstance(base, MRef):
                    c = st.mem[base.ident]
                    st.mem[base.ident] = SBytes.lit([], BYTEARRAY) if isinstance(c, SBytes) else SList.empty()
                    st.memwrites.append(base.ident)
                    continue
            raise Unsupported('del target')

    def st_FunctionDef(self, n):
        q = '%s.<locals>.%s' % (source.qualname(self.env.func) if self.env.func else '?', n.name)
        self.env.vars[n.name] = Closure(n, self.env, None, q)

    def st_Import(self, n):
        raise Unsupported('import inside function')

    def st_If(self, n):
        if self.cond(self.ev(n.test), 'if'):
            self.block(n.body)
        else:
            self.block(n.orelse)

    def st_With(self, n):
        from . import externals
        if len(n.items) != 1:
            raise Unsupported('multi-item with')
        cm = self.ev(n.items[0].context_expr)
        externals.with_enter(self, cm)
        if n.items[0].optional_vars is not None:
            raise Unsupported('with ... as')
        try:
            self.block(n.body)
        except (PyRaise, _Return, _Break, _Continue):
            externals.with_exit(self, cm)
            raise
        externals.with_exit(self, cm)

    def st_Try(self, n):
        st = self.st
        try:
            try:
                self.block(n.body)
            except PyRaise as pr:
                h = self.match_handler(pr.exc, n.handlers)
                if h is None:
                    raise
                if h.name:
                    self.env.vars[h.name] = pr.exc
                st.exc_stack.append(pr.exc)
                try:
                    self.block(h.body)
                finally:
                    st.exc_stack.pop()
                    if h.name:
                        self.env.vars.pop(h.name, None)      # Python 3 unbinds the handler's name when the handler ends
            else:
                self.block(n.orelse)
        except (PyRaise, _Return, _Break, _Continue):
            if n.finalbody:
                self.block(n.finalbody)
            raise
        if n.finalbody:
            self.block(n.finalbody)

    def match_handler(self, exc, handlers):
        st = self.st
        for h in handlers:
            if h.type is None:
                return h
            t = self.ev(h.type)
            classes = t if isinstance(t, tuple) else (t,)
            for c in classes:
                if not inspect.isclass(c):
                    raise Unsupported('except clause type %r' % (c,))
                m = exc_matches(exc, c)
                if m is True:
                    return h
                if m is None:
                    if st.choose(['match', 'nomatch'], 'exc-is-%s' % c.__name__) == 'match':
                        # from here on the exception is known to be at least a `c`
                        exc.base = c
                        return h
                    exc.excluded = getattr(exc, 'excluded', ()) + (c,)
        return None

    # loops are in loops.py (mixed in below)

    def assign(self, t, v):
        st = self.st
        if isinstance(t, ast.Name):
            self.env.vars[t.id] = v
            return
        if isinstance(t, ast.Attribute):
            base = self.ev(t.value)
            if isinstance(base, SOpt):
                if st.decide(base.is_none, 'setattr-none'):
                    raise PyRaise(ExcVal(AttributeError))
                base = base.val
            if isinstance(base, ORef):
                slots = _all_slots(st.obj(base).cls)
                if slots is not None and t.attr not in slots:
                    raise PyRaise(ExcVal(AttributeError, tag='not-in-slots.' + t.attr))
                st.set(base, t.attr, v)
                return
            if inspect.isclass(base):
                raise Unsupported('assignment to class attribute %s.%s' % (base.__name__, t.attr))
            raise Unsupported('attribute assignment on %r' % (base,))
        if isinstance(t, (ast.Tuple, ast.List)):
            vals = self.unpack(v, len(t.elts))
            for tt, vv in zip(t.elts, vals):
                self.assign(tt, vv)
            return
        if isinstance(t, ast.Subscript):
            base = self.ev(t.value)
            if isinstance(t.slice, ast.Slice):
                if not (isinstance(base, MRef) and isinstance(st.mem[base.ident], SBytes)):
                    raise Unsupported('slice assignment to %r' % (base,))
                old = st.mem[base.ident]
                lo = self.ev(t.slice.lower) if t.slice.lower is not None else 0
                step = self.ev(t.slice.step) if t.slice.step is not None else 1
                if t.slice.upper is not None or not isinstance(lo, int) or not isinstance(step, int) or step < 1 or lo < 0:
                    raise Unsupported('general slice assignment')
                if not self.is_byteslike(v):
                    raise PyRaise(ExcVal(TypeError, tag='slice-assign-nonbytes'))
                rhs = self.bytes_of(v)
                tgt = strided(old, lo, step)
                if step == 1:
                    new = cat(BYTEARRAY, [bslice(old, 0, lo), rhs])
                else:
                    if not st.decide(rhs.n == tgt.n, 'extslice-len'):
                        raise PyRaise(ExcVal(ValueError, tag='extended-slice-size'))
                    new = SBytes(BYTEARRAY, old.n,
                                 lambda i, old=old, rhs=rhs, lo=lo, step=step:
                                 If(And(iv(i) >= lo, iv(i) < old.n, (iv(i) - lo) % step == 0),
                                    rhs.at((iv(i) - lo) / step), old.at(i)))
                st.mem[base.ident] = new
                st.memwrites.append(base.ident)
                return
            idx = self.ev(t.slice)
            if isinstance(base, SDictV):
                base.setitem(idx, v)
                return
            raise Unsupported('item assignment')
        raise Unsupported('assign target %s' % type(t).__name__)

    def unpack(self, v, k):
        st = self.st
        if isinstance(v, SOpt):
            v = self.unopt(v, 'unpack')
        if isinstance(v, tuple):
            if len(v) != k:
                raise PyRaise(ExcVal(ValueError, tag='unpack-arity'))
            return list(v)
        if isinstance(v, LazyGenExp):
            from . import externals
            return externals.unpack_genexp(self, v, k)
        if self.is_byteslike(v):
            b = self.bytes_of(v)
            if not st.decide(b.n == k, 'unpack-arity'):
                raise PyRaise(ExcVal(ValueError, tag='unpack-arity'))
            out = []
            for j in range(k):
                x = b.at(IntVal(j))
                st.assume(x >= 0, x < 256)
                out.append(x)
            return out
        if isinstance(v, MRef) and isinstance(st.mem[v.ident], SList):
            l = st.mem[v.ident]
            if not st.decide(l.n == k, 'unpack-arity'):
                raise PyRaise(ExcVal(ValueError, tag='unpack-arity'))
            return [l.at(IntVal(j)) for j in range(k)]
        if v is None or isinstance(v, (int, bool)) or is_expr(v):
            raise PyRaise(ExcVal(TypeError, tag='unpack-non-iterable'))
        raise Unsupported('unpack of %r' % (v,))


# ----------------------------------------------------------------------------- helpers
def _as_load(t):
    import copy
    t2 = copy.copy(t)
    t2.ctx = ast.Load()
    return t2


def _is_log_call(e):
    return (isinstance(e, ast.Call) and isinstance(e.func, ast.Attribute)
            and isinstance(e.func.value, ast.Name) and e.func.value.id == 'log'
            and e.func.attr in ('debug', 'info', 'warning', 'error', 'exception', 'critical'))


def _all_slots(cls):
    slots = set()
    for c in cls.__mro__:
        if c is object:
            continue
        if '__slots__' not in c.__dict__:
            return None
        s = c.__dict__['__slots__']
        slots.update([s] if isinstance(s, str) else s)
    return slots


def source_is_repo_class(cls):
    import os
    mod = inspect.getmodule(cls)
    fn = getattr(mod, '__file__', None)
    return bool(fn) and os.path.realpath(fn).startswith(os.path.realpath(source.ROOT) + os.sep)


def type_of(ip, v):
    if isinstance(v, ORef):
        return ip.st.obj(v).cls
    if inspect.isclass(v):
        return v
    raise Unsupported('type_of %r' % (v,))


def exc_matches(exc, handler_cls):
    """True / False / None (unknown: exc is 'some subclass of exc.base')"""
    if exc.cls is not None:
        return issubclass(exc.cls, handler_cls)
    if issubclass(exc.base, handler_cls):
        return True
    if handler_cls in getattr(exc, 'excluded', ()):
        return False
    if issubclass(handler_cls, exc.base):
        return None
    return False


def spec_matches(exc, spec_cls):
    """does a `raises` clause of a CONTRACT admit this exception?  Like exc_matches, except that a catch-all clause
    (Exception / BaseException: "may fail for reasons of the environment") never admits the exceptions CPython raises
    for a fault of the function's own code - an unbound local or name"""
    if exc.cls is not None and issubclass(exc.cls, (NameError, AttributeError)) and spec_cls in (Exception, BaseException):
        return False
    return exc_matches(exc, spec_cls)


def _int_set_membership(x, items):
    """x in {ints}: as a disjunction of ranges"""
    s = sorted(set(items))
    if not s:
        return BoolVal(False)
    ranges = []
    lo = prev = s[0]
    for v in s[1:]:
        if v == prev + 1:
            prev = v
            continue
        ranges.append((lo, prev))
        lo = prev = v
    ranges.append((lo, prev))
    return Or(*[x == a if a == b else And(x >= a, x <= b) for a, b in ranges])


_pow2 = z3.Function('pow2', I, I)


def pow2(n, st):
    """2**n as an uninterpreted function with the instances the VC needs"""
    st.assume(_pow2(IntVal(0)) == 1)
    st.assume(Implies(n >= 0, _pow2(n) >= 1))
    st.assume(Implies(n >= 1, And(_pow2(n) == 2 * _pow2(n - 1), _pow2(n - 1) >= 1)))
    return _pow2(n)


_TABLES = {}


def table_array(ip, table):
    """z3 array constant equal to a constant table of ints; its point-wise facts (and its
    min/max) are added to the path once"""
    st = ip.st
    table = tuple(table)
    name = 'tbl%d_%d' % (len(table), abs(hash(table)) % 100000)
    arr = z3.Array(name, I, I)
    if ('tblfacts', name) not in st.ghost:
        st.ghost[('tblfacts', name)] = True
        st.pc.extend(z3.Select(arr, k) == table[k] for k in range(len(table)))
    return arr


def const_table_lookup(ip, table, idx):
    """table[idx] for a constant tuple/bytes of ints and a symbolic index"""
    st = ip.st
    n = len(table)
    arr = table_array(ip, table)
    if not st.decide(And(idx >= -n, idx < n), 'table-index-in-range'):
        raise PyRaise(ExcVal(IndexError))
    idx2 = simplify(If(idx < 0, idx + n, idx))
    v = z3.Select(arr, idx2)
    st.assume(v >= min(table), v <= max(table))
    return v


class TableRow:
    """_XOR_TABLE[n]: row n of a 256x256 translation table (checked against xor at load time)"""
    def __init__(self, table, n):
        self.table, self.n = table, n


class SDictV:
    """abstract dict with string keys: uninterpreted has/value functions + concrete overrides"""
    def __init__(self, name, valsort='str'):
        self.name = name
        self.hasf = z3.Function('has_' + name, Str, B)
        self.valf = z3.Function('val_' + name, Str, Str)
        self.nonempty = z3.Bool('nonempty_' + name)
        self.over = []

    def has(self, key):
        r = self.hasf(key.t)
        for k, v in self.over:
            r = If(k.t == key.t, BoolVal(True), r)
        return r

    def value(self, key):
        r = self.valf(key.t)
        for k, v in self.over:
            r = If(k.t == key.t, v.t, r)
        return SStr(r)

    def setitem(self, key, v):
        self.over.append((key, v))
