"""Ground obligations: finite constants of the real modules checked exhaustively against their spec
(the facts the contracts then use), and small closed lemmas discharged by the solver."""
import importlib
import time
import traceback

import z3

CHECKS = {}


class Ground:
    def __init__(self, name, serves, fn):
        self.name, self.serves, self.fn = name, tuple(serves), fn


def ground(name, serves):
    def deco(fn):
        CHECKS[name] = Ground(name, serves, fn)
        return fn
    return deco


def run(name):
    g = CHECKS[name]
    t0 = time.time()
    out = dict(qual=name, obligations=[], infos=[], error=None, kind='ground', source=None)
    try:
        for item in g.fn():
            oname, ok, witness, backend = item
            out['obligations'].append(dict(name='%s/%s' % (name, oname), verdict='unknown' if ok is None else ('proved' if ok else 'refuted'), ms=0.0,
                                           backend=backend, tags=[], line=None, model=witness, info=None))
    except Exception as e:
        out['error'] = '%s: %s\n%s' % (type(e).__name__, e, traceback.format_exc())
    out['wall_s'] = round(time.time() - t0, 3)
    for o in out['obligations']:
        o['ms'] = round(out['wall_s'] * 1000 / max(1, len(out['obligations'])), 2)
    return out


# ------------------------------------------------------------------------------------------------
@ground('mask._XOR_TABLE', serves=['C03'])
def xor_table():
    """_XOR_TABLE[b][a] == a ^ b for all 65 536 entries: the fact behind the translate() rule"""
    mod = importlib.import_module('lomond.mask')
    T = mod._XOR_TABLE
    bad = None
    ok = isinstance(T, list) and len(T) == 256 and all(isinstance(r, bytes) and len(r) == 256 for r in T)
    if ok:
        for b in range(256):
            row = T[b]
            for a in range(256):
                if row[a] != a ^ b:
                    bad = dict(a=a, b=b, table=row[a], expected=a ^ b)
                    break
            if bad:
                break
    yield ('table-is-xor(65536 entries)', ok and bad is None, bad, 'enumeration')
    # xor8 is an uninterpreted symbol in the VCs; the property talks about *unmasking*, which is the
    # same operation because xor is an involution - closed lemma over 8-bit vectors
    a, k = z3.BitVecs('a k', 8)
    s = z3.Solver()
    s.add(((a ^ k) ^ k) != a)
    yield ('lemma:unmask(mask(a,k),k)==a', s.check() == z3.unsat, None, 'z3 bit-vectors')
    mk = mod.make_masking_key
    import functools
    import os
    ok2 = isinstance(mk, functools.partial) and mk.func is os.urandom and mk.args == (4,) and not mk.keywords
    yield ('make_masking_key-is-urandom(4)', ok2, None if ok2 else dict(found=repr(mk)), 'inspection')


@ground('utf8validator.UTF8VALIDATOR_DFA', serves=['C05', 'C02', 'C04'])
def utf8_table():
    """the real DFA table is a bisimulation of the RFC 3629 automaton: product construction from
    (ACCEPT, START) over all 256 bytes; the state map must be a function, injective, map REJECT to
    REJECT and ACCEPT to START.  This is the property's own quantifier (reachable states x 256)."""
    from spec import rfc3629
    mod = importlib.import_module('lomond.utf8validator')
    yield ('spec-selftest-against-strict-decoder', rfc3629.selftest(), None, 'enumeration')
    D = mod.UTF8VALIDATOR_DFA
    S = mod.UTF8VALIDATOR_DFA_S
    ok_shape = isinstance(D, tuple) and len(D) == 400 and bytes(D) == bytes(S) and mod.UTF8_ACCEPT == 0 and mod.UTF8_REJECT == 1
    yield ('table-shape-400-and-bytes-copy', ok_shape, None if ok_shape else dict(len=len(D)), 'inspection')
    yield ('pure-python-validator-in-use', mod.Utf8Validator.__module__ == 'lomond.utf8validator', None, 'inspection')

    def istep(s, b):
        return D[256 + (s << 4) + D[b]]
    m = {0: rfc3629.START}
    inv = {rfc3629.START: 0}
    work = [0]
    bad = None
    trans = 0
    while work and bad is None:
        s = work.pop()
        for b in range(256):
            trans += 1
            t = istep(s, b)
            u = rfc3629.step(m[s], b)
            if t in m:
                if m[t] != u:
                    bad = dict(state=s, byte=b, impl=t, impl_means=repr(m[t]), spec=repr(u))
                    break
            else:
                if u in inv:
                    bad = dict(state=s, byte=b, impl=t, spec=repr(u), clash_with=inv[u])
                    break
                m[t] = u
                inv[u] = t
                work.append(t)
    ok = bad is None and m.get(1) == rfc3629.REJECT and m.get(0) == rfc3629.START
    yield ('bisimulation(%d reachable states x 256 bytes = %d transitions)' % (len(m), trans), ok, bad, 'enumeration')
    rng = all(0 <= D[b] <= 11 for b in range(256)) and all(0 <= D[k] <= 8 for k in range(256, 400))
    yield ('table-ranges(classes 0..11, states 0..8)', rng, None, 'enumeration')
    absorbing = all(istep(1, b) == 1 for b in range(256))
    yield ('reject-is-absorbing', absorbing, None, 'enumeration')
    states_ok = sorted(m) == list(range(9))
    yield ('reachable-states-are-0..8', states_ok, None if states_ok else dict(states=sorted(m)), 'enumeration')


@ground('status.Status.invalid_codes', serves=['C04', 'C08'])
def close_codes():
    """RFC 6455 7.4.1 / 7.4.2 sandwich over all 65 536 16-bit codes: codes that must never appear
    on the wire are in the set, codes that are defined for use are not (1012-1014 and >= 5000 are
    left open, so the check demands no more than the property)"""
    mod = importlib.import_module('lomond.status')
    inv = mod.Status.invalid_codes
    must_reject = lambda c: c <= 999 or c in (1004, 1005, 1006, 1015) or 1016 <= c <= 2999
    must_accept = lambda c: 1000 <= c <= 1003 or 1007 <= c <= 1011 or 3000 <= c <= 4999
    bad1 = next((c for c in range(65536) if must_reject(c) and c not in inv), None)
    bad2 = next((c for c in range(65536) if must_accept(c) and c in inv), None)
    yield ('reserved-codes-are-rejected(65536 codes)', bad1 is None, None if bad1 is None else dict(code=bad1), 'enumeration')
    yield ('defined-codes-are-accepted(65536 codes)', bad2 is None, None if bad2 is None else dict(code=bad2), 'enumeration')
    yield ('set-holds-only-ints', all(isinstance(c, int) for c in inv), None, 'enumeration')


@ground('opcode.reserved_opcodes', serves=['C04'])
def opcodes():
    mod = importlib.import_module('lomond.opcode')
    ok = set(mod.reserved_opcodes) == {3, 4, 5, 6, 7, 11, 12, 13, 14, 15}
    yield ('reserved-opcodes-are-3-7-and-11-15', ok, None if ok else dict(found=sorted(mod.reserved_opcodes)), 'enumeration')
    O = mod.Opcode
    ok2 = (O.CONTINUATION, O.TEXT, O.BINARY, O.CLOSE, O.PING, O.PONG) == (0, 1, 2, 8, 9, 10)
    yield ('opcode-constants', ok2, None, 'enumeration')
    bad = next((k for k in range(16) if mod.is_reserved(k) != (k in {3, 4, 5, 6, 7, 11, 12, 13, 14, 15})), None)
    yield ('is_reserved-agrees(16 opcodes)', bad is None, None if bad is None else dict(opcode=bad), 'enumeration')


@ground('package.socket-ownership-scan', serves=['C11', 'C12', 'C13'])
def ownership_scan():
    """whole-package AST scan (every run): every call of sendall / shutdown / close on the object
    stored in self._sock is lexically inside `with self._lock`; sockets still local to _connect*
    (not yet published in self._sock) are exempt.  And: state.closing / state.closed are assigned
    only in the functions that carry the C12 store-monitor."""
    import ast
    import os
    from . import source
    root = os.path.join(source.ROOT, 'lomond')
    bad = []
    flag_writers = set()
    sock_clearers = set()
    n_calls = 0
    for fn in sorted(os.listdir(root)):
        if not fn.endswith('.py'):
            continue
        tree = ast.parse(open(os.path.join(root, fn)).read())

        def visit(node, in_lock, func):
            nonlocal n_calls
            for child in ast.iter_child_nodes(node):
                il, f2 = in_lock, func
                if isinstance(child, (ast.FunctionDef, ast.AsyncFunctionDef)):
                    f2 = (func + '.' if func else '') + child.name
                    il = False
                if isinstance(child, ast.ClassDef):
                    f2 = (func + '.' if func else '') + child.name
                if isinstance(child, ast.With):
                    for it in child.items:
                        if ast.unparse(it.context_expr) == 'self._lock':
                            il = True
                if isinstance(child, ast.Call) and isinstance(child.func, ast.Attribute) and child.func.attr in ('sendall', 'send', 'shutdown', 'close'):
                    recv = ast.unparse(child.func.value)
                    if recv == 'self._sock':
                        n_calls += 1
                        if not il:
                            bad.append('%s:%d %s in %s outside `with self._lock`' % (fn, child.lineno, ast.unparse(child.func), func))
                if isinstance(child, (ast.Assign, ast.AugAssign)):
                    targets = child.targets if isinstance(child, ast.Assign) else [child.target]
                    for t in targets:
                        if isinstance(t, ast.Attribute) and t.attr in ('closing', 'closed') and ast.unparse(t.value).endswith('state'):
                            flag_writers.add('%s:%s' % (fn[:-3], func))
                        if isinstance(t, ast.Attribute) and t.attr == '_sock' and isinstance(child, ast.Assign) and \
                                isinstance(child.value, ast.Constant) and child.value.value is None:
                            sock_clearers.add('%s:%s' % (fn[:-3], func))
                visit(child, il, f2)
        visit(tree, False, '')
    yield ('socket-calls-on-self._sock-only-under-the-lock(%d call sites)' % n_calls, not bad and n_calls >= 3, None if not bad else dict(sites=bad), 'AST scan')
    # C11: a frame is handed to write() in ONE piece - send / send_compressed call self.write exactly once, outside any loop
    # (a frame written in slices releases the lock between them)
    import ast as _ast
    tree = _ast.parse(open(os.path.join(root, 'session.py')).read())
    pieces = []
    for node in _ast.walk(tree):
        if isinstance(node, _ast.FunctionDef) and node.name in ('send', 'send_compressed'):
            calls = [c for c in _ast.walk(node) if isinstance(c, _ast.Call) and _ast.unparse(c.func) == 'self.write']
            in_loop = [c for l in _ast.walk(node) if isinstance(l, (_ast.For, _ast.While)) for c in _ast.walk(l)
                       if isinstance(c, _ast.Call) and _ast.unparse(c.func) == 'self.write']
            if len(calls) != 1 or in_loop:
                pieces.append('%s: %d write call(s), %d inside a loop' % (node.name, len(calls), len(in_loop)))
    yield ('each-frame-is-written-by-a-single-write-call(send, send_compressed)', not pieces, dict(sites=pieces) if pieces else None, 'AST scan')
    # the session's socket is forgotten (self._sock = None) only where it has just been closed
    yield ('session._sock-cleared-only-in-__init__-_close_socket-and-close', not (sock_clearers - {'session:WebsocketSession.__init__',
           'session:WebsocketSession._close_socket', 'session:WebsocketSession.close'}), dict(others=sorted(sock_clearers)) if sock_clearers - {
           'session:WebsocketSession.__init__', 'session:WebsocketSession._close_socket', 'session:WebsocketSession.close'} else None, 'AST scan')
    expected = {'websocket:WebSocket.State.__init__', 'websocket:WebSocket.close', 'websocket:WebSocket._on_close',
                'websocket:WebSocket.on_disconnect', 'session:WebsocketSession.write'}
    extra = sorted(flag_writers - expected)
    yield ('closing/closed-assigned-only-in-monitored-functions', not extra, None if not extra else dict(unmonitored=extra), 'AST scan')


@ground('package.state-partition-scan', serves=['C17'])
def state_partition_scan():
    """whole-package AST scan (every run) for C17's frame condition: (a) every attribute assigned
    anywhere in the package on a WebSocket / State / WebsocketSession / WebsocketStream / parser /
    validator / Deflate object is in the field inventory (contracts/world.py FIELDS); (b) outside
    __init__ and add_header, WebSocket methods assign no configuration field - only `state`;
    (c) no class-level mutable default is shared between instances; (d) module-level mutable state
    is limited to the memoised Opcode name table."""
    import ast
    import os
    from . import source
    sys_path_fix = None
    from contracts.world import FIELDS, CONFIG_FIELDS
    root = os.path.join(source.ROOT, 'lomond')
    classes = {'WebSocket': 'websocket.py', 'State': 'websocket.py', 'WebsocketSession': 'session.py', 'WebsocketStream': 'stream.py',
               'FrameParser': 'frame_parser.py', 'ClientFrameParser': 'frame_parser.py', 'Parser': 'parser.py', 'Deflate': 'compression.py'}
    inv = {'WebSocket': set(FIELDS['WebSocket']), 'State': set(FIELDS['State']), 'WebsocketSession': set(FIELDS['WebsocketSession']),
           'WebsocketStream': set(FIELDS['WebsocketStream']), 'FrameParser': set(FIELDS['ClientFrameParser']), 'ClientFrameParser': set(FIELDS['ClientFrameParser']),
           'Parser': set(FIELDS['ClientFrameParser']), 'Deflate': set(FIELDS['Deflate'])}
    unknown, config_writes, class_mutables, module_mutables = [], [], [], []
    for fn in sorted(os.listdir(root)):
        if not fn.endswith('.py'):
            continue
        tree = ast.parse(open(os.path.join(root, fn)).read())
        for node in ast.walk(tree):
            if isinstance(node, ast.ClassDef):
                for item in node.body:
                    if node.name in inv and isinstance(item, ast.Assign) and isinstance(item.value, (ast.List, ast.Dict, ast.Set)) and not any(
                            isinstance(t, ast.Name) and t.id == '__slots__' for t in item.targets):
                        class_mutables.append('%s:%s.%s' % (fn, node.name, ast.unparse(item.targets[0])))
                    if isinstance(item, ast.FunctionDef):
                        for sub in ast.walk(item):
                            targets = []
                            if isinstance(sub, ast.Assign):
                                targets = sub.targets
                            elif isinstance(sub, ast.AugAssign):
                                targets = [sub.target]
                            for t in targets:
                                if isinstance(t, ast.Attribute) and isinstance(t.value, ast.Name) and t.value.id == 'self' and node.name in inv:
                                    if t.attr not in inv[node.name]:
                                        unknown.append('%s:%s.%s assigns self.%s' % (fn, node.name, item.name, t.attr))
                                    if node.name == 'WebSocket' and item.name not in ('__init__', 'add_header') and t.attr in CONFIG_FIELDS:
                                        config_writes.append('%s:WebSocket.%s assigns self.%s' % (fn, item.name, t.attr))
        for item in tree.body:
            if isinstance(item, ast.Assign) and isinstance(item.value, (ast.List, ast.Dict)) and fn not in ('mask.py',):
                module_mutables.append('%s:%s' % (fn, ast.unparse(item.targets[0])))
    yield ('every-assigned-attribute-is-in-the-field-inventory', not unknown, None if not unknown else dict(sites=unknown), 'AST scan')
    yield ('configuration-fields-written-only-by-__init__/add_header', not config_writes, None if not config_writes else dict(sites=config_writes), 'AST scan')
    yield ('no-class-level-mutable-defaults', not class_mutables, None if not class_mutables else dict(sites=class_mutables), 'AST scan')
    yield ('no-module-level-mutable-connection-state', not module_mutables, None if not module_mutables else dict(sites=module_mutables), 'AST scan')
    ws = importlib.import_module('lomond.websocket')
    ok = ws.WebSocket.__iter__ is ws.WebSocket.connect
    yield ('iteration-is-connect', ok, None, 'inspection')
