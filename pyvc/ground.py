"""Ground obligations: finite constants of the real modules checked exhaustively against their spec
(the facts the contracts then use), and small closed lemmas discharged by the solver."""
import importlib
import time
import traceback

import z3

CHECKS = {}


class Ground:
    def __init__(self, name, serves, fn):
        self.name, self.serves, self.fn = name, tuple(serves), fn


def ground(name, serves):
    def deco(fn):
        CHECKS[name] = Ground(name, serves, fn)
        return fn
    return deco


def run(name):
    g = CHECKS[name]
    t0 = time.time()
    out = dict(qual=name, obligations=[], infos=[], error=None, kind='ground', source=None)
    try:
        for item in g.fn():
            oname, ok, witness, backend = item
            out['obligations'].append(dict(name='%s/%s' % (name, oname), verdict='proved' if ok else 'refuted', ms=0.0,
                                           backend=backend, tags=[], line=None, model=witness, info=None))
    except Exception as e:
        out['error'] = '%s: %s\n%s' % (type(e).__name__, e, traceback.format_exc())
    out['wall_s'] = round(time.time() - t0, 3)
    for o in out['obligations']:
        o['ms'] = round(out['wall_s'] * 1000 / max(1, len(out['obligations'])), 2)
    return out


# ------------------------------------------------------------------------------------------------
@ground('mask._XOR_TABLE', serves=['C03'])
def xor_table():
    """_XOR_TABLE[b][a] == a ^ b for all 65 536 entries: the fact behind the translate() rule"""
    mod = importlib.import_module('lomond.mask')
    T = mod._XOR_TABLE
    bad = None
    ok = isinstance(T, list) and len(T) == 256 and all(isinstance(r, bytes) and len(r) == 256 for r in T)
    if ok:
        for b in range(256):
            row = T[b]
            for a in range(256):
                if row[a] != a ^ b:
                    bad = dict(a=a, b=b, table=row[a], expected=a ^ b)
                    break
            if bad:
                break
    yield ('table-is-xor(65536 entries)', ok and bad is None, bad, 'enumeration')
    # xor8 is an uninterpreted symbol in the VCs; the property talks about *unmasking*, which is the
    # same operation because xor is an involution - closed lemma over 8-bit vectors
    a, k = z3.BitVecs('a k', 8)
    s = z3.Solver()
    s.add(((a ^ k) ^ k) != a)
    yield ('lemma:unmask(mask(a,k),k)==a', s.check() == z3.unsat, None, 'z3 bit-vectors')
    mk = mod.make_masking_key
    import functools
    import os
    ok2 = isinstance(mk, functools.partial) and mk.func is os.urandom and mk.args == (4,) and not mk.keywords
    yield ('make_masking_key-is-urandom(4)', ok2, None if ok2 else dict(found=repr(mk)), 'inspection')
