"""Assumed contracts of stateful external objects: lock, socket, OS selector, zlib streams,
hashlib, urlparse, threading.Event, the parser coroutine handle.  TRUSTED (DESIGN section 4 C)."""
import base64
import hashlib
import inspect
import select as _select
import socket as _socket
import ssl as _ssl
import zlib

import z3
from z3 import And, Or, Not, If, Implies, IntVal, BoolVal, RealVal, simplify, ForAll, Function

from .engine import Unsupported, PyRaise, PathEnd, BoundMethod
from .sval import (SBytes, SStr, MRef, ORef, SList, SOpt, Rec, Opaque, ExcVal, ExtObj, fresh,
                   to_int, to_real, to_bool, isnum, iv, cat, bslice, beq, BYTES, BYTEARRAY, MEMVIEW,
                   I, B, R, Str)
from . import sval

NOT_HANDLED = object()


def used(ip, what):
    ip.st.ghost.setdefault('assumed', set()).add(what)


def may_raise(ip, tag, base=Exception, classes=()):
    """external call: besides returning it may raise (unknown subclass of `base`)"""
    if ip.st.choose(['ok', 'raise'], 'ext:' + tag) == 'raise':
        raise PyRaise(ExcVal(None, base=base, tag=tag))


# ----------------------------------------------------------------------------- lock
def lock_acquire(ip, lock):
    st = ip.st
    used(ip, 'threading.Lock/RLock: mutual exclusion; acquire of a held non-reentrant lock by its holder deadlocks')
    g = st.ghost[lock.key]
    if g['held'] and not g['reentrant']:
        st.oblige('lock:no-self-deadlock', BoolVal(False))
    g['held'] += 1
    st.ghost.setdefault('lock_log', []).append(('acquire', lock.key))
    hook = st.ghost.get('on_acquire')
    if hook and g['held'] == 1:
        hook(ip, lock)


def lock_release(ip, lock):
    st = ip.st
    g = st.ghost[lock.key]
    g['held'] -= 1
    st.ghost.setdefault('lock_log', []).append(('release', lock.key))
    hook = st.ghost.get('on_release')
    if hook and g['held'] == 0:
        hook(ip, lock)


def _lock_acquire(ip, lock, args, kw):
    """explicit acquire([blocking]): a non-blocking attempt may fail"""
    st = ip.st
    blocking = args[0] if args else kw.get('blocking', True)
    truthy = ip.truth(blocking)
    must_wait = truthy if isinstance(truthy, bool) else st.decide(truthy, 'acquire-blocking')
    if not must_wait:
        if st.choose(['acquired', 'busy'], 'try-lock') == 'busy':
            return False
    lock_acquire(ip, lock)
    return True


def _lock_release(ip, lock, args, kw):
    lock_release(ip, lock)
    return None


def lock_held(st, lock):
    return st.ghost[lock.key]['held'] > 0


# ----------------------------------------------------------------------------- socket
def sock_state(st, s):
    return st.ghost.setdefault(s.key, dict(closed=BoolVal(False), shutdown=BoolVal(False)))


def wire(st):
    """ghost $wire: list of byte strings handed to sendall, in order"""
    return st.ghost.setdefault('wire', SList.empty())


def ext_hasattr(ip, obj, name):
    if obj.kind == 'socket':
        if name == 'pending':
            g = sock_state(ip.st, obj)
            return g.setdefault('has_pending', fresh('has_pending', B))
        return name in ('sendall', 'recv', 'recv_into', 'close', 'shutdown', 'settimeout', 'fileno', 'connect', 'setsockopt')
    raise Unsupported('hasattr on %r' % (obj,))


def ext_getattr(ip, obj, name):
    if obj.kind == 'urlparts':
        return ip.st.ghost[obj.key][name]
    return BoundMethod(obj, name, name)


def ext_call(ip, obj, name, args, kw):
    st = ip.st
    h = globals().get('_%s_%s' % (obj.kind, name))
    if h is None:
        raise Unsupported('external method %s.%s' % (obj.kind, name))
    return h(ip, obj, args, kw)


def _socket_sendall(ip, s, args, kw):
    st = ip.st
    used(ip, 'socket.sendall(data): sends all bytes in order or raises; a raising call is treated as having sent nothing')
    (data,) = args
    if not ip.is_byteslike(data):
        raise PyRaise(ExcVal(TypeError, tag='sendall-nonbytes'))
    b = ip.bytes_of(data)
    st.ghost.setdefault('io_log', []).append(('sendall', s.key, _sock_locked(st, s), b))
    hook = st.ghost.get('sendall_hook')
    if hook is not None:
        hook(ip, s, b)
    may_raise(ip, 'sendall')
    hook = st.ghost.get('sent_hook')
    if hook is not None:
        hook(ip, s, b)
    st.ghost['wire'] = wire(st).append(SBytes(BYTES, b.n, b.at, b.arr, meta=b.meta))
    st.ghost.setdefault('wire_log', []).append(b)
    return None


def _socket_recv_into(ip, s, args, kw):
    st = ip.st
    used(ip, 'socket.recv_into(buf, n): returns 0 <= k <= n (k <= len(buf)), fills buf[:k] with the next k stream bytes; may raise')
    buf, n = args
    may_raise(ip, 'recv_into')
    k = fresh('recvd', I)
    old = st.mem[buf.ident]
    st.assume(k >= 0, k <= to_int(n), k <= old.n)
    nm = st.fresh_id('rx')
    data = SBytes.sym(nm)
    st.hyps.append(data.wf())
    st.mem[buf.ident] = SBytes(BYTEARRAY, old.n, lambda i, data=data, old=old, k=k: If(iv(i) < k, data.at(i), old.at(i)))
    st.memwrites.append(buf.ident)
    st.ghost.setdefault('rx_log', []).append((k, data))
    st.ghost.setdefault('io_log', []).append(('recv_into', s.key))
    return k


def _socket_recv(ip, s, args, kw):
    st = ip.st
    used(ip, 'socket.recv(n): returns 0..n next stream bytes (0 = EOF); may raise')
    (n,) = args
    may_raise(ip, 'recv')
    nm = st.fresh_id('rx')
    data = SBytes.sym(nm)
    st.assume(data.n >= 0, data.n <= to_int(n))
    st.hyps.append(data.wf())
    st.ghost.setdefault('io_log', []).append(('recv', s.key))
    return data


def _socket_shutdown(ip, s, args, kw):
    st = ip.st
    st.ghost.setdefault('io_log', []).append(('shutdown', s.key, _sock_locked(st, s)))
    may_raise(ip, 'shutdown')
    sock_state(st, s)['shutdown'] = BoolVal(True)


def _sock_locked(st, s):
    lk = st.ghost.get(('lock_of', s.key))
    return bool(lk is not None and lock_held(st, lk))


def _socket_close(ip, s, args, kw):
    st = ip.st
    used(ip, 'socket.close(): marks the descriptor closed (treated as not raising after the state change)')
    st.ghost.setdefault('io_log', []).append(('close', s.key, _sock_locked(st, s)))
    sock_state(st, s)['closed'] = BoolVal(True)
    may_raise(ip, 'sock.close')


def _socket_settimeout(ip, s, args, kw):
    ip.st.ghost.setdefault('io_log', []).append(('settimeout', s.key))
    return None


def _socket_setsockopt(ip, s, args, kw):
    return None


def _socket_fileno(ip, s, args, kw):
    return fresh('fd', I)


def _socket_connect(ip, s, args, kw):
    st = ip.st
    used(ip, 'socket.connect(addr): connects or raises socket.error (or anything)')
    st.ghost.setdefault('io_log', []).append(('connect', s.key, args[0]))
    ch = st.choose(['ok', 'socket.error', 'other-exception'], 'ext:connect')
    if ch == 'socket.error':
        sock_state(st, s)['connect_failed'] = True
        raise PyRaise(ExcVal(_socket.error, tag='connect'))
    if ch == 'other-exception':
        raise PyRaise(ExcVal(None, base=Exception, tag='connect'))
    sock_state(st, s)['connected_to'] = args[0]


def _socket_pending(ip, s, args, kw):
    st = ip.st
    used(ip, 'SSLSocket.pending(): number of decrypted bytes buffered in the TLS object ($tls)')
    g = sock_state(st, s)
    if 'tls' not in g:
        g['tls'] = fresh('tls', I)
        st.assume(g['tls'] >= 0, g['tls'] <= 16384)     # at most one decrypted TLS record
    st.ghost.setdefault('io_log', []).append(('pending', s.key))
    return g['tls']


# ----------------------------------------------------------------------------- threading.Event
def _event_wait(ip, e, args, kw):
    st = ip.st
    used(ip, 'threading.Event.wait(t): returns True iff the event is set')
    r = fresh('exit_set', B)
    st.ghost.setdefault('event_waits', []).append((args[0] if args else None, r))
    return r


# ----------------------------------------------------------------------------- module functions
def call(ip, f, args, kw):
    st = ip.st
    if f is hashlib.sha1:
        used(ip, 'hashlib.sha1 / digest: deterministic function (uninterpreted)')
        key = st.fresh_id('sha1')
        st.ghost[key] = dict(data=ip.bytes_of(args[0]))
        return ExtObj('sha1', key)
    return NOT_HANDLED


def _sha1_digest(ip, h, args, kw):
    st = ip.st
    data = st.ghost[h.key]['data']
    nm = st.fresh_id('digest')
    r = SBytes.sym(nm)
    st.assume(r.n == 20)
    st.hyps.append(r.wf())
    r.meta = dict(sha1_of=data)
    return r


# ----------------------------------------------------------------------------- zlib (C06, C11)
# Assumed contract (DESIGN 4 C): a raw-deflate compressobj fed p then flush(Z_SYNC_FLUSH) emits a
# byte string ending in 00 00 FF FF; an inflater whose window is >= the deflater's, fed the same
# message history (and not at end-of-stream), returns p.  Here the objects only LOG what the code
# under verification does with them; the contracts then check the log (plumbing obligations).
def zlog(st, z):
    return st.ghost.setdefault(('zlog', z.key), [])


def zlib_call(ip, f, args, kw):
    st = ip.st
    if f is zlib.compressobj:
        used(ip, 'zlib.compressobj(level, method, wbits): raw deflate stream with window 2^|wbits| (negative wbits); raises for |wbits| outside 9..15')
        level, method, wbits = (list(args) + [None, None, None])[:3]
        if wbits is None:
            raise Unsupported('compressobj without wbits')
        wb = to_int(wbits)
        if not st.decide(And(-wb >= 9, -wb <= 15), 'zlib-wbits-ok'):
            raise PyRaise(ExcVal(ValueError, tag='zlib: invalid initialization option'))
        z = ExtObj('zcompress', st.fresh_id('zc'))
        st.ghost[z.key] = dict(wbits=-wb, lock_at_create=_any_lock_held(st))
        st.ghost.setdefault('zcreated', []).append(z)
        return z
    if f is zlib.decompressobj:
        used(ip, 'zlib.decompressobj(wbits): raw inflate stream with window 2^|wbits|; raises for |wbits| outside 8..15')
        (wbits,) = args
        wb = to_int(wbits)
        if not st.decide(And(-wb >= 8, -wb <= 15), 'zlib-wbits-ok'):
            raise PyRaise(ExcVal(ValueError, tag='zlib: invalid initialization option'))
        z = ExtObj('zdecompress', st.fresh_id('zd'))
        st.ghost[z.key] = dict(wbits=-wb, eof=BoolVal(False))
        st.ghost.setdefault('zcreated', []).append(z)
        return z
    return NOT_HANDLED


def _any_lock_held(st):
    return any(isinstance(v, dict) and v.get('held', 0) > 0 for k, v in st.ghost.items() if isinstance(k, str) and k.startswith('lock'))


def _zcompress_compress(ip, z, args, kw):
    st = ip.st
    (p,) = args
    if not ip.is_byteslike(p):
        raise PyRaise(ExcVal(TypeError, tag='zlib.compress(nonbytes)'))
    b = ip.bytes_of(p)
    out = SBytes.sym(st.fresh_id('zout'))
    st.assume(out.n >= 0)
    st.hyps.append(out.wf())
    zlog(st, z).append(('compress', b, out, _any_lock_held(st)))
    return out


def _zcompress_flush(ip, z, args, kw):
    st = ip.st
    mode = args[0] if args else zlib.Z_FINISH
    out = SBytes.sym(st.fresh_id('zflush'))
    st.hyps.append(out.wf())
    if mode == zlib.Z_SYNC_FLUSH:
        st.assume(out.n >= 4, out.at(out.n - 4) == 0, out.at(out.n - 3) == 0, out.at(out.n - 2) == 255, out.at(out.n - 1) == 255)
    else:
        st.assume(out.n >= 0)
    zlog(st, z).append(('flush', mode, out, _any_lock_held(st)))
    return out


def _zdecompress_decompress(ip, z, args, kw):
    st = ip.st
    used(ip, 'zlib decompressobj.decompress(data): returns inflated bytes or raises zlib.error')
    (p,) = args
    if not ip.is_byteslike(p):
        raise PyRaise(ExcVal(TypeError, tag='zlib.decompress(nonbytes)'))
    b = ip.bytes_of(p)
    may_raise(ip, 'inflate')
    out = SBytes.sym(st.fresh_id('zinf'))
    st.assume(out.n >= 0)
    st.hyps.append(out.wf())
    g = st.ghost[z.key]
    g['eof'] = fresh('zeof', B)     # after any input the stream may have reached a BFINAL block
    zlog(st, z).append(('decompress', b, out, st.ghost.get('comp_ctx')))
    return out


_orig_call = call


def call(ip, f, args, kw):  # noqa: F811
    r = _orig_call(ip, f, args, kw)
    if r is NOT_HANDLED:
        r = zlib_call(ip, f, args, kw)
    return r


_orig_ext_getattr = ext_getattr


def ext_getattr(ip, obj, name):  # noqa: F811
    if obj.kind == 'zdecompress' and name == 'eof':
        return ip.st.ghost[obj.key]['eof']
    return _orig_ext_getattr(ip, obj, name)
