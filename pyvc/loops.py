"""Loop handling mixed into Interp: loops are CUT at supplied invariants (no unrolling), except
for iteration over a sequence of concrete length.  A consumer loop over a generator that has a
producer contract starts every iteration with a 'producer step' taken from that contract."""
import ast

import z3
from z3 import And, Or, Not, IntVal, BoolVal, simplify

from . import source
from .engine import (Interp, Unsupported, PathEnd, PyRaise, _Return, _Break, _Continue, GenObj,
                     LazyGenExp)
from .sval import SList, MRef, SBytes, SOpt, ExcVal, fresh, iv, I
from .contracts import havoc_like, havoc_loc, mk, T
from .engine import STALE


class LoopSpec:
    """inv(ip) -> [(name, formula)] evaluated on the current locals/heap/ghost;
    modifies(ip) -> locations havocked at the cut; locals: name -> type for locals whose current
    value does not determine their shape; decreases(ip) -> integer term (optional)"""
    def __init__(self, inv=None, modifies=None, locals=None, decreases=None, tags=(), checks=None):
        self.checks = checks      # checks(ip, when) -> [(name, formula, tags)]: asserted at entry /
        #                           after each iteration, never assumed (structural obligations)
        self.inv = inv or (lambda ip: [])
        self.modifies = modifies or (lambda ip: [])
        self.locals = locals or {}
        self.decreases = decreases
        self.tags = tuple(tags)


def _spec(self, n):
    if self.inlining or self.fcontract is None:
        raise Unsupported('loop inside an inlined function')
    k = self.loop_ord.get(id(n))
    spec = self.fcontract.loop(k) if k is not None else None
    if spec is None:
        raise Unsupported('loop #%s at line %d has no invariant' % (k, n.lineno))
    return k, spec


def _establish(self, k, spec, when):
    for name, t in spec.locals.items():
        if isinstance(t, T.Known) and name in self.env.vars:
            self.st.oblige('loop%d-inv-%s:local-%s-is-%r-at-the-loop-head' % (k, when, name, t.v), BoolVal(self.env.vars[name] is t.v), tags=spec.tags)
    for item in spec.inv(self):
        self.st.oblige('loop%d-inv-%s:%s' % (k, when, item[0]), item[1], tags=item[2] if len(item) > 2 else spec.tags)
    if spec.checks is not None:
        for item in spec.checks(self, when):
            self.st.oblige('loop%d-%s:%s' % (k, when, item[0]), item[1], tags=item[2] if len(item) > 2 else spec.tags)


def _cut(self, k, spec, n, extra_targets=()):
    """havoc everything the loop may change, then assume the invariant"""
    st = self.st
    names = source.assigned_names(n.body) | set(extra_targets)
    for name in sorted(names):
        if name in spec.locals:
            t = spec.locals[name]
            if isinstance(t, T.Const) and t.v is None:
                # "irrelevant at the loop head": sound only if every iteration re-assigns it before reading it, so a
                # read of the stale value is refused (engine.STALE) instead of being answered with None
                self.env.vars[name] = STALE
            else:
                self.env.vars[name] = mk(self, t, 'lv_' + name)
        elif name in self.env.vars:
            self.env.vars[name] = havoc_like(self, self.env.vars[name], 'lv_' + name)
    mark = len(st.writes), len(st.memwrites)
    for loc in spec.modifies(self):
        havoc_loc(self, loc)
    for item in spec.inv(self):
        st.assume(item[1])
    return mark


def _loop_frame(self, k, spec, mark_w, mark_m):
    """writes made by one iteration must lie within the loop's modifies set"""
    st = self.st
    allowed_h, allowed_m, allowed_cls = set(), set(), set()
    for loc in spec.modifies(self):
        if loc[0] == 'heap':
            allowed_h.add((loc[1].oid, loc[2]))
        elif loc[0] == 'mem':
            allowed_m.add(loc[1].ident)
        elif loc[0] == 'heapcls':
            allowed_cls.add((loc[1], loc[2]))
    bad = []
    for oid, f in st.writes[mark_w:]:
        if any(issubclass(st.heap[oid].cls, c) and f == fld for c, fld in allowed_cls):
            continue
        if (oid, f) not in allowed_h and oid in self._loop_heap_ids:
            bad.append('%s.%s' % (st.heap[oid].cls.__name__, f))
    for ident in st.memwrites[mark_m:]:
        if ident not in allowed_m and ident in self._loop_mem_ids:
            bad.append('mem:' + ident)
    if bad:
        st.oblige('loop%d-frame:writes-outside-loop-modifies:%s' % (k, ','.join(sorted(set(bad)))), BoolVal(False))


def st_While(self, n):
    st = self.st
    k, spec = _spec(self, n)
    st.ghost.setdefault('loops_visited', []).append(k)
    _establish(self, k, spec, 'entry')
    _cut(self, k, spec, n)
    self._loop_heap_ids, self._loop_mem_ids = set(st.heap), set(st.mem)
    mw, mm = len(st.writes), len(st.memwrites)
    dec0 = spec.decreases(self) if spec.decreases else None
    if self.cond(self.ev(n.test), 'while'):
        try:
            self.block(n.body)
        except _Break:
            _loop_frame(self, k, spec, mw, mm)
            return
        except _Continue:
            pass
        _loop_frame(self, k, spec, mw, mm)
        _establish(self, k, spec, 'preserved')
        if dec0 is not None:
            d1 = spec.decreases(self)
            st.oblige('loop%d-decreases' % k, And(d1 < dec0, dec0 >= 0))
        raise PathEnd('loop-cut')
    else:
        self.block(n.orelse)


def st_For(self, n):
    st = self.st
    it = self.ev(n.iter)
    if isinstance(it, SOpt):
        it = self.unopt(it, 'for')
    # ---- concrete-length sequences: plain iteration, nothing to cut
    if isinstance(it, tuple):
        kk = self.loop_ord.get(id(n)) if self.loop_ord and not self.inlining else None
        if kk is not None:
            st.ghost.setdefault('loops_visited', []).append(kk)
        return _iterate_concrete(self, n, list(it))
    if isinstance(it, MRef) and isinstance(st.mem[it.ident], SList) and st.mem[it.ident].concrete_len() is not None:
        l = st.mem[it.ident]
        return _iterate_concrete(self, n, [l.at(IntVal(j)) for j in range(l.concrete_len())])
    if isinstance(it, GenObj):
        return _for_producer(self, n, it)
    if isinstance(it, MRef) and isinstance(st.mem[it.ident], SList):
        return _for_slist(self, n, st.mem[it.ident])
    if isinstance(it, SList):
        return _for_slist(self, n, it)
    if it is None or isinstance(it, (int, bool)):
        raise PyRaise(ExcVal(TypeError, tag='not-iterable'))
    raise Unsupported('for over %r' % (it,))


def _iterate_concrete(self, n, items):
    for x in items:
        self.assign(n.target, x)
        try:
            self.block(n.body)
        except _Break:
            return
        except _Continue:
            continue
    self.block(n.orelse)


def _for_slist(self, n, lst):
    st = self.st
    k, spec = _spec(self, n)
    st.ghost['$i%d' % k] = IntVal(0)
    _establish(self, k, spec, 'entry')
    targets = source.assigned_names([ast.Assign(targets=[n.target], value=ast.Constant(value=None))])
    i = fresh('fi%d' % k, I)
    st.assume(i >= 0, i <= lst.n)
    st.ghost['$i%d' % k] = i          # BEFORE the cut: the invariant is assumed at the generic index, not at index 0
    _cut(self, k, spec, n, targets)
    self._loop_heap_ids, self._loop_mem_ids = set(st.heap), set(st.mem)
    mw, mm = len(st.writes), len(st.memwrites)
    if st.decide(i < lst.n, 'for-more'):
        self.assign(n.target, lst.at(i))
        try:
            self.block(n.body)
        except _Break:
            _loop_frame(self, k, spec, mw, mm)
            return
        except _Continue:
            pass
        st.ghost['$i%d' % k] = simplify(i + 1)
        _loop_frame(self, k, spec, mw, mm)
        _establish(self, k, spec, 'preserved')
        raise PathEnd('loop-cut')
    else:
        self.block(n.orelse)


def _for_producer(self, n, gen):
    st = self.st
    k, spec = _spec(self, n)
    st.ghost.setdefault('loops_visited', []).append(k)
    gen.contract.start(self, gen)
    _establish(self, k, spec, 'entry')
    targets = source.assigned_names([ast.Assign(targets=[n.target], value=ast.Constant(value=None))])
    _cut(self, k, spec, n, targets)
    gen.contract.havoc_ghost(self, gen)          # the producer is somewhere in its run
    self._loop_heap_ids, self._loop_mem_ids = set(st.heap), set(st.mem)
    mw, mm = len(st.writes), len(st.memwrites)
    step = gen.contract.step(self, gen)          # may raise PyRaise (producer raised)
    mw, mm = len(st.writes), len(st.memwrites)
    if step[0] == 'done':
        self.block(n.orelse)
        return
    self.assign(n.target, step[1])
    try:
        self.block(n.body)
    except _Break:
        hook = getattr(self.fcontract, 'on_loop_break', None)
        if hook is not None:
            hook(self, k)
        gen.contract.drop(self, gen)
        _loop_frame(self, k, spec, mw, mm)
        return
    except _Continue:
        pass
    except (PyRaise, _Return):
        gen.contract.drop(self, gen)
        raise
    _loop_frame(self, k, spec, mw, mm)
    _establish(self, k, spec, 'preserved')
    raise PathEnd('loop-cut')


Interp.st_While = st_While
Interp.st_For = st_For
