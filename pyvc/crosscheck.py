"""CPython cross-check of the verifier's reading of Python (DESIGN 2.6 / 9.6).

For every feasible path the symbolic interpreter finds through a (loop-free, deterministic) function under
contract, a model of the path condition is turned into CONCRETE arguments, the REAL function is called on them
in this CPython, and three things are compared with what the interpreter predicted under that model:
  - normal return vs. exception, and the exception class;
  - the returned value;
  - the post-state of every mutable argument (bytearrays, attributes of the receiver object).
A disagreement means the interpreter (or an assumed library contract it used on that path: struct, bytes
methods, slicing, translate, math.ceil, ...) misreads Python - a CHECKER FAULT (exit 3), never a verdict about
lomond.  This is differential testing of the encoding, not proof; it runs on the tree under verification, so it
keeps guarding the encoding when the code changes.

usage (python3-vt, PYTHONPATH=<tree>:/verif):  python -m pyvc.crosscheck [-v]
"""
import sys, os, time, json, random, traceback
from fractions import Fraction

import z3
from z3 import IntVal, BoolVal, Not

from pyvc import sval
from pyvc.sval import SBytes, MRef, ORef, SOpt, SStr, ExtObj, Opaque, ExcVal, literal_facts, BYTES, BYTEARRAY
from pyvc.engine import State, Interp, Env, Unsupported, PathEnd, PyRaise, _Return, _Break, _Continue
from pyvc.contracts import REG, A
from pyvc import source, driver

MAX_MODELS_PER_PATH = 3


class NotConcretizable(Exception):
    pass


def get_model(st, extra=()):
    """a model of the path's assumptions with every byte-string length small (quantified well-formedness facts are
    instantiated over all indices below the bound, so the model is a genuine one for the strings it describes)"""
    fs = list(st.pc) + list(st.hyps) + literal_facts() + list(extra)
    qf, qs = driver.split_hyps(fs)
    for L in (6, 40, 300):
        s = z3.Solver()
        s.set('timeout', 20000)
        s.set('smt.mbqi', False)
        s.add(*qf)
        for c in driver._int_consts(fs):
            if c.decl().name().endswith('.len'):
                s.add(c <= L)
        K = 4 * (L + 1)
        for q in qs:
            inst = driver.instantiate(q, K)
            if inst:
                s.add(*inst)
        if driver.guarded_check(s, 20000) == z3.sat:
            return s.model()
    return None


# uninterpreted symbols of the encoding whose meaning is fixed by a ground check (pyvc/ground.py) or by definition:
# under a model they are evaluated by Python, not by the model's arbitrary interpretation
INTERP = {'xor8': lambda a, b: a ^ b, 'pow2': lambda k: 2 ** k if k >= 0 else None}


def _find_interp(t, seen):
    """an application of an INTERP symbol none of whose arguments contains another one"""
    if t.get_id() in seen:
        return None
    seen.add(t.get_id())
    if z3.is_quantifier(t) or z3.is_var(t):
        return None
    for c in t.children():
        r = _find_interp(c, seen)
        if r is not None:
            return r
    if z3.is_app(t) and t.num_args() > 0 and t.decl().kind() == z3.Z3_OP_UNINTERPRETED and t.decl().name() in INTERP:
        return t
    return None


def _uninterpreted(t):
    stack, seen = [t], set()
    while stack:
        x = stack.pop()
        if x.get_id() in seen or z3.is_quantifier(x) or z3.is_var(x):
            continue
        seen.add(x.get_id())
        if z3.is_app(x) and x.num_args() > 0 and x.decl().kind() == z3.Z3_OP_UNINTERPRETED:
            return x.decl().name()
        stack.extend(x.children())
    return None


def _uninterpreted_any(t):
    stack, seen = [t], set()
    while stack:
        x = stack.pop()
        if x.get_id() in seen or z3.is_var(x):
            continue
        seen.add(x.get_id())
        if z3.is_quantifier(x):
            stack.append(x.body())
            continue
        if z3.is_app(x) and x.num_args() > 0 and x.decl().kind() == z3.Z3_OP_UNINTERPRETED and x.decl().name() not in INTERP:
            return x.decl().name()
        stack.extend(x.children())
    return None


def _consts(fs):
    out, stack, seen = set(), list(fs), set()
    while stack:
        x = stack.pop()
        if x.get_id() in seen or z3.is_var(x):
            continue
        seen.add(x.get_id())
        if z3.is_quantifier(x):
            stack.append(x.body())
            continue
        if z3.is_const(x) and x.decl().kind() == z3.Z3_OP_UNINTERPRETED:
            out.add(x.decl().name())
        stack.extend(x.children())
    return out


def num(m, t):
    while True:
        app = _find_interp(t, set())
        if app is None:
            break
        val = INTERP[app.decl().name()](*[num(m, x) for x in app.children()])
        if val is None:
            raise NotConcretizable('%s outside its domain' % app.decl().name())
        t = z3.substitute(t, (app, IntVal(val)))
    u = _uninterpreted(t)
    if u is not None:
        raise NotConcretizable('depends on the uninterpreted symbol %s' % u)
    v = m.eval(t, model_completion=True)
    if z3.is_int_value(v):
        return v.as_long()
    if z3.is_rational_value(v):
        return Fraction(v.numerator_as_long(), v.denominator_as_long())
    if z3.is_true(v):
        return True
    if z3.is_false(v):
        return False
    if z3.is_algebraic_value(v):
        raise NotConcretizable('algebraic number')
    raise NotConcretizable('term %s' % v.sort())


class _Dummy:
    """stands for an external object (socket, selector, ...) the cross-checked functions must not touch"""
    def __init__(self, kind):
        self._kind = kind

    def __getattr__(self, k):
        raise NotConcretizable('the real code touched the external %s.%s' % (self.__dict__.get('_kind'), k))


def refine_model(st, m, bound, old):
    """second phase: pin every byte-string argument to its value in m and add the TRUE values of the INTERP symbols
    on the bytes involved, so that values a callee contract defines through them (mask_payload's post-state) are the
    real ones; the refined model is a model of the same path"""
    pins, vals = [], set()
    for v in bound.values():
        b = v if isinstance(v, SBytes) else (old.mem.get(v.ident) if isinstance(v, MRef) else None)
        if b is None:
            continue
        n = num(m, sval.iv(b.n)) if z3.is_expr(b.n) else b.n
        if n > 2000:
            raise NotConcretizable('byte string of %d bytes' % n)
        if z3.is_expr(b.n):
            pins.append(b.n == n)
        for i in range(n):
            x = b.at(IntVal(i))
            if z3.is_expr(x):
                xv = num(m, x)
                pins.append(x == xv)
                vals.add(xv)
            else:
                vals.add(x)
    if not pins:
        return m
    from pyvc.externals import xor8
    vals = sorted(x for x in vals if 0 <= x < 256)
    facts = [xor8(IntVal(a), IntVal(b)) == (a ^ b) for a in vals for b in vals] if len(vals) ** 2 <= 70000 else []
    m2 = get_model(st, pins + facts)
    if m2 is None:
        raise NotConcretizable('no refined model')
    return m2


class Concretizer:
    def __init__(self, st, m):
        self.st, self.m = st, m
        self.objs = {}        # oid -> real object   (identity preserved)
        self.mems = {}        # ident -> real bytearray

    def bytes_(self, b):
        n = num(self.m, sval.iv(b.n)) if z3.is_expr(b.n) else b.n
        if n > 70000:
            raise NotConcretizable('byte string of %d bytes' % n)
        vals = []
        for i in range(n):
            x = b.at(IntVal(i))
            x = num(self.m, x) if z3.is_expr(x) else x
            if not 0 <= x < 256:
                raise NotConcretizable('byte out of range in the model (%r)' % x)
            vals.append(x)
        return bytes(vals)

    def value(self, v, heap, mem):
        """heap: oid -> field dict, mem: ident -> SBytes (of the state to be concretized: pre or post)"""
        if v is None or isinstance(v, (bool, int, float, str, bytes, Fraction)):
            return v
        if z3.is_expr(v):
            return num(self.m, v)
        if isinstance(v, SBytes):
            b = self.bytes_(v)
            return bytearray(b) if v.kind == BYTEARRAY else b
        if isinstance(v, MRef):
            if v.ident not in self.mems:
                self.mems[v.ident] = bytearray(self.bytes_(mem[v.ident]))
            return self.mems[v.ident]
        if isinstance(v, ORef):
            if v.oid not in self.objs:
                cls = self.st.heap[v.oid].cls
                o = cls.__new__(cls)
                self.objs[v.oid] = o
                for f, x in heap[v.oid].items():
                    if f.startswith('$'):
                        continue
                    object.__setattr__(o, f, self.value(x, heap, mem))
            return self.objs[v.oid]
        if isinstance(v, SOpt):
            return None if num(self.m, v.is_none) else self.value(v.val, heap, mem)
        if isinstance(v, tuple):
            return tuple(self.value(x, heap, mem) for x in v)
        if isinstance(v, type):
            return v
        if isinstance(v, SStr):
            return v.text if v.text is not None else 'text-%d' % v.t.get_id()
        if isinstance(v, ExtObj):
            if v.kind == 'lock':
                import threading
                return threading.RLock()
            return _Dummy(v.kind)
        if type(v).__name__ == 'SDictV':
            return {}
        if isinstance(v, Opaque):
            return _Dummy(v.tag)
        raise NotConcretizable(type(v).__name__)


def same(x, y):
    if isinstance(x, (bytes, bytearray)) and isinstance(y, (bytes, bytearray)):
        return bytes(x) == bytes(y)
    if isinstance(x, tuple) and isinstance(y, tuple):
        return len(x) == len(y) and all(same(a, b) for a, b in zip(x, y))
    if isinstance(x, bool) or isinstance(y, bool):
        return type(x) is type(y) and x == y
    if type(x) is type(y) and type(x).__module__.startswith('lomond'):
        names = set(getattr(x, '__dict__', {})) | set(getattr(y, '__dict__', {}))
        for kls in type(x).__mro__:
            names |= set(getattr(kls, '__slots__', ()))
        return all(same(getattr(x, n, None), getattr(y, n, None)) for n in names)
    return x == y


def run_paths(c, variant):
    """symbolic paths of the body of c.qual: [(st, a, old, kind, res)]"""
    func = source.unwrap(source.resolve(c.qual))
    node, ms = source.node_of(func)
    yo, _ = source.yield_ordinals(node)
    lo, _ = source.loop_ordinals(node)
    out = []

    def task(st):
        ip = Interp(st, REG, fcontract=c)
        ip.yield_ord, ip.loop_ord, ip.top_node = yo, lo, node
        try:
            bound = c.setup(ip, variant)
            a = A(bound)
            for f in c.axioms(ip, a):
                st.assume(f)
            for item in c.requires(ip, a):
                st.assume(item[1])
            if not st.feasible():
                return None
            st.writes, st.memwrites = [], []
            st.ghost['allocated'] = []
            old = st.snapshot()
            ip.old, ip.args = old, a
            env = Env(None, func.__globals__, func)
            env.vars.update(bound)
            ip.env = env
            try:
                ip.block(node.body)
                res, kind = None, 'return'
            except _Return as r:
                res, kind = r.value, 'return'
            except PyRaise as pr:
                res, kind = pr.exc, 'raise'
            if st.feasible():
                out.append((st, bound, old, kind, res))
        except (PathEnd, Unsupported, _Break, _Continue):
            pass
        return None

    driver.explore(task)
    return out, func


def diversify(st, bound, k):
    """extra constraints steering the k-th model of a path to different inputs (best effort; dropped if unsat)"""
    rnd = random.Random(k * 7919 + 13)
    ex = []
    for v in bound.values():
        if z3.is_expr(v) and z3.is_int(v):
            ex.append(v % 3 == rnd.randrange(3))
        b = v if isinstance(v, SBytes) else (st.mem.get(v.ident) if isinstance(v, MRef) else None)
        if isinstance(b, SBytes) and z3.is_expr(b.n):
            ex.append(b.n >= rnd.choice([1, 3, 5]))
            ex.append(b.at(IntVal(0)) == rnd.randrange(256))
            ex.append(b.at(IntVal(2)) >= 128)
    return ex


def call_real(func, qual, args):
    """call the real function; methods get their receiver as first argument; classmethods their class"""
    raw = source.resolve(qual)
    f = source.unwrap(raw)
    args = dict(args)
    if 'cls' in args:
        args.pop('cls')
        owner = source.owner_class(qual) if hasattr(source, 'owner_class') else None
        return getattr(owner, f.__name__)(**args)
    return f(**args)


def owner_of(qual):
    mod, _, rest = qual.partition('.')
    import importlib
    parts = qual.split('.')
    for i in range(len(parts) - 1, 0, -1):
        try:
            m = importlib.import_module('.'.join(parts[:i]))
        except ImportError:
            continue
        o = m
        for p in parts[i:-1]:
            o = getattr(o, p)
        return o
    raise LookupError(qual)


def check_function(qual, variants=None, verbose=False):
    c = REG.contracts[qual]
    stats = dict(qual=qual, paths=0, compared=0, skipped=0, mismatches=[])
    for v in c.variants():
        if variants is not None and v not in variants:
            continue
        paths, func = run_paths(c, v)
        for st, bound, old, kind, res in paths:
            stats['paths'] += 1
            u = next((w for w in (_uninterpreted_any(f) for f in st.pc) if w), None)
            if u is None:
                # ... or by a value a callee contract ties to such a symbol (valid == dfa_run(...) != REJECT)
                pcc = _consts(st.pc)
                for h in st.hyps:
                    w = _uninterpreted_any(h)
                    if w and (_consts([h]) & pcc):
                        u = w
                        break
            if u is not None:
                # which way this path branches is decided by a symbol the model may interpret freely (text decoding,
                # digests, ...): the concrete run could not be expected to follow it
                stats['skipped'] += 1
                stats.setdefault('skipped_why', set()).add('path condition depends on the uninterpreted symbol %s' % u)
                continue
            for k in range(MAX_MODELS_PER_PATH):
                m = get_model(st, diversify(st, bound, k) if k else ())
                if m is None:
                    if k == 0:
                        stats['skipped'] += 1
                    continue
                try:
                    m = refine_model(st, m, bound, old)
                    cz = Concretizer(st, m)
                    heap0 = old.heap
                    args = {n: cz.value(x, heap0, old.mem) for n, x in bound.items()}
                    shown = {n: repr(x)[:200] for n, x in args.items()}
                    # ---- the real code
                    owner = owner_of(qual)
                    name = qual.rsplit('.', 1)[1]
                    call = dict(args)
                    if 'cls' in call:
                        call.pop('cls')
                        target = getattr(owner, name)
                    elif 'self' in call:
                        target = getattr(call.pop('self'), name)
                    else:
                        target = getattr(owner, name)
                    try:
                        real, rkind = target(**call), 'return'
                    except Exception as e:       # noqa
                        real, rkind = e, 'raise'
                    # ---- the prediction
                    problems = []
                    if rkind != kind:
                        problems.append('interpreter: %s, CPython: %s (%r)' % (kind, rkind, real))
                    elif kind == 'raise':
                        pc = res.cls if isinstance(res, ExcVal) else None
                        if pc is not None and type(real) is not pc:
                            problems.append('exception class: interpreter %s, CPython %s' % (pc.__name__, type(real).__name__))
                    else:
                        cz2 = Concretizer(st, m)
                        heap1 = {oid: dict(o.f) for oid, o in st.heap.items()}
                        pred = cz2.value(res, heap1, st.mem)
                        if not same(pred, real):
                            problems.append('result: interpreter %r, CPython %r' % (pred, real))
                    if rkind == kind:
                        # post-state of mutable arguments
                        cz3 = Concretizer(st, m)
                        heap1 = {oid: dict(o.f) for oid, o in st.heap.items()}
                        for n, x in bound.items():
                            if isinstance(x, MRef):
                                pred = cz3.value(x, heap1, st.mem)
                                if bytes(pred) != bytes(args[n]):
                                    problems.append('bytearray %s afterwards: interpreter %r, CPython %r' % (n, bytes(pred), bytes(args[n])))
                            elif isinstance(x, ORef):
                                for f, fx in heap1[x.oid].items():
                                    if f.startswith('$'):
                                        continue
                                    try:
                                        pv = cz3.value(fx, heap1, st.mem)
                                    except NotConcretizable:
                                        continue
                                    rv = getattr(args[n], f, None)
                                    if isinstance(fx, (ORef, MRef)) or not isinstance(pv, (type(None), bool, int, Fraction, bytes, bytearray, str, tuple)):
                                        continue
                                    if not same(pv, rv):
                                        problems.append('%s.%s afterwards: interpreter %r, CPython %r' % (n, f, pv, rv))
                    stats['compared'] += 1
                    if problems:
                        stats['mismatches'].append(dict(variant=v, inputs=shown, problems=problems,
                                                        trace=' '.join(st.trace[-10:])))
                    if verbose:
                        print('   ', qual.rsplit('.', 2)[-2:], v, kind, 'ok' if not problems else problems)
                except NotConcretizable as e:
                    stats['skipped'] += 1
                    if verbose:
                        print('    skip', qual, v, e)
    return stats


# functions whose bodies are loop-free and deterministic given their arguments (no clock, no randomness, no I/O)
TARGETS = [
    ('contracts.frame', 'lomond.mask.mask_payload', None),
    ('contracts.frame', 'lomond.frame.Frame.build', ['bytes-masked-key', 'bytearray-masked-key', 'bytes-unmasked-nokey', 'bytearray-unmasked-nokey']),
    ('contracts.frame', 'lomond.frame.Frame.build_close_payload', ['none-bytes', 'code-bytes']),
    ('contracts.frame', 'lomond.frame.Frame.validate_reserved_bits', None),
    ('contracts.frame', 'lomond.frame.CompressedFrame.validate_reserved_bits', None),
    ('contracts.frame', 'lomond.frame.Frame.validate', None),
    ('contracts.session_misc', 'lomond.session.WebsocketSession._check_poll', None),
    ('contracts.session_misc', 'lomond.session.WebsocketSession._check_ping_timeout', None),
    ('contracts.session_misc', 'lomond.session.WebsocketSession._check_close_timeout', None),
    ('contracts.message', 'lomond.message.Close.from_payload', None),
    ('contracts.utf8', 'lomond.utf8validator.Utf8Validator.reset', None),
]


def main(argv):
    verbose = '-v' in argv
    as_json = '--json' in argv
    pid = argv[argv.index('--property') + 1] if '--property' in argv else None
    import importlib
    t0 = time.time()
    total = dict(functions=0, paths=0, compared=0, skipped=0, mismatches=[])
    per = []
    for mod, qual, variants in TARGETS:
        importlib.import_module(mod)
        if qual not in REG.contracts or (pid is not None and pid not in REG.contracts[qual].serves):
            continue
        try:
            s = check_function(qual, variants, verbose)
        except Exception as e:
            s = dict(qual=qual, paths=0, compared=0, skipped=0, mismatches=[], error='%s: %s' % (type(e).__name__, e))
            if verbose:
                traceback.print_exc()
        per.append(s)
        total['functions'] += 1
        for k in ('paths', 'compared', 'skipped'):
            total[k] += s[k]
        total['mismatches'] += [dict(m, qual=qual) for m in s['mismatches']]
        (sys.stderr if as_json else sys.stdout).write('crosscheck %-60s paths=%d compared=%d skipped=%d mismatches=%d%s\n' % (
            qual, s['paths'], s['compared'], s['skipped'], len(s['mismatches']), (' ERROR ' + s['error']) if s.get('error') else ''))
    total['wall_s'] = round(time.time() - t0, 1)
    for s_ in per:
        s_['skipped_why'] = sorted(s_.get('skipped_why', ()))
    total['per_function'] = per
    if as_json:
        print(json.dumps(dict(functions=[s_['qual'] for s_ in per], paths=total['paths'], compared=total['compared'], skipped=total['skipped'],
                              skipped_why=sorted(set(w for s_ in per for w in s_.get('skipped_why', []))), wall_s=total['wall_s'],
                              mismatches=total['mismatches'],
                              method='model of each symbolic path -> concrete arguments -> the real function under CPython; result, exception class and '
                                     'post-state of mutable arguments compared with the interpreter\'s prediction (differential test of the encoding, not proof)')))
    else:
        print(json.dumps(dict(summary={k: total[k] for k in ('functions', 'paths', 'compared', 'skipped', 'wall_s')},
                              mismatches=total['mismatches']), indent=1)[:4000])
    return 3 if total['mismatches'] else 0


if __name__ == '__main__':
    sys.exit(main(sys.argv[1:]))
