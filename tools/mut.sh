#!/bin/bash
# usage: tools_mut.sh '<sed expr>' file modules quals...   (dev helper: mutate a scratch copy, run dev_run on it)
set -e
D=$(mktemp -d /tmp/lomond-scratch-XXXX)
cp -r /repo/lomond $D/
sed -i "$1" $D/lomond/$2
diff -u /repo/lomond/$2 $D/lomond/$2 | grep '^[-+]' | grep -v '^---\|^+++' || echo "NO CHANGE"
shift 2
cd /verif && LOMOND_ROOT=$D PYTHONPATH=$D:/verif timeout 900 python3-vt -u tools/dev_run.py "$@" 2>&1
rm -rf $D
