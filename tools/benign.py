#!/usr/bin/env python3
"""Behaviour-preserving edits of lomond (renamed locals, reordered independent statements, equivalent
expressions, added logging, inverted if/else).  tools/benign_eval.sh applies each to a scratch worktree and
runs the named checks there: every one of them must still exit 0 - a check that goes red, undecided or
faulty on one of these is brittle (a false alarm in waiting), not strong.

usage: benign.py <name> <worktree>     apply variant <name> in place
       benign.py --list                names and checks
"""
import sys, os, re

V = {}


def variant(name, checks):
    def deco(fn):
        V[name] = (checks.split(), fn)
        return fn
    return deco


class Ed:
    def __init__(self, root):
        self.root = root

    def sub(self, rel, old, new, count=1):
        p = os.path.join(self.root, rel)
        s = open(p).read()
        assert s.count(old) == count, (rel, old, s.count(old))
        open(p, 'w').write(s.replace(old, new))

    def word(self, rel, old, new, within=None):
        """rename identifier `old` to `new` (whole words) inside the function whose def line contains `within`"""
        p = os.path.join(self.root, rel)
        lines = open(p).read().split('\n')
        i0 = next(i for i, l in enumerate(lines) if within in l)
        ind = len(lines[i0]) - len(lines[i0].lstrip())
        i1 = i0 + 1
        while i1 < len(lines) and (not lines[i1].strip() or len(lines[i1]) - len(lines[i1].lstrip()) > ind
                                   or lines[i1].lstrip().startswith(')')):
            i1 += 1
        n = 0
        for i in range(i0, i1):
            new_l = re.sub(r'(?<![\w.])%s\b' % re.escape(old), new, lines[i])
            n += new_l != lines[i]
            lines[i] = new_l
        assert n, (rel, old)
        open(p, 'w').write('\n'.join(lines))


@variant('build-restyle', 'C03')
def _(e):
    f = 'lomond/frame.py'
    e.sub(f, """        mask_bit = 1 << 7 if mask else 0
        byte0 = fin << 7 | rsv1 << 6 | rsv2 << 5 | rsv3 << 4 | opcode
        length = len(payload)
""", """        length = len(payload)
        byte0 = (fin << 7) | (rsv1 << 6) | (rsv2 << 5) | (rsv3 << 4) | opcode
        mask_bit = 0x80 if mask else 0
""")
    e.word(f, 'byte0', 'first', 'def build(cls, opcode')
    e.word(f, 'header_bytes', 'head', 'def build(cls, opcode')
    e.sub(f, "elif length < (1 << 16):", "elif length <= 0xFFFF:")
    e.sub(f, """            frame_bytes = head + bytes(payload)
        return frame_bytes
""", """            return head + bytes(payload)
        return frame_bytes
""")


@variant('close-payload-restyle', 'C03 C08')
def _(e):
    e.sub('lomond/frame.py', """        if not isinstance(reason, bytes):
            reason = reason.encode('utf-8', errors='replace')
        if status is None:
            return b''
        payload_bytes = cls._pack_close_code(status) + reason
        return payload_bytes
""", """        if status is None:
            return b''
        if not isinstance(reason, bytes):
            reason = reason.encode('utf-8', errors='replace')
        return cls._pack_close_code(status) + reason
""")


@variant('parse-restyle', 'C01 C02 C04 C05')
def _(e):
    f = 'lomond/frame_parser.py'
    e.sub(f, """            fin = byte1 >> 7
            rsv1 = (byte1 >> 6) & 1
            rsv2 = (byte1 >> 5) & 1
            rsv3 = (byte1 >> 4) & 1
            opcode = byte1 & 0b00001111
            mask_bit = byte2 >> 7
            payload_length = byte2 & 0b01111111
""", """            opcode = byte1 & 0x0F
            rsv3 = (byte1 >> 4) & 1
            rsv2 = (byte1 >> 5) & 1
            rsv1 = (byte1 >> 6) & 1
            fin = byte1 >> 7
            payload_length = byte2 & 0x7F
            mask_bit = byte2 >> 7
            log.debug('frame header %02x %02x', byte1, byte2)
""")
    e.word(f, 'payload_length', 'size', 'def parse(self):')
    e.word(f, '_is_text_continuation', 'continues_text', 'def parse(self):')


@variant('on-frame-restyle', 'C05 C01')
def _(e):
    e.sub('lomond/frame_parser.py', """        if frame.fin and not frame.is_control:
            self._is_text = False
""", """        if frame.is_control or not frame.fin:
            return
        self._is_text = False
""")


@variant('stream-feed-restyle', 'C01 C04')
def _(e):
    f = 'lomond/stream.py'
    e.word(f, 'iter_frames', 'frames_iter', 'def feed(self, data):')
    e.sub(f, """            if frame.is_control:
                # Control messages are never fragmented
                # And may be sent in the middle of a multi-part message
                yield self.build_message([frame])
            else:
                # May be fragmented
                if frame.is_continuation and not self._frames:
                    raise errors.ProtocolError(
                        'continuation frame has nothing to continue'
                    )
                if not frame.is_continuation and self._frames:
                    raise errors.ProtocolError(
                        'continuation frame expected'
                    )
                self._frames.append(frame)
                if frame.fin:
                    yield self.build_message(self._frames)
                    del self._frames[:]
""", """            if not frame.is_control:
                # May be fragmented
                pending = bool(self._frames)
                if frame.is_continuation and not pending:
                    raise errors.ProtocolError(
                        'continuation frame has nothing to continue'
                    )
                if pending and not frame.is_continuation:
                    raise errors.ProtocolError(
                        'continuation frame expected'
                    )
                self._frames.append(frame)
                if frame.fin:
                    yield self.build_message(self._frames)
                    del self._frames[:]
                continue
            # Control messages are never fragmented
            # And may be sent in the middle of a multi-part message
            yield self.build_message([frame])
""")


@variant('parser-feed-restyle', 'C01 C02')
def _(e):
    f = 'lomond/parser.py'
    e.word(f, 'chunk_size', 'taken', 'def feed(self, data):')
    e.word(f, 'sep_index', 'cut', 'def feed(self, data):')
    e.sub(f, """                chunk = data[pos:pos + remaining]
                taken = len(chunk)
                pos += taken
""", """                end = pos + remaining
                chunk = data[pos:end]
                taken = len(chunk)
                pos = pos + taken
""")


@variant('write-restyle', 'C03 C11 C12 C09')
def _(e):
    f = 'lomond/session.py'
    e.sub(f, """            if self.websocket.is_closed:
                log.debug('WebSocket closed; data not sent')
                raise errors.WebSocketClosed('data not sent')
            if self.websocket.is_closing:
                log.debug('WebSocket closing; data not sent')
                raise errors.WebSocketClosing('data not sent')
""", """            websocket = self.websocket
            if websocket.is_closed:
                log.debug('WebSocket closed; data not sent')
                raise errors.WebSocketClosed('data not sent')
            elif websocket.is_closing:
                log.debug('WebSocket closing; data not sent')
                raise errors.WebSocketClosing('data not sent')
            log.debug('writing %d bytes', len(data))
""")
    e.sub(f, """        frame = Frame(opcode, payload=bytearray(data))
        self.write(frame.to_bytes(), closing=(opcode == Opcode.CLOSE))
""", """        is_close = opcode == Opcode.CLOSE
        frame = Frame(opcode, payload=bytearray(data))
        frame_bytes = frame.to_bytes()
        self.write(frame_bytes, closing=is_close)
""")


@variant('run-restyle', 'C07 C09 C13 C15 C18')
def _(e):
    f = 'lomond/session.py'
    e.sub(f, """                readable, max_bytes = selector.wait(self.BUFFER_SIZE, poll)
                for event in _regular():
                    yield event
                if readable:
                    data = self._recv(max_bytes)
                    if data:
""", """                ready, count = selector.wait(self.BUFFER_SIZE, poll)
                for event in _regular():
                    yield event
                if ready:
                    data = self._recv(count)
                    if len(data) > 0:
                        log.debug('received %d bytes', len(data))
""")
    e.sub(f, """        if self._check_poll(poll, self.session_time):
            yield events.Poll()
""", """        is_poll = self._check_poll(poll, self.session_time)
        if is_poll:
            yield events.Poll()
""")


@variant('checks-restyle', 'C15')
def _(e):
    f = 'lomond/session.py'
    e.sub(f, """        _time = session_time
        if self._poll_start is None or _time - self._poll_start >= poll:
            self._poll_start = _time
            return True
        else:
            return False
""", """        if self._poll_start is not None and session_time - self._poll_start < poll:
            return False
        self._poll_start = session_time
        return True
""")
    e.sub(f, """            time_since_last_pong = session_time - self._last_pong
            if time_since_last_pong > ping_timeout:
""", """            if session_time - self._last_pong > ping_timeout:
""")


@variant('websocket-feed-restyle', 'C01 C08 C14 C10')
def _(e):
    f = 'lomond/websocket.py'
    e.sub(f, """                    if message.is_close:
                        for event in self._on_close(message):
                            yield event
                    elif message.is_ping:
                        yield events.Ping(message.data)
                    elif message.is_pong:
                        yield events.Pong(message.data)
                    elif message.is_binary:
                        yield events.Binary(message.data)
                    elif message.is_text:
                        yield events.Text(message.text)
""", """                    if message.is_ping:
                        yield events.Ping(message.data)
                    elif message.is_pong:
                        yield events.Pong(message.data)
                    elif message.is_close:
                        for close_event in self._on_close(message):
                            yield close_event
                    elif message.is_text:
                        yield events.Text(message.text)
                    elif message.is_binary:
                        yield events.Binary(message.data)
""")


@variant('on-close-restyle', 'C08 C12')
def _(e):
    e.sub('lomond/websocket.py', """        if self.is_closing:
            yield events.Closed(message.code, message.reason)
            self.state.closed = True
            self.state.closing = False
        else:
            yield events.Closing(message.code, message.reason)
            self.close(message.code, message.reason)
            self.state.closing = True
""", """        code, reason = message.code, message.reason
        if not self.is_closing:
            yield events.Closing(code, reason)
            self.close(code, reason)
            self.state.closing = True
        else:
            yield events.Closed(code, reason)
            self.state.closed = True
            self.state.closing = False
""")


@variant('send-restyle', 'C03 C06 C11')
def _(e):
    f = 'lomond/websocket.py'
    e.sub(f, """        payload = text.encode('utf-8')
        if compress and self.state.compression:
            self.session.send_compressed(
                Opcode.TEXT, payload, self.state.compression.compress
            )
        else:
            self.session.send(Opcode.TEXT, payload)
""", """        payload = text.encode('utf-8')
        compression = self.state.compression
        if not (compress and compression):
            self.session.send(Opcode.TEXT, payload)
            return
        self.session.send_compressed(
            Opcode.TEXT, payload, compression.compress
        )
""")


@variant('compression-restyle', 'C06')
def _(e):
    f = 'lomond/compression.py'
    e.sub(f, """        data = (
            self._compressobj.compress(payload)
            + self._compressobj.flush(zlib.Z_SYNC_FLUSH)
        )[:-4]
        if self.reset_compress:
            self.reset_compressor()
        return data
""", """        body = self._compressobj.compress(payload)
        tail = self._compressobj.flush(zlib.Z_SYNC_FLUSH)
        deflated = (body + tail)[:-4]
        if self.reset_compress:
            self.reset_compressor()
        return deflated
""")
    e.sub(f, """        payload = b''.join(data)
        if self.reset_decompress or self._decompressobj.eof:
""", """        payload = b''.join(data)
        log.debug('inflated %d bytes', len(payload))
        if self._decompressobj.eof or self.reset_decompress:
""")


@variant('persist-restyle', 'C16 C17')
def _(e):
    f = 'lomond/persist.py'
    e.word(f, 'retries', 'attempt', 'def persist(')
    e.word(f, 'wait_for', 'delay', 'def persist(')
    e.sub(f, """        if exit_event.wait(delay):
            break
""", """        stop = exit_event.wait(delay)
        if stop:
            return
""")


@variant('validate-restyle', 'C04')
def _(e):
    e.sub('lomond/frame.py', """        if self.is_control and len(self.payload) > 125:
            raise errors.ProtocolError(
                "control frames must be <= 125 bytes in length"
            )
        self.validate_reserved_bits()
        if is_reserved(self.opcode):
            raise errors.ProtocolError(
                "opcode is reserved"
            )
        if not self.fin and self.is_control:
            raise errors.ProtocolError(
                "control frames may not be fragmented"
            )
""", """        control = self.is_control
        if is_reserved(self.opcode):
            raise errors.ProtocolError(
                "opcode is reserved"
            )
        if control and not self.fin:
            raise errors.ProtocolError(
                "control frames may not be fragmented"
            )
        if control and len(self.payload) > 125:
            raise errors.ProtocolError(
                "control frames must be <= 125 bytes in length"
            )
        self.validate_reserved_bits()
""")


@variant('message-build-restyle', 'C01 C06')
def _(e):
    e.sub('lomond/message.py', """        first_frame = frames[0]
        opcode = first_frame.opcode
        if first_frame.rsv1 and decompress:
            payload = cls.decompress_frames(frames, decompress)
        else:
            payload = b''.join(bytes(frame.payload) for frame in frames)
        if opcode == Opcode.BINARY:
            return Binary(payload)
        elif opcode == Opcode.TEXT:
            return Text.from_payload(payload)
        elif opcode == Opcode.CLOSE:
            return Close.from_payload(payload)
        elif opcode == Opcode.PING:
            return Ping(payload)
        elif opcode == Opcode.PONG:
            return Pong(payload)
        else:
            return Message(opcode)
""", """        head = frames[0]
        kind = head.opcode
        compressed = bool(head.rsv1 and decompress)
        if not compressed:
            data = b''.join(bytes(frame.payload) for frame in frames)
        else:
            data = cls.decompress_frames(frames, decompress)
        if kind == Opcode.TEXT:
            return Text.from_payload(data)
        if kind == Opcode.BINARY:
            return Binary(data)
        if kind == Opcode.PING:
            return Ping(data)
        if kind == Opcode.PONG:
            return Pong(data)
        if kind == Opcode.CLOSE:
            return Close.from_payload(data)
        return Message(kind)
""")


@variant('on-response-restyle', 'C10')
def _(e):
    f = 'lomond/websocket.py'
    e.word(f, 'upgrade_header', 'upgrade', 'def on_response(self, response):')
    e.word(f, 'accept_header', 'accept', 'def on_response(self, response):')
    e.word(f, 'challenge', 'expected', 'def on_response(self, response):')
    e.sub(f, """        protocol = response.get('sec-websocket-protocol')
        extensions = self.process_extensions(
            response.get_list('sec-websocket-extensions')
        )
        return protocol, extensions
""", """        extensions = self.process_extensions(
            response.get_list('sec-websocket-extensions')
        )
        protocol = response.get('sec-websocket-protocol')
        return (protocol, extensions)
""")


@variant('connect-sock-restyle', 'C09 C19')
def _(e):
    f = 'lomond/session.py'
    e.word(f, 'res', 'info', 'def _connect_sock(self, host, port, ssl=False):')
    e.word(f, 'sa', 'address', 'def _connect_sock(self, host, port, ssl=False):')
    e.word(f, 'canonname', '_name', 'def _connect_sock(self, host, port, ssl=False):')


@variant('send-compressed-restyle', 'C03 C06 C11')
def _(e):
    e.sub('lomond/session.py', """        with self._lock:
            if compress is not None:
                data = compress(data)
            frame = Frame(opcode, payload=bytearray(data), rsv1=1)
            self.write(frame.to_bytes())
""", """        with self._lock:
            deflated = data if compress is None else compress(data)
            frame = Frame(opcode, payload=bytearray(deflated), rsv1=1)
            wire = frame.to_bytes()
            self.write(wire)
""")


@variant('close-restyle', 'C08 C12 C03')
def _(e):
    e.sub('lomond/websocket.py', """        if self.is_closed:
            log.debug('%r already closed', self)
        else:
            if not self.is_closing:
                self._send_close(code, reason)
                self.state.closing = True
                self.state.sent_close_time = self.session.session_time
""", """        if self.is_closed:
            log.debug('%r already closed', self)
            return
        if self.is_closing:
            return
        self._send_close(code, reason)
        self.state.closing = True
        self.state.sent_close_time = self.session.session_time
""")


if __name__ == '__main__':
    if sys.argv[1] == '--list':
        for k, (c, _f) in V.items():
            print(k, ' '.join(c))
    else:
        V[sys.argv[1]][1](Ed(sys.argv[2]))
