#!/usr/bin/env python3
"""tools/fncheck.py <qualified function> [...]: verify only these functions' bodies against their contracts (all variants,
all tags, no replay) on the tree LOMOND_ROOT points at; prints one line per function:
  <qual> proved=<n> refuted=<n> undecided=<n> [first refuted obligations]
exit 1 if anything is refuted, 2 if something is undecided / faulty, 0 otherwise.  Used by the mutation campaign."""
import sys, os, json
sys.path.insert(0, '/verif')
from pyvc import check


def main(argv):
    reg = check.load_contracts()
    quals = []
    for q in argv:
        m = [x for x in reg.contracts if x == q or x.endswith('.' + q)]
        if not m:
            print('%s: no contract' % q)
            return 2
        quals.append(m[0])
    jobs = [('fn', q, 20000, False, vi) for q in quals for vi in range(len(reg.contracts[q].variants()))]
    results = check.run_jobs(jobs, int(os.environ.get('PYVC_JOBS', '16')), 300)
    wave = []
    for job, r in zip(jobs, results):
        for vi, prefix in r.get('pending', []):
            wave.append(('fn', job[1], job[2], job[3], vi, [prefix]))
    if wave:
        results += check.run_jobs(wave, int(os.environ.get('PYVC_JOBS', '16')), 300)
    rc = 0
    for q in quals:
        proved = refuted = und = 0
        first = []
        for r in results:
            if r['qual'] != q:
                continue
            if r.get('error') or r.get('timed_out'):
                und += 1
            for i in r.get('infos', []):
                und += len(i['unsupported'])
            for o in r.get('obligations', []):
                if 'canary' in o['tags']:
                    continue
                if o['verdict'] == 'proved':
                    proved += 1
                elif o['verdict'] == 'refuted':
                    refuted += 1
                    if len(first) < 3 and o['name'] not in first:
                        first.append(o['name'])
                else:
                    und += 1
        print('%s proved=%d refuted=%d undecided=%d %s' % (q, proved, refuted, und, ' ; '.join(first)))
        rc = max(rc, 1 if refuted else (2 if und or not proved else 0)) if rc != 1 else 1
    return rc


if __name__ == '__main__':
    sys.exit(main(sys.argv[1:]))
