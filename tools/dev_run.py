"""dev helper: verify given contracts in-process and print obligations"""
import sys, time, importlib
sys.path.insert(0, '/verif')
from pyvc import driver
from pyvc.contracts import REG
for m in sys.argv[1].split(','):
    importlib.import_module('contracts.' + m)
quals = [x for x in sys.argv[2:] if not x.startswith("-")] or [q for q, c in REG.contracts.items() if not c.external]
for q in quals:
    if q not in REG.contracts: 
        q = [x for x in REG.contracts if x.endswith(q)][0]
    t = time.time()
    out = driver.verify_and_discharge(q)
    print('==', q, 'wall', out['wall_s'])
    if out['error']: print(out['error'])
    for i in out['infos']:
        print('   variant=%s paths=%d feasible=%d cut=%d unsupported=%s' % (i['variant'], i['paths'], i['feasible_paths'], i['cut'], i['unsupported'][:3]))
    can = [o for o in out['obligations'] if 'canary' in o['tags']]
    out['obligations'] = [o for o in out['obligations'] if 'canary' not in o['tags']]
    print('   canaries %d, wrongly proved %d' % (len(can), len([o for o in can if o['verdict']=='proved'])))
    bad = [o for o in out['obligations'] if o['verdict'] != 'proved']
    print('   obligations %d, not proved %d, max ms %.0f' % (len(out['obligations']), len(bad), max([o['ms'] for o in out['obligations']] or [0])))
    for o in bad[:12]:
        print('   !!', o['verdict'], o['name'], 'line', o['line'], (o['info'] or {}).get('trace'), str(o['model'])[:300] if '-v' in sys.argv else '')
    if '-t' in sys.argv:
        for o in sorted(out['obligations'], key=lambda o: -o['ms'])[:15]:
            print('   %7.0f ms %s %s' % (o['ms'], o['name'], o['backend']))
