"""dev helper: verify given contracts (one process per variant) and print grouped results"""
import sys, time, importlib, collections, multiprocessing as mp
sys.path.insert(0, '/verif')
from pyvc import driver
from pyvc.contracts import REG
for m in sys.argv[1].split(','):
    importlib.import_module('contracts.' + m)
args = [x for x in sys.argv[2:] if not x.startswith('-')]
quals = args or [q for q, c in REG.contracts.items() if not c.external]
jobs = []
for q in quals:
    if q not in REG.contracts:
        q = [x for x in REG.contracts if x.endswith(q)][0]
    for vi, v in enumerate(REG.contracts[q].variants()):
        jobs.append((q, vi))
def work(j):
    return driver.verify_and_discharge(j[0], variant_index=j[1])
with mp.get_context('fork').Pool(min(16, len(jobs))) as pool:
    outs = pool.map(work, jobs, chunksize=1)
byq = collections.OrderedDict()
for (q, vi), out in zip(jobs, outs):
    byq.setdefault(q, []).append(out)
for q, lst in byq.items():
    obl = [o for out in lst for o in out['obligations']]
    can = [o for o in obl if 'canary' in o['tags']]
    obl = [o for o in obl if 'canary' not in o['tags']]
    print('==', q, 'wall', max(o['wall_s'] for o in lst))
    for out in lst:
        if out['error']: print(out['error'])
        for i in out['infos']:
            if i['unsupported'] or '-p' in sys.argv:
                print('   variant=%s paths=%d feasible=%d cut=%d unsupported=%s' % (i['variant'], i['paths'], i['feasible_paths'], i['cut'], sorted(set(i['unsupported']))[:4]))
    bad = [o for o in obl if o['verdict'] != 'proved']
    print('   canaries %d (wrongly proved %d); obligations %d, not proved %d, max ms %.0f' % (len(can), len([o for o in can if o['verdict']=='proved']), len(obl), len(bad), max([o['ms'] for o in obl] or [0])))
    groups = collections.OrderedDict()
    for o in bad:
        groups.setdefault((o['verdict'], o['name']), []).append(o)
    for (v, n), os_ in list(groups.items())[:40]:
        o = os_[0]
        print('   !! %s x%d %s  line %s' % (v, len(os_), n, o['line']))
        if '-v' in sys.argv:
            print('        trace:', (o['info'] or {}).get('trace'))
            if '-m' in sys.argv: print('        model:', str(o['model'])[:600])
    if '-t' in sys.argv:
        for o in sorted(obl, key=lambda o: -o['ms'])[:10]:
            print('   %7.0f ms %s %s' % (o['ms'], o['name'], o['backend']))
