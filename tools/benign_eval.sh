#!/bin/bash
# tools/benign_eval.sh [<variant>...]: apply each behaviour-preserving variant of tools/benign.py to a scratch worktree,
# run the repository's tests there (must stay at the baseline) and the variant's checks with LOMOND_ROOT on the
# worktree (each must exit 0), keep the diff under /verif/benign/<name>.diff, remove the worktree.
set -u
cd /verif
NAMES=${*:-$(python3 tools/benign.py --list | cut -d' ' -f1)}
mkdir -p benign
for N in $NAMES; do
  CH=$(python3 tools/benign.py --list | grep "^$N " | cut -d' ' -f2-)
  W=/tmp/benign-$N
  git -C /repo worktree remove --force $W >/dev/null 2>&1
  git -C /repo worktree add -q --detach $W HEAD || exit 2
  python3 tools/benign.py $N $W || { echo "$N: variant does not apply"; git -C /repo worktree remove --force $W; continue; }
  git -C $W diff > benign/$N.diff
  T=$(cd $W; timeout 600 /venv/bin/python -m pytest -q -p no:cacheprovider --timeout=900 2>&1 | tail -1)
  echo "=== $N: tests: $T"
  for C in $CH; do
    PYVC_EVIDENCE_DIR=/tmp/scratch-evidence-$$ LOMOND_ROOT=$W timeout 1500 ./check $C > /tmp/benign-$N.$C.out 2>&1; E=$?
    echo "  $N $C: exit=$E $(tail -1 /tmp/benign-$N.$C.out)"
    [ $E -ne 0 ] && grep -E '^(VIOLATION|UNDECIDED|CHECKER-FAULT)' /tmp/benign-$N.$C.out | head -5 | sed 's/^/     /'
  done
  git -C /repo worktree remove --force $W >/dev/null 2>&1
done
