#!/bin/bash
# tools/seed_eval.sh <PID> <name> [<checks...>]: confirm a sub-agent's seeded change from /tmp/seed-<PID>-out on a fresh
# scratch worktree (tests still pass, demo fails with / passes without), store it under /verif/seeded/<name>, then run our
# check(s) against that scratch tree (LOMOND_ROOT) - equivalent to applying the patch to /repo, without touching /repo.
set -u
PID=$1; NAME=${2:-$PID}; shift; shift || true
CHECKS=${*:-$PID}
OUT=${SEED_OUT:-/tmp/seed-$PID-out}
# the agents' scratch output directories do not survive a fresh restore: fall back to the kept copy
[ -f $OUT/patch.diff ] || OUT=/verif/seeded/$NAME
W=/tmp/seedchk-$NAME
[ -f $OUT/patch.diff ] || { echo "no patch for $PID"; exit 2; }
git -C /repo worktree remove --force $W >/dev/null 2>&1
git -C /repo worktree add -q --detach $W HEAD || exit 2
trap 'git -C /repo worktree remove --force '$W' >/dev/null 2>&1' EXIT
cd $W
D0=$(PYTHONPATH=$W timeout 300 /venv/bin/python $OUT/demo.py >/tmp/seedchk-$NAME.demo0 2>&1; echo $?)
git apply $OUT/patch.diff || { echo "patch does not apply"; exit 2; }
T=$(timeout 600 /venv/bin/python -m pytest -q -p no:cacheprovider --timeout=900 2>&1 | tail -1)
D1=$(PYTHONPATH=$W timeout 300 /venv/bin/python $OUT/demo.py >/tmp/seedchk-$NAME.demo1 2>&1; echo $?)
cd /verif
echo "tests-with-change: $T | demo without change exit=$D0 | demo with change exit=$D1"
mkdir -p /verif/seeded/$NAME
if [ "$OUT" != "/verif/seeded/$NAME" ]; then
  cp $OUT/patch.diff /verif/seeded/$NAME/patch.diff
  cp $OUT/demo.py /verif/seeded/$NAME/demo.py
  [ -f $OUT/notes.md ] && cp $OUT/notes.md /verif/seeded/$NAME/notes.md
fi
RES=""
for C in $CHECKS; do
  PYVC_EVIDENCE_DIR=/tmp/scratch-evidence-$$ LOMOND_ROOT=$W timeout 1500 ./check $C > /tmp/seedchk-$NAME.$C.out 2>&1; E=$?
  V=$(grep -c '^VIOLATION' /tmp/seedchk-$NAME.$C.out)
  NF=$(grep '^VIOLATION' /tmp/seedchk-$NAME.$C.out | grep -vc 'no-failing-input-found')
  F=$(grep '^VIOLATION' /tmp/seedchk-$NAME.$C.out | head -2 | sed 's/.*obligation=//' | tr '\n' ';')
  echo "check $C: exit=$E violations=$V (with replayed failing input: $NF) first: $F"
  tail -1 /tmp/seedchk-$NAME.$C.out
  RES="$RES $C:exit=$E:violations=$V:replayed=$NF"
  FIRST="$F"
done
python3 - <<PY
import json, os
meta=dict(property="$PID", name="$NAME", tests_with_change="""$T""", demo_exit_without_change=$D0, demo_exit_with_change=$D1,
          checks_run="""$RES""".split(), first_obligations=[x for x in """${FIRST:-}""".split(';') if x], source="independent sub-agent given only the property text and a scratch worktree; confirmed here on a fresh worktree of /repo HEAD",
          needs=open("/verif/seeded/$NAME/notes.md").read()[:2000] if os.path.exists("/verif/seeded/$NAME/notes.md") else "")
json.dump(meta, open("/verif/seeded/$NAME/meta.json","w"), indent=1)
PY
