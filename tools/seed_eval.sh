#!/bin/bash
# tools/seed_eval.sh <PID> [<name>] [<checks...>]: confirm a sub-agent's seeded change from /tmp/seed-<PID>-out, store it under
# /verif/seeded/<name>, then run our check(s) against /repo with the change applied and undo it.
set -u
PID=$1; NAME=${2:-$PID}; shift; shift || true
CHECKS=${*:-$PID}
OUT=/tmp/seed-$PID-out
W=/tmp/seedchk-$NAME
[ -f $OUT/patch.diff ] || { echo "no patch for $PID"; exit 2; }
git -C /repo worktree remove --force $W >/dev/null 2>&1
git -C /repo worktree add -q --detach $W HEAD || exit 2
cd $W
D0=$(PYTHONPATH=$W timeout 300 /venv/bin/python $OUT/demo.py >/tmp/seedchk-$NAME.demo0 2>&1; echo $?)
git apply $OUT/patch.diff || { echo "patch does not apply"; git -C /repo worktree remove --force $W; exit 2; }
T=$(timeout 600 /venv/bin/python -m pytest -q -p no:cacheprovider --timeout=900 2>&1 | tail -1)
D1=$(PYTHONPATH=$W timeout 300 /venv/bin/python $OUT/demo.py >/tmp/seedchk-$NAME.demo1 2>&1; echo $?)
cd /verif
git -C /repo worktree remove --force $W
echo "tests-with-change: $T | demo without change exit=$D0 | demo with change exit=$D1"
mkdir -p /verif/seeded/$NAME
cp $OUT/patch.diff /verif/seeded/$NAME/patch.diff
cp $OUT/demo.py /verif/seeded/$NAME/demo.py
[ -f $OUT/notes.md ] && cp $OUT/notes.md /verif/seeded/$NAME/notes.md
# run our checks with the change applied to /repo
trap 'git -C /repo checkout -- . ' EXIT
git -C /repo apply /verif/seeded/$NAME/patch.diff || { echo "cannot apply to /repo"; exit 2; }
RES=""
for C in $CHECKS; do
  timeout 1500 ./check $C > /tmp/seedchk-$NAME.$C.out 2>&1; E=$?
  V=$(grep -c '^VIOLATION' /tmp/seedchk-$NAME.$C.out)
  F=$(grep '^VIOLATION' /tmp/seedchk-$NAME.$C.out | head -2 | sed 's/.*obligation=//' | tr '\n' ';')
  echo "check $C: exit=$E violations=$V first: $F"
  tail -1 /tmp/seedchk-$NAME.$C.out
  RES="$RES $C:exit=$E:violations=$V"
done
git -C /repo checkout -- .
git -C /repo status --short | head -3
python3 - <<PY
import json
meta=dict(property="$PID", name="$NAME", tests_with_change="""$T""", demo_exit_without_change=$D0, demo_exit_with_change=$D1,
          checks_run="""$RES""".split(), source="independent sub-agent given only the property text and a scratch worktree",
          needs=open("/verif/seeded/$NAME/notes.md").read()[:1500] if __import__('os').path.exists("/verif/seeded/$NAME/notes.md") else "")
json.dump(meta, open("/verif/seeded/$NAME/meta.json","w"), indent=1)
PY
