"""(re)generate MANIFEST.json from the table below; validates against the schema"""
import json
import os
import subprocess

VERIF = os.path.dirname(os.path.dirname(os.path.abspath(__file__)))
props = [json.loads(l)['id'] for l in open(os.path.join(VERIF, 'properties.jsonl'))]

TRUST = ("Trusted: the pyvc VC generator's encoding of the Python subset (DESIGN 2.2; guarded by canaries and scratch-copy mutants), "
         "z3/cvc5, CPython semantics incl. GIL atomicity and refcount finalisation, and the assumed contracts of "
         "struct/os.urandom/bytes.decode/str.encode/zlib/socket/selector/threading (pyvc/externals.py, pyvc/extworld.py; "
         "listed per run in evidence.coverage.trusted_base).")

CLAIMED = {
    'C03': dict(
        text="Deductive: sidecar contracts on the real mask_payload, Frame.build, build_close_payload, session.write/send/"
             "send_compressed, send_text/send_binary/send_json/send_ping/send_pong, close/_send_close; every path of every "
             "body is symbolically executed from /repo's current source and each postcondition (taken from the property: the "
             "bytes handed to sendall decode, by an independent RFC 6455 5.2 decoder, to FIN=1, masked, shortest length form, "
             "rsv clear unless compression negotiated+requested, payload XOR key == caller's payload; wrong type/oversize => "
             "TypeError/ValueError and $wire unchanged; caller's buffer in no modifies set) is discharged by z3 for all "
             "lengths 0..2^63-1, keys, opcodes and argument kinds. Callers are checked against callee contracts only.",
        note=TRUST + " close()'s contract assumes code in 0..65535 and reason bytes|str; send_json assumes json.dumps returns str. "
             "xor is an uninterpreted symbol in the VCs (table checked exhaustively, involution lemma by bit-vectors).",
        technique="contract-based deductive verification: ast->SMT VC generation over the real source, z3 (cvc5 fallback)",
        design='DESIGN.md 5 C03'),

    'C04': dict(
        text="Deductive: FrameParser.parse (one iteration of its frame loop, all first-two-byte pairs and extended lengths symbolic) "
             "raises ProtocolError iff the header is not acceptable from a server per RFC 6455 5.2/5.5 + RFC 7692 6.1 (spec/rfc6455.py) and "
             "hands on only acceptable frames; WebsocketStream.feed keeps the 5.4 continuation discipline as a loop invariant; "
             "Close.from_payload / WebSocket._on_close reject 1-byte payloads, invalid UTF-8 and reserved codes (the real set is checked "
             "against the RFC 7.4 sandwich over all 65 536 codes); WebSocket.feed yields exactly one ProtocolError, then only raises, "
             "writing at most one Close; run() turns that into a non-graceful Disconnected with the socket released. All by z3 on the real source.",
        note=TRUST + " Composition of Parser.feed with parse() (coroutine protocol) is the generator meta-rule of DESIGN 2.2/4E: both sides are verified against the same receives-clause.",
        technique="contract-based deductive verification: ast->SMT VC generation over the real source, z3 (cvc5 fallback)",
        design='DESIGN.md 5 C04'),
    'C05': dict(
        text="Deductive + exhaustive ground lemma: the real DFA table is shown bisimilar to the RFC 3629 / Unicode Table 3-7 automaton "
             "(9 reachable states x 256 bytes, by enumeration - the property's own quantifier); Utf8Validator.validate is proved to run that "
             "table over each chunk from the state left by the previous chunk (loop invariant, first rejecting byte index); _ReadUtf8.validate "
             "raises iff it rejects; FrameParser.parse keeps '_is_text <=> a text message is open' and routes exactly the payloads of TEXT frames "
             "and text continuations through the validator (not under compression); Text/Close.from_payload deliver iff strictly decodable.",
        note=TRUST + " bytes.decode('utf-8') is assumed to succeed iff the input is well-formed per RFC 3629 (definition of the uninterpreted wf_utf8 through the verified automaton); REJECT-absorption along a run is lifted from the one-step ground fact by induction (meta-lemma).",
        technique="contract-based deductive verification (loop invariants over an uninterpreted DFA run) + exhaustive table lemma",
        design='DESIGN.md 5 C05'),
    'C13': dict(
        text="Deductive: at EVERY yield of WebsocketSession.run (and of WebSocket.feed, _regular, _on_close) the executor explores the "
             "GeneratorExit edge - handlers, finally blocks and the close edges of the nested generators the frame still references - and "
             "discharges 'session holds no socket and the selector is closed' afterwards; WebSocket.__exit__/on_disconnect/_close_socket carry "
             "the with-block and cleanup paths. No bound on the event index: the obligation is per yield site.",
        note=TRUST + " Assumes CPython finalises a generator as soon as the consumer's loop is left (reference counting); a socket whose shutdown() raises is released by dropping the last reference.",
        technique="contract-based deductive verification: exceptional (GeneratorExit) postconditions at every yield point",
        design='DESIGN.md 5 C13'),
}

NA_REASON = "check under construction in this session; not yet claimed"

m = {
    "version": 1,
    "setup_cmd": "python3-vt -c \"import z3, sys; sys.path.insert(0,'/repo'); import lomond; print('pyvc setup ok: z3', z3.get_version_string())\"",
    "hooks": {"guard": "LOMOND_VERIF",
              "enable": "no source hooks: contracts are sidecars under /verif/contracts; nothing in /repo is instrumented (the guard variable is set by ./check but read by nothing in /repo)",
              "baseline_off_cmd": "cd /repo && /venv/bin/python -m pytest -ra -q -p no:cacheprovider --timeout=900 --continue-on-collection-errors",
              "source_commits": [], "add_only": True},
    "engines": [{"name": "pyvc", "path": "/verif/pyvc", "serves_properties": sorted(CLAIMED),
                 "kind_free_text": "verification-condition generator written for this task: re-reads /repo/lomond/*.py with ast on every run, symbolically executes each function under contract against sidecar contracts (/verif/contracts) and RFC spec functions (/verif/spec), one SMT query per path x clause, discharged by z3 5.1.0 with cvc5 1.0.3 / z3 4.8.12 as fall-back; refuted obligations are replayed on the real code by /verif/replay under /venv/bin/python"}],
    "checks": [],
    "not_applicable": [],
    "notes": "Approach, trusted base, per-property designs and the seeded-change matrix: DESIGN.md. Known findings / fixed defects: known_findings.json.",
}
for p in props:
    if p in CLAIMED:
        c = CLAIMED[p]
        m['checks'].append({
            "property_id": p, "quick_cmd": "./check %s --tier quick" % p, "thorough_cmd": "./check %s --tier thorough" % p,
            "evidence_file": "/verif/evidence/%s.json" % p, "replay_cmd_template": "./check %s --replay {path}" % p,
            "engine": "pyvc",
            "level_claimed": {"category": "proof", "text": c['text'], "design_ref": c['design']},
            "level_note": c['note'], "technique": c['technique']})
    else:
        m['not_applicable'].append({"property_id": p, "reason": NA_REASON})

import jsonschema
jsonschema.validate(m, json.load(open('/root/.vp/MANIFEST.schema.json')))
json.dump(m, open(os.path.join(VERIF, 'MANIFEST.json'), 'w'), indent=1)
print('MANIFEST: %d claimed, %d not applicable' % (len(m['checks']), len(m['not_applicable'])))
