"""(re)generate MANIFEST.json from the table below; validates against the schema"""
import json
import os
import subprocess

VERIF = os.path.dirname(os.path.dirname(os.path.abspath(__file__)))
props = [json.loads(l)['id'] for l in open(os.path.join(VERIF, 'properties.jsonl'))]

TRUST = ("Trusted: the pyvc VC generator's encoding of the Python subset (DESIGN 2.2; guarded by canaries and scratch-copy mutants), "
         "z3/cvc5, CPython semantics incl. GIL atomicity and refcount finalisation, and the assumed contracts of "
         "struct/os.urandom/bytes.decode/str.encode/zlib/socket/selector/threading (pyvc/externals.py, pyvc/extworld.py; "
         "listed per run in evidence.coverage.trusted_base).")

TECH = "contract-based deductive verification: ast->SMT VC generation over the real source (pyvc), z3 5.1.0 with cvc5 / z3 4.8.12 fall-back"
GEN = (" Generator protocol (yield / resume / close edges, producer steps at consumer loops) and the composition of separately verified "
       "generators are the executor's meta-rules (DESIGN 2.2, 4E).")

CLAIMED = {
    'C01': dict(text="Deductive, layer by layer on the real source: Parser.feed is verified against an abstract coroutine - every value it "
                     "sends is exactly the next bytes of the stream (ghost tile equations over one stream symbol: no gap, overlap or reordering "
                     "across read boundaries), a fresh copy that never aliases the receive buffer; FrameParser.parse yields, for all headers / "
                     "length forms (incl. non-minimal) / payloads, the RFC 6455 5.2 decoding of the bytes it received; WebsocketStream.feed keeps "
                     "the 5.4 reassembly invariant; Message.build's payload is the in-order concatenation of the fragments, typed by the first "
                     "frame; WebSocket.feed and run() hand on each event object itself, exactly once, in order.",
                note=TRUST + GEN, design='DESIGN.md 5 C01'),
    'C02': dict(text="Deductive: Parser.feed's postconditions are stated over the concatenated stream only (tile equations), never over read "
                     "boundaries; read-until finds the FIRST separator of the stream even when it straddles reads; the incremental UTF-8 "
                     "validator provably continues from the state the previous chunk left (chunk lemma from the loop invariant) and is reset "
                     "only when a data message ends; all cross-call state of stream.feed / WebSocket.feed lives in fields covered by invariants.",
                note=TRUST + GEN + " Deterministic-consumer assumption for the client's writes.", design='DESIGN.md 5 C02'),
    'C06': dict(text="Deductive plumbing around an assumed zlib contract: negotiated window bits and takeover flags reach zlib unchanged "
                     "(get_wbits/from_options/reset_*), the deflater's back-references fit the negotiated client window (zlib MAX_DIST fact), "
                     "compress = zlib output minus the 4-byte tail, decompress feeds every frame payload in order plus the tail and replaces the "
                     "inflater on no_context_takeover or end-of-stream; RSV1 only via send_compressed and only when negotiated+requested; "
                     "inflation iff first frame RSV1 and decompressor. Option-string parsing: bounded stand-in.",
                note=TRUST + " zlib itself is assumed (sync flush ends in 00 00 FF FF; MAX_DIST = 2^w - 262; matching inflater restores the input). "
                     "parse_extension / Response.get_list are checked only by an exhaustive small-grammar enumeration (labelled bounded, not counted as proved).",
                design='DESIGN.md 5 C06'),
    'C07': dict(text="Deductive: a ghost monitor automaton transcribed from the property is advanced at EVERY yield of WebsocketSession.run "
                     "(and of _regular, WebSocket.feed, _on_close, stream.feed through their yield guarantees); loop invariants relate the phase to "
                     "_ready and to 'response consumed'; every exit of run() is shown to be in phase Done; no exception other than GeneratorExit escapes.",
                note=TRUST + GEN + " Liveness beyond one-step progress (the OS honouring timeouts) is not decided.", design='DESIGN.md 5 C07'),
    'C08': dict(text="Deductive: contracts of close/_send_close/_on_close/write/send/feed and the loop exit of run(): one Close with the given "
                     "code+reason, later writes refused with nothing written, messages still dispatched while closing, Closed then closed-and-not-"
                     "closing, Closing then at most one echo with the same code (none if the application already closed), graceful only if a side "
                     "started the handshake.", note=TRUST + GEN, design='DESIGN.md 5 C08'),
    'C09': dict(text="Deductive: every external call (connect, sendall, recv_into, selector wait, shutdown/close, getaddrinfo, TLS wrap) has an "
                     "exceptional successor 'raises some Exception'; run() is proved to let nothing but GeneratorExit escape, to end every such path "
                     "with exactly one ConnectFail/Disconnected with the socket released and graceful only when a side had started closing; "
                     "_connect_sock tries every address and closes failed sockets; write/_recv/_send_pong/_check_auto_ping translate or swallow "
                     "exactly the documented classes.", note=TRUST + GEN + " Selector construction is assumed not to raise.", design='DESIGN.md 5 C09'),
    'C10': dict(text="Deductive: on_response (loop-free, all paths) accepts iff status 101, Upgrade is websocket and Accept EQUALS the digest of "
                     "this State's key (sha1/base64 uninterpreted, a function of the key); State.__init__ draws a fresh 16-byte key; the header block "
                     "limit is 16 KiB in parse/Parser.feed (terminated or not); Rejected releases the socket and ends the stream. Known finding: "
                     "Accept is compared case-insensitively (carved out, witness replayed every run). WebSocket.build_request is verified on its body (DESIGN 9.13): the request is CRLF.join of `GET <resource> HTTP/1.1`, the custom headers in order, each required field (Host, Upgrade, Connection, Sec-WebSocket-Key = this connection's key, version 13, User-Agent; protocol / extension offer iff asked), nothing else, and the empty line - for any number of custom headers (loop invariant over the list of lines). Reply-header syntax (Response) and URL parsing: bounded stand-ins.",
                note=TRUST + " Response.__init__/get/get_list and WebSocket.__init__ (urlparse -> resource, host:port): exhaustive small-grammar enumeration only (bounded); in build_request bytes.join / str.join / str.format / str(int) are assumed builtins (pyvc/externals.py) and UTF-8 encoding is taken to distribute over concatenation; the bounded request enumeration still runs beside the proof; on_response additionally "
                     "run on 448 enumerated replies as a concrete back-up (bounded).", design='DESIGN.md 5 C10, 9.11'),
    'C11': dict(text="Deductive ownership + monitor obligations: every sendall/shutdown/close on the session socket is made while the session "
                     "lock is held (per-call obligation and package-wide AST scan), write performs exactly one sendall of its whole argument, "
                     "and a compressed message is deflated inside the same critical section that orders its frame on the wire.",
                note=TRUST + " The step from per-critical-section obligations to all interleavings is the monitor / Owicki-Gries meta-theorem plus GIL atomicity (not machine-checked). "
                     "Package scans (every run): socket calls only under the lock; each frame handed to write() by a single call outside any loop.",
                design='DESIGN.md 5 C11, 9.11'),
    'C12': dict(text="Deductive monitor invariant 'Close on the wire => closing or closed': proved at every release of the session lock in write "
                     "(with the flags re-read under the lock after an interference step), and preserved by every store to the flags outside the lock "
                     "(close, _on_close, on_disconnect - the complete list by package scan); losers are refused with nothing written.",
                note=TRUST + " Monitor rule / GIL atomicity as for C11.", design='DESIGN.md 5 C12'),
    'C14': dict(text="Deductive: _on_event/_send_pong/send_pong contracts (exactly one Pong with the identical payload when auto_pong and open, "
                     "none otherwise, never raising - using the <=125-byte guarantee of the parser) and the order obligation in run(): the library's "
                     "reaction to an event precedes handing it to the application, at every path.", note=TRUST + GEN, design='DESIGN.md 5 C14'),
    'C15': dict(text="Deductive over the reals: _check_poll / _check_auto_ping (grid point k*r with (k-1)r < t <= kr) / _check_ping_timeout / "
                     "_check_close_timeout decide exactly the property's conditions; _regular yields Poll / Unresponsive / raises in that order "
                     "and only then; _on_event initialises and updates the timers; run() evaluates housekeeping before each read and after every event. "
                     "The multi-cycle statements (first Poll at once, consecutive Polls in [p,2p), never two automatic pings without a grid point between them, "
                     "Unresponsive within p after T of silence, forced disconnect in [sent+c, sent+c+p)) are LEMMAS over those contracts (contracts/lemmas.py): "
                     "ghost programs that call the contracts under the inductive hypothesis and are discharged by z3.",
                note=TRUST + " Floats are treated as reals; time advances only inside selector.wait (virtual-clock assumption); the multi-cycle "
                     "consequences (gaps in [p,2p), one ping per period) follow from these per-evaluation contracts by a pen-and-paper argument.",
                design='DESIGN.md 5 C15'),
    'C16': dict(text="Deductive loop contract of persist(): events of each attempt passed on themselves once in order, retries == number of "
                     "consecutive attempts without Ready (invariant), exactly one BackOff with delay == min_wait + u*min(max_wait-min_wait, 2**k) "
                     "within [min_wait, max_wait], waited for exactly that delay, attempt made with the caller's settings, exit only when the wait returns true.",
                note=TRUST + GEN + " random() in [0,1) assumed; requires min_wait <= max_wait.", design='DESIGN.md 5 C16'),
    'C17': dict(text="Deductive constructor postconditions (State.__init__, WebsocketSession.__init__, connect installs a NEW State and session "
                     "and passes its arguments through; every field at its initial value, fresh key/parser/validator/lock/buffer) plus a package-wide "
                     "scan: every assigned attribute is inventoried, configuration fields are written only by __init__/add_header, no class- or "
                     "module-level mutable connection state.", note=TRUST + " 'same behaviour as a fresh object' then follows from determinism of the code under contract (meta-argument).",
                design='DESIGN.md 5 C17'),
    'C18': dict(text="Deductive: SelectorBase.wait consults the TLS buffer before the only blocking call of the package and returns buffered "
                     "bytes without blocking; run() feeds the whole result of each read, never leaves the feed loop early, reacts before yielding; "
                     "Parser.feed consumes all of its input and yields every completed frame in the same call.",
                note=TRUST + " The kernel/OpenSSL transport contract (level-triggered poll, pending() = decrypted bytes, <= one record) is assumed; "
                     "real loopback TCP/TLS runs are out of reach of contracts (DESIGN 6).", design='DESIGN.md 5 C18'),
    'C19': dict(text="Deductive IO-log contracts: _connect selects the proxy entry by the URL's scheme (falsy = direct), _connect_proxy connects "
                     "to the proxy's host/port (defaults by proxy scheme), writes exactly one CONNECT for the target host+port, then only reads until "
                     "ProxyParser.parse (verified: 200 only, else ProxyFail) has yielded; run() writes the upgrade request only after _connect returned "
                     "and yields ConnectFail with nothing written otherwise. proxy.build_request is verified on its body (DESIGN 9.13): byte for byte `CONNECT <host>:<port> HTTP/1.1`, Host, the keep-alive fields, with credentials one Proxy-Authorization field Basic base64(user[:password]), the empty line. Status-line parsing of the answer: bounded stand-in.",
                note=TRUST + GEN + " Status-line / header parsing of the proxy answer (Response): bounded enumeration only; in proxy.build_request str.format, str(int) and base64 are assumed builtins (uninterpreted) and UTF-8 encoding distributes over concatenation.", design='DESIGN.md 5 C19, 9.13'),

    'C03': dict(
        text="Deductive: sidecar contracts on the real mask_payload, Frame.build, build_close_payload, session.write/send/"
             "send_compressed, send_text/send_binary/send_json/send_ping/send_pong, close/_send_close; every path of every "
             "body is symbolically executed from /repo's current source and each postcondition (taken from the property: the "
             "bytes handed to sendall decode, by an independent RFC 6455 5.2 decoder, to FIN=1, masked, shortest length form, "
             "rsv clear unless compression negotiated+requested, payload XOR key == caller's payload; wrong type/oversize => "
             "TypeError/ValueError and $wire unchanged; caller's buffer in no modifies set) is discharged by z3 for all "
             "lengths 0..2^63-1, keys, opcodes and argument kinds. Callers are checked against callee contracts only.",
        note=TRUST + " close()'s contract assumes code in 0..65535 and reason bytes|str; send_json assumes json.dumps returns str. "
             "xor is an uninterpreted symbol in the VCs (table checked exhaustively, involution lemma by bit-vectors). Concrete back-ups, labelled "
             "bounded and not counted: mask_payload and Frame.build run at every length-form / block boundary up to 200 003 bytes against an independent decoder.",
        design='DESIGN.md 5 C03, 9.11'),

    'C04': dict(
        text="Deductive: FrameParser.parse (one iteration of its frame loop, all first-two-byte pairs and extended lengths symbolic) "
             "raises ProtocolError iff the header is not acceptable from a server per RFC 6455 5.2/5.5 + RFC 7692 6.1 (spec/rfc6455.py) and "
             "hands on only acceptable frames; WebsocketStream.feed keeps the 5.4 continuation discipline as a loop invariant; "
             "Close.from_payload / WebSocket._on_close reject 1-byte payloads, invalid UTF-8 and reserved codes (the real set is checked "
             "against the RFC 7.4 sandwich over all 65 536 codes); WebSocket.feed yields exactly one ProtocolError, then only raises, "
             "writing at most one Close; run() turns that into a non-graceful Disconnected with the socket released. All by z3 on the real source.",
        note=TRUST + " Composition of Parser.feed with parse() (coroutine protocol) is the generator meta-rule of DESIGN 2.2/4E: both sides are verified against the same receives-clause.",
        design='DESIGN.md 5 C04'),
    'C05': dict(
        text="Deductive + exhaustive ground lemma: the real DFA table is shown bisimilar to the RFC 3629 / Unicode Table 3-7 automaton "
             "(9 reachable states x 256 bytes, by enumeration - the property's own quantifier); Utf8Validator.validate is proved to run that "
             "table over each chunk from the state left by the previous chunk (loop invariant, first rejecting byte index); _ReadUtf8.validate "
             "raises iff it rejects; FrameParser.parse keeps '_is_text <=> a text message is open' and routes exactly the payloads of TEXT frames "
             "and text continuations through the validator (not under compression); Text/Close.from_payload deliver iff strictly decodable.",
        note=TRUST + " bytes.decode('utf-8') is assumed to succeed iff the input is well-formed per RFC 3629 (definition of the uninterpreted wf_utf8 through the verified automaton); REJECT-absorption along a run is lifted from the one-step ground fact by induction (meta-lemma).",
        design='DESIGN.md 5 C05'),
    'C13': dict(
        text="Deductive: at EVERY yield of WebsocketSession.run (and of WebSocket.feed, _regular, _on_close) the executor explores the "
             "GeneratorExit edge - handlers, finally blocks and the close edges of the nested generators the frame still references - and "
             "discharges 'session holds no socket and the selector is closed' afterwards; WebSocket.__exit__/on_disconnect/_close_socket carry "
             "the with-block and cleanup paths. No bound on the event index: the obligation is per yield site.",
        note=TRUST + " Assumes CPython finalises a generator as soon as the consumer's loop is left (reference counting); a socket whose shutdown() raises is released by dropping the last reference.",
        design='DESIGN.md 5 C13'),
}

NA_REASON = "check under construction in this session; not yet claimed"

m = {
    "version": 1,
    "setup_cmd": "python3-vt -c \"import z3, sys; sys.path.insert(0,'/repo'); import lomond; print('pyvc setup ok: z3', z3.get_version_string())\"",
    "hooks": {"guard": "LOMOND_VERIF",
              "enable": "no source hooks: contracts are sidecars under /verif/contracts; nothing in /repo is instrumented (the guard variable is set by ./check but read by nothing in /repo)",
              "baseline_off_cmd": "cd /repo && /venv/bin/python -m pytest -ra -q -p no:cacheprovider --timeout=900 --continue-on-collection-errors",
              "source_commits": [], "add_only": True},
    "engines": [{"name": "pyvc", "path": "/verif/pyvc", "serves_properties": sorted(CLAIMED),
                 "kind_free_text": "verification-condition generator written for this task: re-reads /repo/lomond/*.py with ast on every run, symbolically executes each function under contract against sidecar contracts (/verif/contracts) and RFC spec functions (/verif/spec), one SMT query per path x clause, discharged by z3 5.1.0 with cvc5 1.0.3 / z3 4.8.12 as fall-back; refuted obligations are replayed on the real code by /verif/replay under /venv/bin/python"}],
    "checks": [],
    "not_applicable": [],
    "notes": "Approach, trusted base, per-property designs and the seeded-change matrix: DESIGN.md (section 9 is the as-built record; 9.12 = fourth session). Known findings / fixed defects: known_findings.json. Verdicts: exit 0 every obligation proved; 1 an obligation refuted (counter-model, replayed on the real code where possible) or - when the deductive part is undecided for a changed function - a failing input found by the property's replay battery on the real code (obligation=exploration:replay-battery; bounded exploration, never counted as proved); 2 undecided; 3 checker fault.",
}
for p in props:
    if p in CLAIMED:
        c = CLAIMED[p]
        m['checks'].append({
            "property_id": p, "quick_cmd": "./check %s --tier quick" % p, "thorough_cmd": "./check %s --tier thorough" % p,
            "evidence_file": "/verif/evidence/%s.json" % p, "replay_cmd_template": "./check %s --replay {path}" % p,
            "engine": "pyvc",
            "level_claimed": {"category": "proof", "text": c['text'], "design_ref": c['design']},
            "level_note": c['note'], "technique": c.get('technique', TECH)})
    else:
        m['not_applicable'].append({"property_id": p, "reason": NA_REASON})

import jsonschema
jsonschema.validate(m, json.load(open('/root/.vp/MANIFEST.schema.json')))
json.dump(m, open(os.path.join(VERIF, 'MANIFEST.json'), 'w'), indent=1)
print('MANIFEST: %d claimed, %d not applicable' % (len(m['checks']), len(m['not_applicable'])))
