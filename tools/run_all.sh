#!/bin/bash
# run every claimed check (quick) on the unchanged tree; print a one-line summary each
cd /verif
for p in $(python3 -c "import json; print(' '.join(c['property_id'] for c in json.load(open('MANIFEST.json'))['checks']))"); do
  s=$(date +%s); ./check $p > /tmp/runall.$p.out 2>&1; e=$?
  echo "$p exit=$e $(( $(date +%s) - s ))s $(tail -1 /tmp/runall.$p.out | cut -c1-150)"
done
