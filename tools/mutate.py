#!/usr/bin/env python3
"""Mutation campaign: how many small semantic changes of the functions under contract, that the repository's own 162
tests do NOT notice, do the contracts notice?

  tools/mutate.py gen   <outdir>            generate mutants (one JSON line each) of every function under contract
  tools/mutate.py tests <outdir> [-j N]     phase 1: keep the mutants the repository's tests still pass with
  tools/mutate.py check <outdir>            phase 2: verify the mutated function's body against its contract

Mutation operators (AST, one change per mutant): comparison swaps (< <=, > >=, == !=, is / is not), and <-> or,
dropped `not`, integer constant +-1, True <-> False, statement deletion (expression statements, assignments, augmented
assignments, raise), `if c` -> `if not c`, break <-> continue dropped.  Each mutant lives in its own scratch copy of
the package under <outdir>/m<k>/ (removed after its phase unless it survives)."""
import ast, copy, json, os, shutil, subprocess, sys, time

REPO = os.environ.get('MUT_REPO', '/repo')


def targets():
    sys.path.insert(0, '/verif')
    sys.path.insert(0, REPO)
    from pyvc import check, source
    reg = check.load_contracts()
    out = []
    for q, c in sorted(reg.contracts.items()):
        if c.external:
            continue
        try:
            f = source.unwrap(source.resolve(q))
            node, ms = source.node_of(f)
        except Exception:
            continue
        rel = os.path.relpath(f.__code__.co_filename, REPO)
        out.append((q, rel, node.lineno, node.end_lineno, sorted(c.serves)))
    return out


class Mutator(ast.NodeTransformer):
    """applies the k-th applicable mutation inside [lo, hi]; counts sites on the way"""
    def __init__(self, lo, hi, k):
        self.lo, self.hi, self.k, self.n, self.desc = lo, hi, k, 0, None

    def inside(self, node):
        return hasattr(node, 'lineno') and self.lo <= node.lineno <= self.hi

    def hit(self, desc, node):
        self.n += 1
        if self.n - 1 == self.k:
            self.desc = 'line %d: %s' % (node.lineno, desc)
            return True
        return False

    def visit_Compare(self, node):
        self.generic_visit(node)
        if not self.inside(node):
            return node
        swaps = {ast.Lt: ast.LtE, ast.LtE: ast.Lt, ast.Gt: ast.GtE, ast.GtE: ast.Gt, ast.Eq: ast.NotEq, ast.NotEq: ast.Eq,
                 ast.Is: ast.IsNot, ast.IsNot: ast.Is, ast.In: ast.NotIn, ast.NotIn: ast.In}
        for i, op in enumerate(node.ops):
            new = swaps.get(type(op))
            if new and self.hit('%s -> %s' % (type(op).__name__, new.__name__), node):
                node = copy.deepcopy(node)
                node.ops[i] = new()
                return node
        return node

    def visit_BoolOp(self, node):
        self.generic_visit(node)
        if self.inside(node) and self.hit('%s -> %s' % (type(node.op).__name__, 'Or' if isinstance(node.op, ast.And) else 'And'), node):
            node = copy.deepcopy(node)
            node.op = ast.Or() if isinstance(node.op, ast.And) else ast.And()
        return node

    def visit_UnaryOp(self, node):
        self.generic_visit(node)
        if self.inside(node) and isinstance(node.op, ast.Not) and self.hit('dropped `not`', node):
            return node.operand
        return node

    def visit_Constant(self, node):
        if not self.inside(node):
            return node
        if isinstance(node.value, bool):
            if self.hit('%s -> %s' % (node.value, not node.value), node):
                return ast.copy_location(ast.Constant(not node.value), node)
        elif isinstance(node.value, int) and 0 <= node.value <= 70000:
            for d in (1, -1):
                if node.value + d >= 0 and self.hit('%d -> %d' % (node.value, node.value + d), node):
                    return ast.copy_location(ast.Constant(node.value + d), node)
        return node

    def visit_If(self, node):
        self.generic_visit(node)
        if self.inside(node) and self.hit('negated if-condition', node):
            node = copy.deepcopy(node)
            node.test = ast.UnaryOp(ast.Not(), node.test)
        return node

    def _stmt(self, node):
        self.generic_visit(node)
        if self.inside(node) and not (isinstance(node, ast.Expr) and isinstance(node.value, ast.Constant)):
            if isinstance(node, ast.Expr) and isinstance(node.value, (ast.Yield, ast.YieldFrom)):
                return node
            if isinstance(node, ast.Expr) and isinstance(node.value, ast.Call) and ast.unparse(node.value.func).startswith('log.'):
                return node
            if self.hit('deleted statement `%s`' % ast.unparse(node)[:60].replace('\n', ' '), node):
                return ast.copy_location(ast.Pass(), node)
        return node

    visit_Expr = _stmt
    visit_Assign = _stmt
    visit_AugAssign = _stmt
    visit_Raise = _stmt

    def visit_Break(self, node):
        if self.inside(node) and self.hit('deleted break', node):
            return ast.copy_location(ast.Pass(), node)
        return node


def gen(outdir):
    os.makedirs(outdir, exist_ok=True)
    n = 0
    with open(os.path.join(outdir, 'mutants.jsonl'), 'w') as f:
        for q, rel, lo, hi, serves in targets():
            src = open(os.path.join(REPO, rel)).read()
            tree = ast.parse(src)
            # skip the docstring line range at the head of the function? (constants in docstrings are skipped by _stmt)
            k = 0
            while True:
                m = Mutator(lo, hi, k)
                new = m.visit(copy.deepcopy(tree))
                if m.desc is None:
                    break
                ast.fix_missing_locations(new)
                f.write(json.dumps(dict(id=n, qual=q, file=rel, k=k, desc=m.desc, serves=serves, lo=lo, hi=hi)) + '\n')
                n += 1
                k += 1
    print('%d mutants' % n)


CHECKS_BY_FILE = {
    'lomond/response.py': ['C10'], 'lomond/extension.py': ['C06'], 'lomond/proxy.py': ['C19'], 'lomond/selectors.py': ['C18', 'C13'],
    'lomond/events.py': ['C01', 'C16'], 'lomond/message.py': ['C01', 'C08'], 'lomond/opcode.py': ['C04'], 'lomond/status.py': ['C04', 'C08'],
    'lomond/frame.py': ['C03', 'C04'], 'lomond/parser.py': ['C02', 'C10'], 'lomond/frame_parser.py': ['C05', 'C04'], 'lomond/stream.py': ['C01', 'C06'],
    'lomond/websocket.py': ['C10', 'C17', 'C08'], 'lomond/session.py': ['C15', 'C13'], 'lomond/compression.py': ['C06'], 'lomond/mask.py': ['C03'],
    'lomond/persist.py': ['C16'], 'lomond/utf8validator.py': ['C05'],
}


def gen_rest(outdir):
    """mutants of the functions that are NOT under a contract of their own (constructors, properties, helpers inlined
    into their callers, code covered by bounded stand-ins or assumed as external): judged by whole property checks"""
    os.makedirs(outdir, exist_ok=True)
    covered = set((rel, lo) for q, rel, lo, hi, s_ in targets())
    n = 0
    with open(os.path.join(outdir, 'mutants.jsonl'), 'w') as f:
        for rel in sorted(CHECKS_BY_FILE):
            src = open(os.path.join(REPO, rel)).read()
            tree = ast.parse(src)
            for node in ast.walk(tree):
                if not isinstance(node, ast.FunctionDef) or (rel, node.lineno) in covered:
                    continue
                if node.name in ('__repr__', '__str__', '__del__') or any(isinstance(p, ast.If) and 'PY2' in ast.unparse(p.test) and p.lineno <= node.lineno <= p.end_lineno
                                                                          and node in ast.walk(p.body[0] if p.body else p) for p in ast.walk(tree)):
                    continue
                inner = [x for x in ast.walk(node) if isinstance(x, ast.FunctionDef) and x is not node]
                k = 0
                while True:
                    m = Mutator(node.lineno, node.end_lineno, k)
                    m.visit(copy.deepcopy(tree))
                    if m.desc is None:
                        break
                    f.write(json.dumps(dict(id=n, qual='%s:%s' % (rel, node.name), file=rel, k=k, desc=m.desc, serves=CHECKS_BY_FILE[rel],
                                            lo=node.lineno, hi=node.end_lineno)) + '\n')
                    n += 1
                    k += 1
    print('%d mutants' % n)


def phase_check_properties(outdir):
    ms = [json.loads(l) for l in open(os.path.join(outdir, 'survivors.jsonl'))]
    rp = os.path.join(outdir, 'results.jsonl')
    done = {json.loads(l)['id'] for l in open(rp)} if os.path.exists(rp) else set()
    with open(rp, 'a') as f:
        for m in ms:
            if m['id'] in done:
                continue
            d = os.path.join(outdir, 'm%d' % m['id'])
            t0 = time.time()
            verdict, lines = 'NOT DETECTED', []
            for c in m['serves']:
                try:
                    p = subprocess.run(['/verif/check', c], capture_output=True, text=True, timeout=1500, cwd='/verif',
                                       env=dict(os.environ, LOMOND_ROOT=d, PYVC_EVIDENCE_DIR='/tmp/scratch-evidence-mut'))
                    rc, last = p.returncode, (p.stdout.strip().splitlines() or ['no output'])
                except subprocess.TimeoutExpired:
                    rc, last = 2, ['timeout']
                first = next((l for l in last if l.startswith(('VIOLATION', 'UNDECIDED', 'CHECKER-FAULT'))), last[-1])
                lines.append('%s exit=%d %s' % (c, rc, first[:160]))
                if rc == 1:
                    verdict = 'detected'
                    break
                if rc in (2, 3) and verdict != 'detected':
                    verdict = 'undecided'
            m = dict(m, verdict=verdict, check=' | '.join(lines), wall=round(time.time() - t0, 1))
            f.write(json.dumps(m) + '\n')
            f.flush()
            print('%4d %-12s %-45s %s | %s' % (m['id'], m['verdict'], m['qual'], m['desc'][:60], m['check'][:140]))


def materialise(outdir, m):
    """scratch copy of the package with mutant m applied (only lomond/ and tests/ are copied)"""
    d = os.path.join(outdir, 'm%d' % m['id'])
    if os.path.exists(d):
        shutil.rmtree(d)
    os.makedirs(d)
    shutil.copytree(os.path.join(REPO, 'lomond'), os.path.join(d, 'lomond'))
    src = open(os.path.join(REPO, m['file'])).read()
    tree = ast.parse(src)
    lo, hi = m.get('lo'), m.get('hi')
    if lo is None:
        for q, rel, l, h, _s in TARGETS:
            if q == m['qual']:
                lo, hi = l, h
    mu = Mutator(lo, hi, m['k'])
    new = mu.visit(tree)
    ast.fix_missing_locations(new)
    # keep the original text outside the mutated function so that line numbers of everything else stay put
    lines = src.split('\n')
    fn_new = None
    for node in ast.walk(new):
        if isinstance(node, (ast.FunctionDef,)) and node.lineno == lo:
            fn_new = node
    indent = len(lines[lo - 1]) - len(lines[lo - 1].lstrip())
    text = ast.unparse(fn_new)
    text = '\n'.join((' ' * indent + l) if l else l for l in text.split('\n'))
    # decorators precede lo in node.lineno? ast lineno of FunctionDef is the `def` line; decorators are separate lines above
    dec_lo = min([d_.lineno for d_ in fn_new.decorator_list] + [lo])
    lines[dec_lo - 1:hi] = text.split('\n')
    open(os.path.join(d, m['file']), 'w').write('\n'.join(lines))
    return d


def run_tests(d, full):
    """162 passed is the baseline; phase 1 runs without the socket-bound integration tests so that it can run in parallel"""
    cmd = ['/venv/bin/python', '-m', 'pytest', '-q', '-p', 'no:cacheprovider', '--timeout=120', os.path.join(REPO, 'tests')]
    if not full:
        cmd += ['--ignore', os.path.join(REPO, 'tests/test_integration.py'), '--ignore', os.path.join(REPO, 'tests/test_live.py'),
                '--ignore', os.path.join(REPO, 'tests/test_proxy.py')]
    env = dict(os.environ, PYTHONPATH=d)
    try:
        p = subprocess.run(cmd, capture_output=True, text=True, timeout=300, env=env, cwd=d)
    except subprocess.TimeoutExpired:
        return 'timeout'
    return p.stdout.strip().splitlines()[-1] if p.stdout.strip() else 'no output'


TARGETS = []


def phase_tests(outdir, jobs):
    global TARGETS
    TARGETS = targets()
    from concurrent.futures import ThreadPoolExecutor
    ms = [json.loads(l) for l in open(os.path.join(outdir, 'mutants.jsonl'))]
    base_fast = run_tests_base(False)
    base_full = run_tests_base(True)
    print('baseline (without socket tests): %s | full: %s' % (base_fast, base_full))

    def one(m):
        try:
            d = materialise(outdir, m)
        except Exception as e:
            return dict(m, tests='materialise failed: %s' % e)
        try:
            subprocess.run(['/venv/bin/python', '-c', 'import lomond.websocket, lomond.persist'], env=dict(os.environ, PYTHONPATH=d), cwd=d,
                           check=True, capture_output=True, timeout=60)
        except Exception:
            shutil.rmtree(d)
            return dict(m, tests='does not import')
        r = run_tests(d, False)
        m2 = dict(m, tests=r)
        if counts(r) != counts(base_fast):
            shutil.rmtree(d)
        return m2
    with ThreadPoolExecutor(jobs) as ex:
        res = list(ex.map(one, ms))
    surv = [m for m in res if counts(m['tests']) == counts(base_fast)]
    print('%d of %d mutants pass the socket-free tests; running the full suite on them serially' % (len(surv), len(res)))
    final = []
    for m in surv:
        d = os.path.join(outdir, 'm%d' % m['id'])
        r = run_tests(d, True)
        m['tests_full'] = r
        if counts(r)[0] >= counts(base_full)[0]:
            final.append(m)
        else:
            shutil.rmtree(d)
    with open(os.path.join(outdir, 'survivors.jsonl'), 'w') as f:
        for m in final:
            f.write(json.dumps(m) + '\n')
    print('%d mutants survive the repository test suite' % len(final))


def counts(line):
    import re
    p = re.search(r'(\d+) passed', line or '')
    fl = re.search(r'(\d+) failed', line or '')
    return (int(p.group(1)) if p else 0, int(fl.group(1)) if fl else 0)


def run_tests_base(full):
    d = os.path.join('/tmp', 'mut-base')
    if os.path.exists(d):
        shutil.rmtree(d)
    os.makedirs(d)
    shutil.copytree(os.path.join(REPO, 'lomond'), os.path.join(d, 'lomond'))
    r = run_tests(d, full)
    shutil.rmtree(d)
    return r


def phase_check(outdir):
    ms = [json.loads(l) for l in open(os.path.join(outdir, 'survivors.jsonl'))]
    done = {}
    rp = os.path.join(outdir, 'results.jsonl')
    if os.path.exists(rp):
        for l in open(rp):
            r = json.loads(l)
            done[r['id']] = r
    with open(rp, 'a') as f:
        for m in ms:
            if m['id'] in done:
                continue
            d = os.path.join(outdir, 'm%d' % m['id'])
            t0 = time.time()
            try:
                p = subprocess.run(['python3-vt', '/verif/tools/fncheck.py', m['qual']], capture_output=True, text=True, timeout=900,
                                   env=dict(os.environ, PYTHONPATH=d + ':/verif', LOMOND_ROOT=d), cwd='/verif')
                line = (p.stdout.strip().splitlines() or ['no output'])[-1]
                rc = p.returncode
            except subprocess.TimeoutExpired:
                line, rc = 'timeout', 2
            m = dict(m, verdict={0: 'NOT DETECTED', 1: 'detected', 2: 'undecided', 3: 'fault'}.get(rc, str(rc)), check=line[:300], wall=round(time.time() - t0, 1))
            f.write(json.dumps(m) + '\n')
            f.flush()
            print('%4d %-12s %-55s %s | %s' % (m['id'], m['verdict'], m['qual'].replace('lomond.', ''), m['desc'][:70], line[:120]))


if __name__ == '__main__':
    cmd, outdir = sys.argv[1], sys.argv[2]
    if cmd == 'gen':
        gen(outdir)
    elif cmd == 'gen-rest':
        gen_rest(outdir)
    elif cmd == 'check-properties':
        phase_check_properties(outdir)
    elif cmd == 'tests':
        phase_tests(outdir, int(sys.argv[4]) if len(sys.argv) > 4 else 12)
    elif cmd == 'check':
        phase_check(outdir)
