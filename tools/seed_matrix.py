#!/usr/bin/env python3
"""print the markdown table of DESIGN.md 9.4 from seeded/*/meta.json (what each independently seeded change does is
summarised by hand below; everything else is what tools/seed_eval.sh measured)"""
import json, glob, os

WHAT = {
    'C01-agent4': 'stream.feed buffers a data frame only `if frame.payload or frame.fin` (an empty first fragment is forgotten; the continuation is then refused)',
    'C02-agent4': '_ReadUntil.find resumes the terminator search from a `scanned` index that goes negative for 1-2 buffered bytes (tiny first reads: handshake never recognised)',
    'C03-agent4': 'send_compressed sends the original bytes with RSV1 clear when deflate did not shrink them - after the shared context absorbed them',
    'C04-agent4': 'parse skips frame.validate() for first header bytes cached in a class-level set (RSV1 frames accepted on a later connection without the extension)',
    'C05-agent4': 'Message.build decodes fragmented text with an incremental decoder, skipping empty fragments (truncated sequence + empty FIN frame delivered)',
    'C06-agent4': 'same edit as C03-agent4, by another agent: deflate context advanced for a message that goes out uncompressed',
    'C07-agent4': 'run(): the per-cycle _regular() moved into the else of `if readable` (a trickled frame postpones both timeouts for ever: no terminal event)',
    'C08-agent4': 'close() enters the closing state only if _send_close returned True (fault right after the Close bytes left: later sends are written, second Close)',
    'C09-agent4': '_connect_sock remembers the last per-address error and gives up after the loop when it is set (an earlier failed address defeats a later successful one)',
    'C10-agent4': 'Response strips every header fragment separately (a value folded right after the colon keeps a leading space: correct reply Rejected)',
    'C11-agent4': 'frames of up to 4 KiB are assembled in one reusable per-session buffer, built before write() takes the lock',
    'C12-agent4': 'close() raises the closing flag before _send_close and write() lets the Close frame through the gate (two overlapping close() calls both write)',
    'C13-agent4': 'write() sets _sock = None when sendall fails (every later _close_socket() is a no-op: the socket is never closed)',
    'C14-agent4': 'close() raises the closing flag before the Close frame is written (a Ping handled in between loses its Pong)',
    'C15-agent4': 'run(): housekeeping only when the wait timed out or after an event (trickled bytes: no Poll, no ping, no timeouts)',
    'C16-agent4': 'back-off ceiling computed as 2.0 ** retries (OverflowError after 1024 consecutive failures: persist() ends)',
    'C17-agent4': 'reset() reuses the WebsocketStream and resets it in place; Parser.reset() keeps _buffer (bytes of a connection that ended mid-frame leak into the next)',
    'C18-agent4': '_send_pong try-locks the write lock and queues the Pong for the next _regular() when it is taken',
    'C19-agent4': 'proxy read loop moved into proxy.read_response(sock, parser=ProxyParser()) - one parser shared by every connect (a stale 200 is replayed)',
    'C01-agent1': 'Parser.feed hands a slice of the receive buffer to the coroutine when one read satisfies a read(n) ("zero-copy")',
    'C02-agent1': 'same zero-copy slice in Parser.feed (payload of an earlier fragment is overwritten by the next read)',
    'C03-agent1': '_send_close checks len(reason) > 123 on the text instead of the encoded payload (multi-byte reasons overflow)',
    'C04-agent1': '_on_close checks the reserved close code only in the server-initiated branch',
    'C05-agent1': 'on_frame resets the validator when fin and self._is_text (also after a control frame inside a text message)',
    'C06-agent1': 'parse_extension no longer strips the parameter name (`client_max_window_bits = 10` ignored)',
    'C07-agent1': 'WebSocket.feed continues instead of break after Rejected (events on a rejected connection)',
    'C08-agent1': '_on_close clears state.closing before yielding Closed',
    'C09-agent1': 'run(): _close_socket() moved after the ConnectFail yield of the failed-request path',
    'C10-agent1': 'Parser.feed drops the max_bytes check when the separator is found (16 KiB header limit)',
    'C11-agent1': 'write(wait=...) acquires the lock non-blocking for control frames and sends anyway',
    'C12-agent1': 'write tests sock/closed/closing before taking the lock',
    'C13-agent1': 'run() finally: _close_socket() only if websocket.is_active',
    'C14-agent1': 'send_pong refuses len(data) >= 125',
    'C15-agent1': '_check_poll advances _poll_start by poll instead of recording the time',
    'C16-agent1': 'persist caps retries at 5',
    'C17-agent1': 'reset() re-initialises State in place and forgets sent_close_time',
    'C18-agent1': 'SelectorBase.wait blocks in wait_readable before asking the TLS layer for pending bytes',
    'C19-agent1': '_connect_proxy breaks out of the read loop on an empty read and goes on',
    'C01-agent2': 'on_frame resets the UTF-8 validator after EVERY final frame (a Ping between text fragments cut inside a character)',
    'C02-agent2': 'Parser.feed checks max_bytes against the whole buffer before looking for the separator (frames coalesced with the reply count)',
    'C03-agent2': 'Frame.build uses `length < 0xFFFF` for the 16-bit form (65535 bytes sent with a 64-bit length)',
    'C04-agent2': 'parse sets _is_text only when the first fragment is non-empty (continuations of an empty first fragment unvalidated)',
    'C05-agent2': '_ReadUtf8.validate skips the validator for all-ASCII chunks (ASCII byte after an incomplete sequence accepted)',
    'C06-agent2': 'Deflate.decompress resets the inflater on reset_compress instead of reset_decompress',
    'C07-agent2': '_check_close_timeout treats sent_close_time == 0.0 as "no Close sent" (`not sent_close_time`)',
    'C08-agent2': '_send_pong catches only WebSocketClosed (a Ping while closing kills the loop)',
    'C09-agent2': 'run(): `except Exception` narrowed to (socket.error, WebSocketError)',
    'C10-agent2': 'WebSocket.__init__: `or "/"` fallback lost when the URL has a query (GET ?q HTTP/1.1)',
    'C11-agent2': 'send_compressed deflates under a separate _compress_lock, released before the write lock is taken',
    'C12-agent2': 'close(): state.closing = sent (a close() that lost the race clears the flag)',
    'C13-agent2': 'run(): selector created before the Connected yield (outside the try/finally that closes it)',
    'C14-agent2': 'parse reads every payload with read_text while a text message is open (Ping payload validated as UTF-8)',
    'C15-agent2': '_check_close_timeout: `if close_timeout and sent_close_time` (0.0 is falsy)',
    'C16-agent2': 'persist resets retries on Connected as well as Ready',
    'C17-agent2': 'FrameParser._utf8_validator becomes a class attribute (shared by all connections)',
    'C18-agent2': 'SelectorBase.wait asks pending() only of ssl.SSLSocket instances',
    'C19-agent2': 'Parser.feed drops _check_length(sep_index) (oversized terminated proxy answer accepted)',
    'C01-agent3': 'parse: `elif payload_length == 127` -> `if` (a 127-byte payload in 16-bit form is re-read as a 64-bit length)',
    'C02-agent3': '_ReadUtf8.validate returns early for chunks that decode as ASCII (verdict depends on where the reads were cut)',
    'C03-agent3': 'mask_payload masks large payloads in blocks of 65535 bytes (key lane restarts at every block)',
    'C04-agent3': 'stream.feed rejects a new data frame inside a fragmented message only if it has FIN=1',
    'C05-agent3': 'parse sets _is_text only for a non-empty first text fragment (fail-fast lost after an empty first fragment)',
    'C06-agent3': 'Deflate.from_options swaps server_max_window_bits and client_max_window_bits',
    'C07-agent3': 'run(): `except WebSocketError` around _send_request narrowed to TransportFail (close() at Connecting escapes)',
    'C08-agent3': '_send_close refuses len(payload) >= 125 (the longest valid reason, 123 bytes)',
    'C09-agent3': 'close() records sent_close_time only if the Close was written (failed write + silence: never times out)',
    'C10-agent3': 'on_response compares Accept and digest after rstrip("=") (padding dropped or added accepted)',
    'C11-agent3': 'send() hands the frame to write() in 64 KiB slices (lock released mid-frame)',
    'C12-agent3': '_on_close stores closing=False before closed=True again (window in which the websocket looks open)',
    'C13-agent3': 'run(): `except GeneratorExit` at the Connected yield became `except Exception` (GeneratorExit is a BaseException)',
    'C14-agent3': '_send_pong catches only WebSocketUnavailable (a failed pong write kills the loop)',
    'C15-agent3': '_check_ping_timeout skipped while the websocket is closing',
    'C16-agent3': 'persist: random_wait = max(max_wait - min_wait, 1) (delay exceeds max_wait for ranges below 1 s)',
    'C17-agent3': 'Deflate.from_options caches Deflate objects in a class-level dict (zlib contexts shared across connections)',
    'C18-agent3': 'parse awaits read_text(0) for an empty text payload (stays pending until more bytes arrive)',
    'C19-agent3': 'ProxyParser.parse accepts any 2xx status',
}


def main():
    rows = []
    for d in sorted(glob.glob('/verif/seeded/*/meta.json')):
        m = json.load(open(d))
        name = m['name']
        cr = (m.get('checks_run') or ['?'])[0].split(':')
        info = dict(x.split('=') for x in cr[1:] if '=' in x)
        first = (m.get('first_obligations') or [''])[0]
        first = first.replace(' no-failing-input-found', '')
        rep = info.get('replayed', '?')
        verdict = {'1': 'VIOLATION', '0': '**missed**', '2': 'undecided', '3': 'checker fault'}.get(info.get('exit'), '?')
        rows.append('| %s | %s | %s | %s | %s | `%s` |' % (name, WHAT.get(name, ''), m.get('tests_with_change', '').split(' in ')[0], verdict,
                                                        'yes' if rep not in ('0', '?') else ('no' if rep == '0' else '?'), first[:110]))
    print('| seed | the change | repository tests with it | `./check %s` | failing input replayed | first obligation that went red |' % 'Cxx')
    print('|---|---|---|---|---|---|')
    print('\n'.join(rows))


if __name__ == '__main__':
    main()
