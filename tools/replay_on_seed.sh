#!/bin/bash
# tools/replay_on_seed.sh <seeded-name> <cNN>: run one replay battery against a scratch worktree with the seeded change
N=$1; M=$2; W=/tmp/rs-$N
git -C /repo worktree remove --force $W >/dev/null 2>&1
git -C /repo worktree add -q --detach $W HEAD || exit 2
(cd $W && git apply /verif/seeded/$N/patch.diff) || { git -C /repo worktree remove --force $W; exit 2; }
LOMOND_ROOT=$W PYTHONPATH=$W:/verif /venv/bin/python -c "
from replay import $M
import json
print(json.dumps($M.replay({'name': 'x', 'model': None, 'verdict': 'refuted'}, {}), indent=1, default=str)[:1500])" 2>/dev/null
git -C /repo worktree remove --force $W >/dev/null 2>&1
