"""C16 replay: persist() on scripted connection outcomes, scripted random(), fake exit event."""
from replay import harness, ref
import lomond.persist as P
from lomond import events


class ExitEvent:
    def __init__(self, stop_after):
        self.waits, self.stop_after = [], stop_after

    def wait(self, t):
        self.waits.append(t)
        return len(self.waits) >= self.stop_after


def run_persist(outcomes, min_wait, max_wait, draws):
    """outcomes: list of 'fail' | 'reject' | 'drop-before-ready' | 'ready-then-drop' | 'ready-then-close'"""
    it = iter(outcomes)
    state = {}

    def script(ws):
        o = state['cur']
        if o == 'reject':
            return [b'HTTP/1.1 403 No\r\n\r\n', b'']
        if o == 'drop-before-ready':
            return [b'']
        if o == 'ready-then-drop':
            return [harness.response_for(ws.key) + ref.server_frame(1, b'x'), b'']
        return [harness.response_for(ws.key) + ref.server_frame(8, b'\x03\xe8'), b'']
    run = harness.Run()
    ws = harness.WebSocket('ws://example.com/')

    class S(harness.WebsocketSession):
        _selector_cls = harness.FakeSelector

        def _connect(s):
            state['cur'] = next(it)
            if state['cur'] == 'fail':
                raise OSError(111, 'refused')
            run.sock = harness.FakeSocket(script(ws))
            return run.sock, None
    orig_connect = ws.connect
    ws.connect = lambda **kw: orig_connect(session_class=S, **kw)
    di = iter(draws)
    saved = P.random
    P.random = lambda: next(di)
    ee = ExitEvent(len(outcomes))
    out = []
    try:
        for ev in P.persist(ws, poll=1, min_wait=min_wait, max_wait=max_wait, ping_rate=0, exit_event=ee):
            out.append(ev)
    finally:
        P.random = saved
    return out, ee


def replay(obligation, extra):
    tried = 0
    # "never ends by itself": a long outage (more consecutive failures than any fixed-width exponent survives)
    for nfail in (70, 1100):
        tried += 1
        outcomes = ['fail'] * nfail
        try:
            evs, ee = run_persist(outcomes, 5, 30, [0.5] * (nfail + 5))
            n_back = len([e for e in evs if e.name == 'back_off'])
            err = None if n_back == nfail else '%d BackOffs for %d attempts' % (n_back, nfail)
        except Exception as e:       # noqa
            err = 'persist() ended with %r' % (e,)
        if err:
            return dict(found=True, input='%d consecutive failed attempts, min_wait=5 max_wait=30' % nfail,
                        expected='one BackOff (within [5, 30]) after every attempt, for ever', observed=err)
    seqs = [['fail'] * 9, ['reject', 'fail', 'ready-then-drop', 'fail', 'fail', 'ready-then-close', 'drop-before-ready', 'fail'],
            ['drop-before-ready'] * 4 + ['ready-then-drop'] + ['fail'] * 8]
    for outcomes in seqs:
        for (lo, hi) in ((5, 30), (1, 600), (0, 3600), (2, 2)):
            for u in (0.0, 0.5, 0.999):
                tried += 1
                evs, ee = run_persist(outcomes, lo, hi, [u] * 100)
                k = 0
                attempt = 0
                saw_ready = False
                i = 0
                backoffs = [e for e in evs if e.name == 'back_off']
                if len(backoffs) != len(outcomes) or ee.waits != [b.delay for b in backoffs]:
                    return dict(found=True, input='outcomes %r, min_wait=%s max_wait=%s' % (outcomes, lo, hi), expected='one BackOff per attempt, waited for exactly that long',
                                observed='%d BackOffs for %d attempts; waits %r' % (len(backoffs), len(outcomes), ee.waits[:4]))
                seg = []
                for e in evs:
                    if e.name == 'back_off':
                        reached = any(x.name == 'ready' for x in seg)
                        k = 0 if reached else k + 1
                        limit = lo + min(hi - lo, 2 ** k)
                        exp = lo + u * min(hi - lo, 2 ** k)
                        if abs(e.delay - exp) > 1e-9 or not (lo <= e.delay <= hi):
                            return dict(found=True, input='outcomes %r, min_wait=%s max_wait=%s, random()=%s; attempt #%d (k=%d)' % (outcomes, lo, hi, u, attempt, k),
                                        expected='delay %s (upper limit %s)' % (exp, limit), observed='delay %s' % e.delay)
                        if not seg or seg[0].name != 'connecting' or seg[-1].name not in ('connect_fail', 'disconnected'):
                            return dict(found=True, input='outcomes %r' % outcomes, expected='connection events passed through unchanged', observed=[x.name for x in seg])
                        seg = []
                        attempt += 1
                    else:
                        seg.append(e)
    return dict(found=False, tried='%d persist() runs' % tried)


def known_finding(kf):
    return dict(found=False, error='no known finding is registered for C16')
