"""A small strict raw-DEFLATE (RFC 1951) decoder used as the independent RFC 7692 peer: it keeps
its history across messages (context takeover) and REFUSES any back-reference that reaches further
back than the negotiated LZ77 window (2^wbits) - which is what a peer that sized its window to
client_max_window_bits is entitled to do.  Written from RFC 1951; checked against zlib by
selftest()."""


class InflateError(Exception):
    pass


LBASE = [3, 4, 5, 6, 7, 8, 9, 10, 11, 13, 15, 17, 19, 23, 27, 31, 35, 43, 51, 59, 67, 83, 99, 115, 131, 163, 195, 227, 258]
LEXT = [0, 0, 0, 0, 0, 0, 0, 0, 1, 1, 1, 1, 2, 2, 2, 2, 3, 3, 3, 3, 4, 4, 4, 4, 5, 5, 5, 5, 0]
DBASE = [1, 2, 3, 4, 5, 7, 9, 13, 17, 25, 33, 49, 65, 97, 129, 193, 257, 385, 513, 769, 1025, 1537, 2049, 3073, 4097, 6145,
         8193, 12289, 16385, 24577]
DEXT = [0, 0, 0, 0, 1, 1, 2, 2, 3, 3, 4, 4, 5, 5, 6, 6, 7, 7, 8, 8, 9, 9, 10, 10, 11, 11, 12, 12, 13, 13]
CLORDER = [16, 17, 18, 0, 8, 7, 9, 6, 10, 5, 11, 4, 12, 3, 13, 2, 14, 1, 15]


def _huff(lengths):
    """canonical Huffman table: (length, code) -> symbol"""
    maxl = max(lengths) if lengths else 0
    count = [0] * (maxl + 1)
    for l in lengths:
        if l:
            count[l] += 1
    code = 0
    nxt = [0] * (maxl + 2)
    for bits in range(1, maxl + 1):
        code = (code + count[bits - 1]) << 1
        nxt[bits] = code
    table = {}
    for sym, l in enumerate(lengths):
        if l:
            table[(l, nxt[l])] = sym
            nxt[l] += 1
    return table, maxl


FIXED_LIT = _huff([8] * 144 + [9] * 112 + [7] * 24 + [8] * 8)
FIXED_DIST = _huff([5] * 30)


class StrictInflater:
    def __init__(self, wbits):
        self.window = 1 << wbits
        self.hist = bytearray()       # everything produced so far in this context
        self.finished = False

    def reset(self):
        self.hist = bytearray()
        self.finished = False

    def inflate_message(self, data):
        """inflate one message payload (with the 00 00 ff ff tail already appended by the caller)"""
        if self.finished:
            raise InflateError('stream already ended by a final block')
        self.data, self.pos, self.bit = bytes(data), 0, 0
        start = len(self.hist)
        while True:
            if self.pos >= len(self.data) and self.bit == 0:
                break
            final = self._bits(1)
            typ = self._bits(2)
            if typ == 0:
                self.bit = 0 if self.bit == 0 else 0
                if self._partial:
                    self.pos += 1
                    self._partial = False
                if self.pos + 4 > len(self.data):
                    raise InflateError('truncated stored block')
                ln = self.data[self.pos] | self.data[self.pos + 1] << 8
                nl = self.data[self.pos + 2] | self.data[self.pos + 3] << 8
                if ln != (~nl & 0xffff):
                    raise InflateError('stored block length check')
                self.pos += 4
                self.hist += self.data[self.pos:self.pos + ln]
                self.pos += ln
            elif typ == 1:
                self._codes(FIXED_LIT, FIXED_DIST)
            elif typ == 2:
                self._dynamic()
            else:
                raise InflateError('reserved block type')
            if final:
                self.finished = True
                break
        out = bytes(self.hist[start:])
        if len(self.hist) > 2 * self.window + 70000:
            del self.hist[:len(self.hist) - self.window]
        return out

    _partial = False

    def _bits(self, n):
        v = 0
        for i in range(n):
            if self.pos >= len(self.data):
                raise InflateError('unexpected end of data')
            v |= ((self.data[self.pos] >> self.bit) & 1) << i
            self.bit += 1
            self._partial = True
            if self.bit == 8:
                self.bit = 0
                self.pos += 1
                self._partial = False
        return v

    def _sym(self, table):
        tbl, maxl = table
        code = 0
        for l in range(1, maxl + 1):
            code = (code << 1) | self._bits(1)
            if (l, code) in tbl:
                return tbl[(l, code)]
        raise InflateError('invalid code')

    def _codes(self, lit, dist):
        while True:
            s = self._sym(lit)
            if s < 256:
                self.hist.append(s)
            elif s == 256:
                return
            else:
                s -= 257
                if s >= 29:
                    raise InflateError('invalid length symbol')
                ln = LBASE[s] + self._bits(LEXT[s])
                d = self._sym(dist)
                if d >= 30:
                    raise InflateError('invalid distance symbol')
                dd = DBASE[d] + self._bits(DEXT[d])
                if dd > self.window:
                    raise InflateError('back-reference of %d bytes exceeds the negotiated %d-byte window' % (dd, self.window))
                if dd > len(self.hist):
                    raise InflateError('invalid distance too far back')
                for _ in range(ln):
                    self.hist.append(self.hist[-dd])

    def _dynamic(self):
        hlit, hdist, hclen = self._bits(5) + 257, self._bits(5) + 1, self._bits(4) + 4
        cl = [0] * 19
        for i in range(hclen):
            cl[CLORDER[i]] = self._bits(3)
        cltab = _huff(cl)
        lengths = []
        while len(lengths) < hlit + hdist:
            s = self._sym(cltab)
            if s < 16:
                lengths.append(s)
            elif s == 16:
                if not lengths:
                    raise InflateError('repeat with no previous length')
                lengths += [lengths[-1]] * (3 + self._bits(2))
            elif s == 17:
                lengths += [0] * (3 + self._bits(3))
            else:
                lengths += [0] * (11 + self._bits(7))
        self._codes(_huff(lengths[:hlit]), _huff(lengths[hlit:hlit + hdist]))


def selftest():
    import random
    import zlib
    rnd = random.Random(1)
    for wb in (9, 12, 15):
        c = zlib.compressobj(-1, zlib.DEFLATED, -wb)
        p = StrictInflater(wb)
        for n in (0, 1, 50, 700, 5000):
            m = bytes(rnd.choice(b'abcdefgh') for _ in range(n)) + bytes(rnd.randrange(256) for _ in range(n // 7))
            z = c.compress(m) + c.flush(zlib.Z_SYNC_FLUSH)
            assert p.inflate_message(z) == m, (wb, n)
    c = zlib.compressobj(0, zlib.DEFLATED, -9)
    assert StrictInflater(9).inflate_message(c.compress(b'stored') + c.flush(zlib.Z_SYNC_FLUSH)) == b'stored'
    return True
