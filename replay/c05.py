"""C05 replay: text delivered iff strictly valid UTF-8; verdict independent of fragmentation and
read cuts; for uncompressed text the error is raised as soon as the first offending byte arrives."""
import itertools

from replay import harness, ref

GOOD = ['', 'a', 'é', '€', '\U0001f600', 'aé€\U0001f600z', '퟿', '\U0010ffff']
BAD = [b'\xc0\x80', b'\xed\xa0\x80', b'\xf4\x90\x80\x80', b'\xe2\x82', b'\xff', b'a\xc2', b'\xf8\x88\x80\x80\x80', b'\xef\xbf',
       b'ok\xf0\x8f\xbf\xbf', b'\xe0\x9f\xbf']


def frames_for(payload, cutpoints, interleave=None):
    """text message split into fragments at cutpoints, optionally a control frame between them"""
    parts = harness.cut(payload, cutpoints) or [b'']
    out = []
    for i, p in enumerate(parts):
        out.append(ref.server_frame(1 if i == 0 else 0, p, fin=1 if i == len(parts) - 1 else 0))
        if interleave is not None and i < len(parts) - 1:
            out.append(ref.server_frame(*interleave))
    return b''.join(out)


def frames_for_parts(parts):
    return b''.join(ref.server_frame(1 if i == 0 else 0, p, fin=1 if i == len(parts) - 1 else 0) for i, p in enumerate(parts))


def empty_fragment_check():
    """empty fragments (first, middle, final) neither change the verdict nor the decoding: in particular a sequence
    truncated at the end of the last NON-EMPTY fragment is still truncated when an empty FIN frame closes the message"""
    for payload, ok in [(t.encode('utf-8'), True) for t in GOOD] + [(b, False) for b in BAD]:
        n = len(payload)
        shapes = [[payload, b''], [b'', payload], [b'', payload, b'']]
        for c in range(1, n):
            shapes += [[payload[:c], b'', payload[c:]], [payload[:c], payload[c:], b''], [b'', payload[:c], payload[c:]]]
        for parts in shapes:
            stream = frames_for_parts(parts) + ref.server_frame(2, b'end')
            for cuts in (None, range(1, 2048)):
                run = harness.drive(stream=stream, cuts=cuts, connect_kwargs=dict(ping_rate=0))
                texts = [e.text for e in run.events if e.name == 'text']
                npe = sum(1 for e in run.events if e.name == 'protocol_error')
                desc = 'text message sent as fragments %r%s' % ([p.hex() for p in parts], ', one byte per read' if cuts else '')
                if ok and (texts != [payload.decode('utf-8')] or npe):
                    return dict(found=True, input=desc, expected='Text event with the exact decoding', observed='texts=%r protocol_errors=%d' % (texts, npe))
                if not ok and (texts or npe != 1):
                    return dict(found=True, input=desc, expected='one ProtocolError and no Text event', observed='texts=%r protocol_errors=%d' % (texts, npe))
    return None


def deliver_check():
    for payload, ok in [(t.encode('utf-8'), True) for t in GOOD] + [(b, False) for b in BAD]:
        n = len(payload)
        for cps in [()] + [(c,) for c in range(1, n)] + ([tuple(range(1, n))] if n > 2 else []):
            for inter in (None, (9, b'x'), (10, b'')):
                stream = frames_for(payload, cps, inter) + ref.server_frame(2, b'end')
                for cuts in (None, range(1, 2048)):
                    run = harness.drive(stream=stream, cuts=cuts, connect_kwargs=dict(ping_rate=0))
                    texts = [e.text for e in run.events if e.name == 'text']
                    npe = sum(1 for e in run.events if e.name == 'protocol_error')
                    desc = 'text payload %s split at %r%s%s' % (payload.hex(), cps, ' with %s frame between fragments' % ('Ping' if inter and inter[0] == 9 else 'Pong') if inter else '', ', one byte per read' if cuts else '')
                    if ok:
                        if texts != [payload.decode('utf-8')] or npe:
                            return dict(found=True, input=desc, expected='Text event with the exact decoding', observed='texts=%r protocol_errors=%d' % (texts, npe))
                    else:
                        if texts or npe != 1:
                            return dict(found=True, input=desc, expected='one ProtocolError and no Text event', observed='texts=%r protocol_errors=%d' % (texts, npe))
    return None


def fail_fast_check():
    """the stream stops right after the first offending byte (no EOF, the connection just stays
    silent): the ProtocolError must already have been reported"""
    for inter in (None, (9, b'x'), (10, b''), (9, b'')):
        for first in (b'a', b''):
            head = ref.server_frame(1, first, fin=0)
            if inter:
                head += ref.server_frame(*inter)
            cont = ref.server_frame(0, b'\xff' + b'x' * 9)
            upto = head + cont[:3]          # header of the continuation + its first (invalid) byte
            run = harness.drive(reads=lambda ws, upto=upto: [harness.response_for(ws.key) + upto, ('idle', 1), ('idle', 1), harness.ref_eof()],
                                connect_kwargs=dict(ping_rate=0, poll=1), clock=harness.Clock().install())
            names = [e.name for e in run.events]
            k_pe = names.index('protocol_error') if 'protocol_error' in names else None
            polls_before = names[:k_pe].count('poll') if k_pe is not None else None
            if k_pe is None or polls_before > 1:
                return dict(found=True, input='TEXT(fin=0, %r)%s, then a continuation whose first payload byte is 0xFF, then silence' % (
                    first, (' , %s' % ('PING' if inter[0] == 9 else 'PONG')) if inter else ''),
                    expected='ProtocolError as soon as the offending byte has arrived', observed='events: %r' % names)
    return None


# ill-formed payloads whose first offending byte is an ASCII byte (a continuation byte was required there)
BAD_ASCII = [b'\xe2abc', b'\xc3(', b'\xf0\x9f\x98!x', b'ab\xe2\x82z', b'\xdf\x7f']


def first_offending(payload):
    from spec import rfc3629
    s = rfc3629.START
    for i, b in enumerate(payload):
        s = rfc3629.step(s, b)
        if s == rfc3629.REJECT:
            return i
    return None


def fail_fast_by_read_check():
    """one unfragmented (or two-fragment) text message arrives in several reads, one of which STARTS with the first
    offending byte; after that read the stream stays silent: the ProtocolError must already have been reported,
    whatever the cut (the validator state is carried from read to read)"""
    for payload in BAD + BAD_ASCII:
        i = first_offending(payload)
        if i is None or i == 0:
            continue        # truncated sequences are only wrong at the end of the message; i == 0 needs no carried state
        for fragment in (False, True):
            if fragment:
                wire = ref.server_frame(1, payload[:i], fin=0) + ref.server_frame(0, payload[i:], fin=0)
                head = len(ref.server_frame(1, payload[:i], fin=0)) + 2
            else:
                wire = ref.server_frame(1, payload + b'tail', fin=0)
                head = 2 + i
            first, second = wire[:head], wire[head:head + 1]       # second = exactly the offending byte
            run = harness.drive(reads=lambda ws, a=first, b=second: [harness.response_for(ws.key) + a, b, ('idle', 1), ('idle', 1), harness.ref_eof()],
                                connect_kwargs=dict(ping_rate=0, poll=1), clock=harness.Clock().install())
            names = [e.name for e in run.events]
            k_pe = names.index('protocol_error') if 'protocol_error' in names else None
            polls_before = names[:k_pe].count('poll') if k_pe is not None else None
            if k_pe is None or polls_before > 1:
                return dict(found=True, input='text payload %s %s, a read ending just before byte %d, then a read with exactly that byte, then silence' % (
                    payload.hex(), 'as two fragments cut before the offending byte' if fragment else 'in one frame', i),
                    expected='ProtocolError as soon as the offending byte has arrived', observed='events: %r' % names)
    return None


def replay(obligation, extra):
    r = fail_fast_check() or fail_fast_by_read_check() or empty_fragment_check() or deliver_check()
    return r or dict(found=False, tried='delivery matrix (%d payloads x all 1-cut fragmentations x interleaved control frames x 2 segmentations) and fail-fast scenarios' % (len(GOOD) + len(BAD)))


def known_finding(kf):
    return dict(found=False, error='no known finding is registered for C05')
