"""C15 replay: virtual-clock histories; Poll spacing, ping grid, ping timeout, close timeout."""
import math
import os
import random
import struct

from replay import harness, ref


def run_history(arrivals, total, poll, ping_rate, ping_timeout, close_timeout, close_at=None):
    """arrivals: list of (t, bytes) after Ready (virtual seconds); returns (events with times, writes with times)"""
    clock = harness.Clock(1000.0).install()
    try:
        def reads(ws):
            out = [harness.response_for(ws.key)]
            t = 0.0
            for at, data in sorted(arrivals):
                if at > t:
                    out.append(('idle', at - t))
                    t = at
                out.append(data)
            if total > t:
                out.append(('idle', total - t))
            out.append(b'')
            return out
        times = []
        wt = []
        state = {}

        def react(ws, ev, k, run):
            if ev.name == 'ready':
                state['t0'] = clock.t
            times.append((ev.name, clock.t - state.get('t0', clock.t)))
            if close_at is not None and 'closed' not in state and ev.name == 'poll' and clock.t - state['t0'] >= close_at:
                ws.close()
                state['closed'] = clock.t - state['t0']
        run = harness.drive(reads=reads, react=react, connect_kwargs=dict(poll=poll, ping_rate=ping_rate, ping_timeout=ping_timeout, close_timeout=close_timeout), clock=clock)
        orig = run.sock
        times.append((run.events[-1].name, clock.t - state.get('t0', clock.t))) if run.events and run.events[-1].name == 'disconnected' and times[-1][0] != 'disconnected' else None
        return run, times, state
    finally:
        clock.uninstall()


def replay(obligation, extra):
    from replay import trickle
    r = trickle.check()
    if r:
        return r
    rnd = random.Random(int(os.environ.get('VERIF_SEED', '0') or 0))
    tried = 0
    T = ref.server_frame(1, b'x')
    PONG = ref.server_frame(10, b'')
    for poll in (1, 4):
        for trial in range(40):
            n = rnd.randrange(0, 6)
            arrivals = sorted((rnd.randrange(1, 60) / 4.0, T) for _ in range(n))
            total = 20
            tried += 1
            run, times, state = run_history(arrivals, total, poll, 0, None, None)
            polls = [t for nme, t in times if nme == 'poll']
            if not polls or polls[0] != 0:
                return dict(found=True, input='poll=%s, data at %r' % (poll, [a for a, _ in arrivals]), expected='first Poll right after Ready', observed='polls at %r' % polls[:5])
            for a, b in zip(polls, polls[1:]):
                if b - a < poll - 1e-9 or b - a > 2 * poll + 1e-9:
                    return dict(found=True, input='poll=%s, data arriving at t=%r after Ready' % (poll, [a_ for a_, _ in arrivals]),
                                expected='consecutive Polls between p and 2p apart', observed='Polls at t=%s and t=%s' % (a, b))
    # ping grid: with ping_rate r, one ping within p after Ready and after every multiple of r, never two in one period
    for r in (3, 5):
        for p in (1, 2):
            tried += 1
            clock = harness.Clock(1000.0).install()
            try:
                pings = []
                st = {}

                def reads(ws):
                    return [harness.response_for(ws.key)] + [('idle', 30)] + [b'']

                def react(ws, ev, k, run):
                    if ev.name == 'ready':
                        st['t0'] = clock.t
                run = harness.drive(reads=reads, react=react, connect_kwargs=dict(poll=p, ping_rate=r, ping_timeout=None, close_timeout=None), clock=clock)
            finally:
                clock.uninstall()
            n_pings = sum(1 for w in run.sock.out[1:] for d in ref.decode_all(w) if d and d['opcode'] == 9)
            expect = 30 // r + 1
            if abs(n_pings - expect) > 1:
                return dict(found=True, input='ping_rate=%s poll=%s, 30 s of silence' % (r, p), expected='about %d automatic pings (one per period)' % expect, observed='%d pings' % n_pings)
    tried += 1
    run, times, state = run_history([], 20, 1, 0, None, None)
    if any(d and d['opcode'] == 9 for w in run.sock.out[1:] for d in ref.decode_all(w)):
        return dict(found=True, input='ping_rate=0', expected='no automatic ping', observed='a ping was written')
    # ping timeout: Unresponsive iff more than t since Ready / last Pong
    for t_out in (3, 5):
        for pong_at in (None, 2.0):
            tried += 1
            arrivals = [(pong_at, PONG)] if pong_at else []
            run, times, state = run_history(arrivals, 30, 1, 0, t_out, None)
            un = [t for nme, t in times if nme == 'unresponsive']
            base = pong_at or 0
            if not un or not (base + t_out < un[0] <= base + t_out + 1 + 1e-9):
                return dict(found=True, input='ping_timeout=%s poll=1, last pong at %s' % (t_out, pong_at), expected='Unresponsive in (%s, %s]' % (base + t_out, base + t_out + 1), observed='unresponsive at %r; events %r' % (un, [n for n, _ in times][-4:]))
            if [n for n, _ in times][-1] != 'disconnected' or run.events[-1].graceful:
                return dict(found=True, input='ping_timeout=%s' % t_out, expected='non-graceful Disconnected after Unresponsive', observed=[n for n, _ in times][-3:])
    # the ping timeout keeps running while the client is closing (Close sent, server silent, no close timeout)
    for close_at in (1, 0):
        tried += 1
        run, times, state = run_history([], 12, 1, 0, 3, None, close_at=close_at)
        un = [t for nme, t in times if nme == 'unresponsive']
        if not un or not (3 < un[0] <= 4 + 1e-9):
            return dict(found=True, input='ping_timeout=3 poll=1, client close() at t=%s, server silent, close_timeout=None' % close_at,
                        expected='Unresponsive in (3, 4] and a non-graceful Disconnected', observed='unresponsive at %r; last events %r' % (un, [n for n, _ in times][-4:]))
    tried += 1
    run, times, state = run_history([], 12, 1, 0, None, None)
    if any(n == 'unresponsive' for n, _ in times):
        return dict(found=True, input='ping_timeout=None', expected='never Unresponsive', observed='Unresponsive')
    # close timeout
    for c, close_at in ((3, 2), (0, 2), (None, 2), (3, 0), (2.5, 0)):      # close_at=0: Close sent at session time exactly 0.0
        tried += 1
        run, times, state = run_history([], 15, 1, 0, None, c, close_at=close_at)
        end = [t for nme, t in times if nme == 'disconnected']
        sent = state.get('closed')
        if c:
            if not end or not (sent + c - 1e-9 <= end[0] <= sent + c + 1 + 1e-9) or run.events[-1].graceful:
                return dict(found=True, input='close() at t=%s, close_timeout=%s, poll=1, server silent' % (sent, c), expected='forced non-graceful Disconnected in [%s, %s]' % (sent + c, sent + c + 1),
                            observed='disconnected at %r graceful=%s' % (end, run.events[-1].graceful))
        else:
            if end and end[0] < 14.5:
                return dict(found=True, input='close() at t=%s, close_timeout=%r' % (sent, c), expected='no forced disconnect', observed='disconnected at %r' % end)
    return dict(found=False, tried='%d virtual-clock histories' % tried)


def known_finding(kf):
    return dict(found=False, error='no known finding is registered for C15')
