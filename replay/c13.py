"""C13 replay: abandon the real event iterator at every event index of a few scenarios, by each of
the four mechanisms, and look at the fake socket and selector afterwards."""
import gc

from replay import harness, ref

TEXT = ref.server_frame(1, b'hello')
PING = ref.server_frame(9, b'p')
CLOSE = ref.server_frame(8, b'\x03\xe8bye')
BAD = ref.server_frame(3, b'')                 # reserved opcode -> ProtocolError (non critical)
BADUTF = ref.server_frame(1, b'\xff')          # invalid utf-8 -> critical ProtocolError

SCENARIOS = [
    ('handshake + text + ping + server close', dict(stream=TEXT + PING + CLOSE)),
    ('handshake, then silence (Poll events between reads, poll=0)', dict(stream=b'', connect_kwargs=dict(poll=0), reads='idle')),
    ('reserved opcode (ProtocolError event)', dict(stream=TEXT + BAD + TEXT)),
    ('invalid utf-8 (critical ProtocolError event)', dict(stream=BADUTF)),
    ('rejected upgrade', dict(stream=b'', handshake='reject')),
    ('application closes at Ready, then silence (Poll events while closing)', dict(stream=b'', connect_kwargs=dict(poll=0), reads='idle', close_at='ready')),
    ('server Close echoed, then silence (Poll events while closing)', dict(stream=CLOSE, connect_kwargs=dict(poll=0), reads='idle-after-stream')),
]


def _run(sc, abandon_at, how):
    kw = dict(sc)
    hs = kw.pop('handshake', True)
    reads = kw.pop('reads', None)
    close_at = kw.pop('close_at', None)
    if close_at:
        kw['react'] = lambda ws, ev, k, run: ws.close() if ev.name == close_at else None
    if reads == 'idle-after-stream':
        stream = kw.pop('stream')
        kw['reads'] = lambda ws: [harness.response_for(ws.key) + stream, ('idle', 0), ('idle', 0), ('idle', 0), b'']
    if hs == 'reject':
        kw['reads'] = lambda ws: [b'HTTP/1.1 404 Not Found\r\n\r\n', b'']
    elif reads == 'idle':
        kw['reads'] = lambda ws: [harness.response_for(ws.key), ('idle', 0), ('idle', 0), ('idle', 0), b'']
    kw.setdefault('connect_kwargs', {})
    kw['connect_kwargs'].setdefault('ping_rate', 0)
    return harness.drive(abandon_at=abandon_at, abandon_how=how, **kw)


def sweep(only_first=True):
    for name, sc in SCENARIOS:
        full = _run(sc, None, 'break')
        n = len(full.events)
        for k in range(n):
            for how in ('break', 'raise', 'close', 'with'):
                r = _run(sc, k, how)
                gc.collect()
                ev = r.events[-1] if r.events else None
                leaks = []
                if r.sock is not None and not r.sock.closed:
                    leaks.append('socket not closed')
                if r.selector is not None and not r.selector.closed:
                    leaks.append('selector not closed')
                if leaks:
                    yield dict(found=True, input='scenario %r, consumer stops at event #%d (%s) by %s' % (name, k, ev.name if ev else None, how),
                               expected='socket and selector closed', observed=', '.join(leaks),
                               events=[harness.ev_summary(e) for e in r.events])
                    if only_first:
                        return


def replay(obligation, extra):
    for r in sweep():
        return r
    return dict(found=False, tried='%d scenarios x every event index x 4 abandonment mechanisms' % len(SCENARIOS))


def known_finding(kf):
    return dict(found=False, error='no known finding is registered for C13')
