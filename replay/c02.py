"""C02 replay: the same server byte stream under many segmentations must give identical events and
identical client writes (modulo masking keys: frames are compared after unmasking)."""
import os
import random
import struct
import zlib

from replay import harness, ref


def streams():
    text = 'αβγ €uro \U0001f600 end'.encode('utf-8')
    a = bytes(range(256)) * 2
    s1 = (ref.server_frame(1, text[:5], fin=0) + ref.server_frame(9, b'ping-1') + ref.server_frame(0, text[5:], fin=1) +
          ref.server_frame(2, a[:126]) + ref.server_frame(2, a, lenform=64) + ref.server_frame(9, b'') + ref.server_frame(8, struct.pack('!H', 1000) + b'done'))
    out = [('valid: fragmented text with ping, 126-byte and 64-bit-length binary, close', s1, b'', {})]
    out.append(('invalid utf-8 in the middle of a fragmented text', ref.server_frame(1, b'ok', fin=0) + ref.server_frame(0, b'\xe2\x82', fin=0) + ref.server_frame(0, b'\x41', fin=1) + ref.server_frame(1, b'after'), b'', {}))
    out.append(('reserved opcode after two messages', ref.server_frame(1, b'one') + ref.server_frame(2, b'two') + ref.server_frame(11, b'x') + ref.server_frame(1, b'after'), b'', {}))
    c = zlib.compressobj(-1, zlib.DEFLATED, -15)
    z1 = (c.compress(b'compressed message one ' * 20) + c.flush(zlib.Z_SYNC_FLUSH))[:-4]
    z2 = (c.compress(b'compressed message two ' * 20) + c.flush(zlib.Z_SYNC_FLUSH))[:-4]
    s4 = ref.server_frame(1, z1[:10], fin=0, rsv1=1) + ref.server_frame(9, b'p') + ref.server_frame(0, z1[10:], fin=1) + ref.server_frame(2, z2, rsv1=1) + ref.server_frame(1, b'plain')
    out.append(('permessage-deflate: fragmented compressed text, compressed binary, plain text', s4, b'Sec-WebSocket-Extensions: permessage-deflate\r\n', dict(compress=True)))
    out.append(('invalid: a truncated multi-byte sequence directly followed by ASCII inside ONE text frame, then a Ping and a text',
                ref.server_frame(1, b'\xe2\x82abc') + ref.server_frame(9, b'p') + ref.server_frame(1, b'after'), b'', {}))
    out.append(('invalid: truncated sequence at the end of a non-final fragment, ASCII in the next fragment, Ping between',
                ref.server_frame(1, b'ok\xe2\x82', fin=0) + ref.server_frame(9, b'p') + ref.server_frame(0, b'abc', fin=1) + ref.server_frame(1, b'after'), b'', {}))
    big = bytes((i * 7 + 3) % 256 for i in range(20000))
    out.append(('a 20 000-byte binary message coalesced with the handshake reply (more than the 16 KiB header limit in one read)',
                ref.server_frame(2, big) + ref.server_frame(1, b'after') + ref.server_frame(8, struct.pack('!H', 1000)), b'', {}))
    return out


def result_of(run):
    evs = []
    for e in run.events:
        d = harness.ev_summary(e)
        d.pop('url', None)
        evs.append(tuple(sorted((k, str(v)) for k, v in d.items())))
    writes = []
    for w in run.sock.out[1:]:
        for d in ref.decode_all(w):
            writes.append(None if d is None else (d['opcode'], d['fin'], d['rsv1'], d['payload']))
    return evs, writes, run.exception


def frame_boundaries(stream):
    out, off = [], 0
    while off < len(stream):
        d = ref.decode_one(stream[off:])
        if d is None:
            break
        off += d['total']
        out.append(off)
    return out


def cut_sets(total, header_len, seed, stream=b''):
    rnd = random.Random(seed)
    sets = [('one byte per read', range(1, total))]
    fb = [header_len + b for b in frame_boundaries(stream)]
    if fb:
        # the handshake reply in a read of its own, then every frame in a read of its own (payloads handed on from one
        # read must survive the next read into the same receive buffer), and variants
        sets.append(('reply, then one frame per read', [header_len] + fb[:-1]))
        sets.append(('reply, then two frames per read', [header_len] + fb[1:-1:2]))
        sets.append(('reply with the first frame header, then one frame per read', [header_len + 2] + fb[:-1]))
    # very small first reads (1-3 bytes), then the rest at once or with the end of the header in the next read
    for a in (1, 2, 3):
        sets.append(('first read of %d byte(s), then the rest' % a, [a]))
        sets.append(('reads of %d byte(s), then up to the end of the reply, then the rest' % a, [a, header_len]))
        sets.append(('two reads of %d byte(s), then the rest' % a, [a, 2 * a]))
        sets.append(('first read of %d byte(s), then up to the middle of the terminator, then the rest' % a, [a, header_len - 2]))
    interesting = [header_len - 3, header_len - 1, header_len, header_len + 1, header_len + 2, header_len + 3]
    for c in interesting:
        sets.append(('single cut at offset %d' % c, [c]))
    for c in range(header_len - 4, total, max(1, total // 60)):
        sets.append(('single cut at offset %d' % c, [c]))
    for _ in range(40):
        k = rnd.randrange(2, 9)
        sets.append(('cuts at %s' % sorted(rnd.sample(range(1, total), k)), None))
        sets[-1] = (sets[-1][0], eval(sets[-1][0][8:]))
    return sets


def replay(obligation, extra):
    seed = int(os.environ.get('VERIF_SEED', '0') or 0)
    tried = 0
    for name, stream, extra_hdr, wskw in streams():
        kw = dict(stream=stream, response_extra=extra_hdr, ws_kwargs=wskw, connect_kwargs=dict(ping_rate=0))
        base = result_of(harness.drive(**kw))
        header_len = len(harness.response_for(b'x' * 24, extra_hdr))
        total = header_len + len(stream)
        for desc, cuts in cut_sets(total, header_len, seed, stream):
            tried += 1
            got = result_of(harness.drive(cuts=cuts, **kw))
            if got != base:
                what = 'events' if got[0] != base[0] else ('client writes' if got[1] != base[1] else 'escaping exception')
                return dict(found=True, input='stream: %s; segmentation: %s (handshake reply is %d bytes)' % (name, desc, header_len),
                            expected='same events and same client writes as delivery in one read', observed='%s differ: %s vs %s' % (
                                what, [dict(e).get('name') for e in got[0]], [dict(e).get('name') for e in base[0]]))
    return dict(found=False, tried='%d segmentations over %d streams' % (tried, len(streams())))


def known_finding(kf):
    return dict(found=False, error='no known finding is registered for C02')
