"""Shared scenario of the C07 / C15 batteries: a peer that keeps the socket readable more often than the poll interval
without ever completing a message (one byte of a frame every 0.6 s).  Timers must not depend on what wait() returned."""
from replay import harness, ref


def check():
    for what in ('close_timeout', 'ping_timeout'):
        clock = harness.Clock(1000.0).install()
        times = []
        try:
            frame = ref.server_frame(2, bytes(60))

            def reads(ws):
                return [harness.response_for(ws.key)] + [('after', 0.6, frame[i:i + 1]) for i in range(40)] + [('idle', 30), b'']

            def react(ws, ev, k, run):
                times.append((ev.name, clock.t))
                if what == 'close_timeout' and ev.name == 'ready':
                    ws.close(1000, b'bye')
            kw = dict(ping_rate=0, poll=1, close_timeout=3) if what == 'close_timeout' else dict(ping_rate=0, poll=1, ping_timeout=3)
            run = harness.drive(reads=reads, react=react, connect_kwargs=kw, clock=clock, max_events=400)
        finally:
            clock.uninstall()
        names = [n for n, _t in times]
        t_ready = next((t for n, t in times if n == 'ready'), None)
        t_end = next((t for n, t in times if n == 'disconnected'), None)
        polls = [t for n, t in times if n == 'poll']
        gaps = [b - a for a, b in zip(polls, polls[1:])]
        desc = ('after Ready the server sends one byte of a 62-byte frame every 0.6 s for 24 s (the socket is readable more often than poll=1 '
                'but no message completes); %s' % ('the application called close() at Ready, close_timeout=3' if what == 'close_timeout' else 'ping_timeout=3, no Pong ever'))
        if run.exception:
            return dict(found=True, input=desc, expected='events', observed=run.exception)
        if t_ready is None:
            continue
        if t_end is None or t_end > t_ready + 3 + 1 + 0.7:
            return dict(found=True, input=desc, expected='a forced non-graceful Disconnected no later than %s after Ready' % ('c + p = 4 s' if what == 'close_timeout' else 't + p = 4 s'),
                        observed='Disconnected %s; %d Polls; events %r' % ('%.1f s after Ready' % (t_end - t_ready) if t_end else 'never within the script',
                                                                             len(polls), [n for n in names if n != 'poll'][:12]))
        if any(g > 2 + 1e-9 for g in gaps):
            return dict(found=True, input=desc, expected='Polls never further apart than 2p = 2 s', observed='Poll gaps %r' % gaps[:10])
    return None
