"""C14 replay: every Ping answered by exactly one identical Pong, in order, before the application
reacts; none with auto_pong off; silently dropped when closing / transport failed."""
import struct

from replay import harness, ref
from replay.run import model_ints


def replay(obligation, extra):
    from replay import pongrace
    r = pongrace.check()
    if r:
        return r
    lens = sorted(set([0, 1, 2, 124, 125] + [n for n in model_ints(obligation.get('model')) if n <= 125]))
    pings = [bytes((i * 7 + n) % 256 for i in range(n)) for n in lens]
    tried = 0
    layouts = []
    layouts.append(('pings back to back in one read', b''.join(ref.server_frame(9, p) for p in pings), pings))
    frag = ref.server_frame(1, b'he', fin=0) + ref.server_frame(9, pings[1]) + ref.server_frame(0, b'll', fin=0) + ref.server_frame(9, pings[-1]) + ref.server_frame(0, b'o', fin=1)
    layouts.append(('pings between the fragments of a text message', frag, [pings[1], pings[-1]]))
    layouts.append(('ping, text, ping', ref.server_frame(9, pings[2]) + ref.server_frame(1, b'x') + ref.server_frame(9, pings[3]), [pings[2], pings[3]]))
    for name, stream, expect in layouts:
        for auto_pong in (True, False):
            for cuts in (None, range(1, 2000)):
                tried += 1
                order = []

                def react(ws, ev, k, run):
                    if ev.name in ('ping', 'text'):
                        order.append(('event', ev.name, len(run.sock.out)))
                        try:
                            ws.send_text('app-reaction')
                        except Exception:
                            pass
                run = harness.drive(stream=stream, cuts=cuts, react=react, connect_kwargs=dict(ping_rate=0, auto_pong=auto_pong))
                frames = [d for w in run.sock.out[1:] for d in ref.decode_all(w)]
                pongs = [d['payload'] for d in frames if d and d['opcode'] == 10]
                names = [e.name for e in run.events]
                got_pings = [bytes(e.data) for e in run.events if e.name == 'ping']
                desc = '%s; auto_pong=%s%s' % (name, auto_pong, '; one byte per read' if cuts else '')
                if got_pings != expect:
                    return dict(found=True, input=desc, expected='%d Ping events' % len(expect), observed='%d Ping events; events %r' % (len(got_pings), names))
                if auto_pong and pongs != expect:
                    return dict(found=True, input=desc, expected='pongs %r' % [p.hex() for p in expect], observed='pongs %r' % [p.hex() for p in pongs])
                if not auto_pong and pongs:
                    return dict(found=True, input=desc, expected='no Pong written by the library', observed='%d pongs' % len(pongs))
                if auto_pong:
                    # each pong is on the wire before the application's reaction to that ping
                    seq = [('pong' if d['opcode'] == 10 else 'app' if d['opcode'] == 1 else 'other') for d in frames]
                    npong = 0
                    for s in seq:
                        if s == 'pong':
                            npong += 1
                        elif s == 'app':
                            pass
                    i_ping = 0
                    for kind, nm, nwire in order:
                        if nm == 'ping':
                            i_ping += 1
                            written = [d for w in run.sock.out[1:nwire] for d in ref.decode_all(w)]
                            if sum(1 for d in written if d and d['opcode'] == 10) < i_ping:
                                return dict(found=True, input=desc, expected='the Pong is written before the application sees the Ping', observed='Ping #%d handed to the application before its Pong was written' % i_ping)
    # closing state / failed transport: dropped silently
    for what in ('closing', 'transport'):
        tried += 1
        stream = ref.server_frame(1, b'go') + ref.server_frame(9, b'late') + ref.server_frame(1, b'after')
        kw = {}
        if what == 'closing':
            react = lambda ws, ev, k, run: ws.close() if ev.name == 'text' and ev.text == 'go' else None
        else:
            react = None
            kw['sock_kwargs'] = dict(fail_send_at=1)
        run = harness.drive(stream=stream, react=react, connect_kwargs=dict(ping_rate=0), **kw)
        names = [e.name for e in run.events]
        if run.exception or 'ping' not in names or names.count('text') != 2:
            return dict(found=True, input='Ping arriving while %s' % ('the client is closing' if what == 'closing' else 'the transport refuses writes'),
                        expected='Pong dropped silently, event stream undisturbed', observed='events %r %s' % (names, run.exception or ''))
    # close() on ANOTHER thread that has not written its Close frame yet (held just before it hands the frame on): a Ping
    # handled by the event loop at that moment is still owed its Pong ("has not yet sent a Close frame")
    from replay import sched
    for reason in (b'bye', 'bye'):
        tried += 1
        gate = sched.Gate(timeout=1.0)
        box = {}

        def react(ws, ev, k, run, gate=gate, box=box, reason=reason):
            if ev.name == 'text' and ev.text == 'go':
                box['t'] = sched.run_thread(sched.trace_gate(lambda: ws.close(1000, reason), 'close', '_send_close(', gate, 'websocket.py'), 'closer')
                gate.reached.wait(1.0)
            elif ev.name == 'ping':
                box['wire_at_ping'] = list(run.sock.out)
                gate.go.set()
                box['t'].join(2.0)
        stream = ref.server_frame(1, b'go') + ref.server_frame(9, b'late')
        run = harness.drive(stream=stream, react=react, connect_kwargs=dict(ping_rate=0))
        if 't' in box:
            gate.go.set()
            box['t'].join(2.0)
        at_ping = [d for w in box.get('wire_at_ping', [])[1:] for d in ref.decode_all(w)]
        closes_before = [d for d in at_ping if d and d['opcode'] == 8]
        pongs = [d for d in at_ping if d and d['opcode'] == 10 and d['payload'] == b'late']
        if gate.hits and not closes_before and not pongs:
            return dict(found=True, input='thread B is inside close(1000, %r) but has not written its Close frame yet (held just before it hands the frame on); '
                        'the event loop receives Ping(b"late")' % (reason,),
                        expected='the Pong is written: no Close frame has been sent', observed='no Pong; wire when the application sees the Ping: %r' % [d and d['opcode'] for d in at_ping])
    return dict(found=False, tried='%d runs' % tried)


def known_finding(kf):
    return dict(found=False, error='no known finding is registered for C14')
