"""C06 replay: permessage-deflate both ways against an independent peer built on zlib streams sized
to the NEGOTIATED parameters (a peer honouring client_max_window_bits may size its inflater to it)."""
import os
import random
import zlib

from replay import harness, ref
from replay.inflate import StrictInflater, InflateError


def ext_header(smw, cmw, snct, cnct, eq='='):
    parts = ['permessage-deflate']
    if smw is not None:
        parts.append('server_max_window_bits%s%d' % (eq, smw))
    if cmw is not None:
        parts.append('client_max_window_bits%s%d' % (eq, cmw))
    if snct:
        parts.append('server_no_context_takeover')
    if cnct:
        parts.append('client_no_context_takeover')
    return ('Sec-WebSocket-Extensions: ' + '; '.join(parts) + '\r\n').encode()


def payloads(seed=0):
    rnd = random.Random(seed)
    base = bytes(rnd.randrange(256) for _ in range(300))
    big = bytes(rnd.randrange(256) for _ in range(1500))
    return [big + big[:64], b'', b'a', b'hello hello hello hello', base + base[:40], bytes(rnd.randrange(256) for _ in range(700)),
            (b'abcdefghij' * 60), base[100:160] + b'tail']


EQ = ['=']


def connected(smw, cmw, snct, cnct):
    run = harness.Run()
    ws = harness.WebSocket('ws://example.com/', compress=True)
    S = harness.make_session_class(run, lambda w: [harness.response_for(w.key, ext_header(smw, cmw, snct, cnct, EQ[0]))])
    gen = ws.connect(session_class=S, ping_rate=0)
    for ev in gen:
        if ev.name in ('ready', 'rejected', 'disconnected', 'connect_fail'):
            break
    return ws, run.sock, gen, ev


def send_direction(smw, cmw, snct, cnct, msgs):
    ws, sock, gen, ev = connected(smw, cmw, snct, cnct)
    if ev.name != 'ready':
        return 'handshake with valid parameters not accepted: %s' % ev.name
    wb = cmw if cmw is not None else 15
    peer = StrictInflater(wb)          # refuses back-references beyond the negotiated window
    for i, m in enumerate(msgs):
        before = len(sock.out)
        ws.send_binary(m)
        new = sock.out[before:]
        if len(new) != 1:
            return 'message %d: wrote %d frames' % (i, len(new))
        d = ref.decode_one(new[0])
        if d is None or not d['rsv1'] or d['opcode'] != 2:
            return 'message %d: not a compressed binary frame' % i
        if cnct:
            peer = StrictInflater(wb)
        try:
            got = peer.inflate_message(d['payload'] + b'\x00\x00\xff\xff')
        except InflateError as e:
            return 'message %d (%d bytes): a peer with a 2^%d inflate window cannot decode it: %s' % (i, len(m), wb, e)
        if got != m:
            return 'message %d: peer decoded different content' % i
    before = len(sock.out)
    ws.send_binary(b'plain', compress=False)
    d = ref.decode_one(sock.out[-1])
    if d['rsv1'] or d['payload'] != b'plain':
        return 'compress=False frame is not sent verbatim'
    gen.close()
    return None


def recv_direction(smw, cmw, snct, cnct, msgs, final_block_at=None, frag=None):
    wb = smw if smw is not None else 15
    comp = zlib.compressobj(-1, zlib.DEFLATED, -max(9, wb))
    stream = b''
    expect = []
    for i, m in enumerate(msgs):
        if snct:
            comp = zlib.compressobj(-1, zlib.DEFLATED, -max(9, wb))
        if final_block_at == i:
            z = comp.compress(m) + comp.flush(zlib.Z_FINISH)          # ends with a BFINAL=1 block (RFC 7692 7.2.3.4)
            comp = zlib.compressobj(-1, zlib.DEFLATED, -max(9, wb))
        else:
            z = (comp.compress(m) + comp.flush(zlib.Z_SYNC_FLUSH))[:-4]
        if frag and len(z) > 2:
            k = max(1, len(z) // 2)
            stream += ref.server_frame(2, z[:k], fin=0, rsv1=1) + ref.server_frame(9, b'mid') + ref.server_frame(0, z[k:], fin=1)
            expect.append(('binary', m))
        else:
            stream += ref.server_frame(2, z, rsv1=1)
            expect.append(('binary', m))
        stream += ref.server_frame(1, b'plain %d' % i)
        expect.append(('text', 'plain %d' % i))
    run = harness.drive(stream=stream, response_extra=ext_header(smw, cmw, snct, cnct), ws_kwargs=dict(compress=True),
                        connect_kwargs=dict(ping_rate=0, auto_pong=False))
    got = [(e.name, e.data if e.name == 'binary' else e.text) for e in run.events if e.name in ('binary', 'text')]
    npe = sum(1 for e in run.events if e.name == 'protocol_error')
    for k, (g, x) in enumerate(zip(got, expect)):
        if g != x:
            return 'message #%d delivered with wrong content (%s, %d bytes instead of %d)' % (k, g[0], len(g[1]), len(x[1]))
    if len(got) < len(expect) and not npe:
        return 'only %d of %d messages delivered and no ProtocolError' % (len(got), len(expect))
    if final_block_at is None and (npe or len(got) != len(expect)):
        # the peer's stream is valid for the negotiated parameters: nothing may be lost or refused
        return 'valid compressed stream: %d of %d messages delivered, %d ProtocolError event(s)' % (len(got), len(expect), npe)
    return None


def battery(configs=None, eof=True):
    msgs = payloads()
    configs = configs or [(s, c, a, b) for s in (8, 9, 12, 15, None) for c in (8, 9, 10, 15, None) for a in (0, 1) for b in (0, 1)]
    for (smw, cmw, snct, cnct) in configs:
        err = send_direction(smw, cmw, snct, cnct, msgs)
        if err:
            yield dict(found=True, input='client sends compressed; negotiated server_max_window_bits=%s client_max_window_bits=%s server_no_context_takeover=%s client_no_context_takeover=%s' % (smw, cmw, bool(snct), bool(cnct)),
                       expected='an RFC 7692 peer honouring these parameters restores every message', observed=err)
        for frag in (False, True):
            err = recv_direction(smw, cmw, snct, cnct, msgs, frag=frag)
            if err:
                yield dict(found=True, input='peer sends compressed%s; server_max_window_bits=%s client_max_window_bits=%s server_no_context_takeover=%s client_no_context_takeover=%s' % (' fragmented with a Ping between fragments' if frag else '', smw, cmw, bool(snct), bool(cnct)),
                           expected='every message delivered with its original content', observed=err)
        if eof:
            err = recv_direction(smw, cmw, snct, cnct, msgs[2:5], final_block_at=0)
            if err:
                yield dict(found=True, input='peer ends the first compressed message with a BFINAL=1 block (RFC 7692 7.2.3.4), then sends more; server_max_window_bits=%s server_no_context_takeover=%s' % (smw, bool(snct)),
                           expected='later messages correct or a ProtocolError, never wrong content', observed=err)


def replay(obligation, extra):
    for eq in ('=', ' = ', '= ', ' ='):
        EQ[0] = eq
        for r in battery(configs=None if eq == '=' else [(10, 10, 0, 0), (15, 9, 0, 1), (None, 12, 1, 0)], eof=(eq == '=')):
            if eq != '=':
                r['input'] += ' (parameters spelled with %r)' % eq
            return r
    EQ[0] = '='
    return dict(found=False, tried='100 parameter combinations x 7-message histories, both directions, fragmented and BFINAL variants')


def known_finding(kf):
    return dict(found=False, error='no known finding is registered for C06')
