"""C17 replay: previous connection ended in some abnormal way; the next connect() on the SAME object
must behave exactly like a fresh WebSocket against the same server script."""
import struct
import zlib

from replay import harness, ref

EXT = b'Sec-WebSocket-Extensions: permessage-deflate\r\n'


def first_connections():
    T = ref.server_frame(1, b'hello')
    yield 'mid-header', dict(reads=lambda ws: [harness.response_for(ws.key)[:30], b''])
    yield 'mid-frame', dict(reads=lambda ws: [harness.response_for(ws.key) + T[:3], b''])
    yield 'mid-fragmented-text (incomplete utf-8)', dict(reads=lambda ws: [harness.response_for(ws.key) + ref.server_frame(1, b'\xe2\x82', fin=0), b''])
    c = zlib.compressobj(-1, zlib.DEFLATED, -15)
    z = (c.compress(b'context ' * 50) + c.flush(zlib.Z_SYNC_FLUSH))[:-4]
    yield 'mid-compression-context', dict(reads=lambda ws: [harness.response_for(ws.key, EXT) + ref.server_frame(1, z, rsv1=1), b''], ws_compress=True)
    yield 'while closing (application closed, no reply)', dict(reads=lambda ws: [harness.response_for(ws.key) + T, b''], close_at='text')
    yield 'server close echoed', dict(reads=lambda ws: [harness.response_for(ws.key) + ref.server_frame(8, struct.pack('!H', 1001)), b''])
    yield 'rejected', dict(reads=lambda ws: [b'HTTP/1.1 403 No\r\n\r\n', b''])
    yield 'failed to connect', dict(connect_exc=OSError(111, 'refused'))
    yield 'abandoned at Ready', dict(reads=lambda ws: [harness.response_for(ws.key) + T, b''], abandon_at=2)
    yield 'protocol error', dict(reads=lambda ws: [harness.response_for(ws.key) + ref.server_frame(3, b''), b''])


def second_script(ws):
    c = zlib.compressobj(-1, zlib.DEFLATED, -15)
    msgs = [ref.server_frame(1, b'one'), ref.server_frame(1, 'zwölf'.encode(), fin=1), ref.server_frame(9, b'p'), ref.server_frame(2, b'\x00\x01', fin=0), ref.server_frame(0, b'\x02')]
    return msgs


def drive_second(ws_factory, clock):
    def reads(ws):
        out = [harness.response_for(ws.key)]
        for m in second_script(ws):
            out += [('idle', 40), m]
        out += [('idle', 40), ref.server_frame(8, struct.pack('!H', 1000)), b'']
        return out
    return reads


def summary(run):
    def one(e):
        d = dict(harness.ev_summary(e))
        r = getattr(e, 'response', None)
        if r is not None:
            # what the application is told about the upgrade reply (left-over bytes of an earlier connection in front of the
            # status line still give a 101 - and a mangled version / reason); the Accept value depends on the fresh key
            d['response'] = (r.http_ver, r.status_code, r.status, sorted((k, v) for k, v in r.headers.items() if k != 'sec-websocket-accept'))
        return tuple(sorted((k, str(v)) for k, v in d.items() if k != 'url'))
    return [one(e) for e in run.events], len(run.sock.out) if run.sock else 0


def replay(obligation, extra):
    tried = 0
    # the reference behaviour of a fresh object, taken FIRST, while nothing has run in this process yet: state shared
    # between instances (class attributes, module globals) would otherwise pollute the reference just like the subject
    baseline = {}
    for compress in (False, True):
        clock = harness.Clock(1000.0).install()
        try:
            baseline[compress] = summary(drive_on(harness.WebSocket('ws://example.com/', compress=compress), reads=drive_second(None, clock), clock=clock))
        finally:
            clock.uninstall()
    for name, kw in first_connections():
        kw = dict(kw)
        compress = kw.pop('ws_compress', False)
        close_at = kw.pop('close_at', None)
        clock = harness.Clock(1000.0).install()
        try:
            ws = harness.WebSocket('ws://example.com/', compress=compress)
            react = (lambda w, ev, k, run: w.close() if ev.name == close_at else None) if close_at else None
            first = drive_on(ws, react=react, clock=clock, **kw)
            keys = [first.key]
            second = drive_on(ws, reads=drive_second(None, clock), clock=clock)
            fresh_ws = harness.WebSocket('ws://example.com/', compress=compress)
            clock.t = 1000.0
            fresh = drive_on(fresh_ws, reads=drive_second(None, clock), clock=clock)
        finally:
            clock.uninstall()
        tried += 1
        if second.key == first.key:
            return dict(found=True, input='previous connection ended: %s' % name, expected='a new handshake key', observed='the key was reused')
        for ref_name, ref_summary in (('a fresh WebSocket', summary(fresh)), ('a fresh WebSocket in a fresh process', baseline[compress])):
            if summary(second) != ref_summary:
                break
        else:
            continue
        if True:
            a, b = summary(second), ref_summary
            return dict(found=True, input='previous connection on the same WebSocket object ended: %s; then the object connects again' % name,
                        expected='exactly the events of a fresh WebSocket: %r' % [dict(e).get('name') for e in b[0]],
                        observed='%r' % [dict(e).get('name') + (':' + dict(e).get('reason', '') if dict(e).get('name') == 'disconnected' else '') for e in a[0]])
    return dict(found=False, tried='%d (previous ending, next connection) pairs' % tried)


def drive_on(ws, reads=None, react=None, clock=None, connect_exc=None, abandon_at=None):
    run = harness.Run()
    harness.FakeSelector.instances = []
    harness.FakeSelector.clock = clock
    S = harness.make_session_class(run, reads or (lambda w: [b'']), connect_exc=connect_exc)
    kw = dict(session_class=S, poll=5, ping_rate=0, close_timeout=30)
    try:
        harness._loop(run, ws, kw, react, abandon_at, 'break', 10000)
    except harness._Abandon:
        pass
    except Exception as e:
        run.exception = repr(e)
    import gc
    gc.collect()
    run.key = ws.key
    return run


def known_finding(kf):
    return dict(found=False, error='no known finding is registered for C17')
