"""C04 replay: valid prefix + one violating frame (+ trailing valid frames), under a few
segmentations; oracle from the property: prefix delivered, exactly one ProtocolError, nothing of the
violating frame or after it delivered, non-graceful Disconnected, at most one Close written."""
import struct

from replay import harness, ref
from replay.run import model_ints

PREFIX = [(1, b'one'), (9, b'pp'), (2, b'\x00\x01')]


def violations(lengths):
    v = []
    for op in (3, 4, 5, 6, 7, 11, 12, 13, 14, 15):
        v.append(('reserved opcode %d' % op, ref.server_frame(op, b'x')))
    v.append(('rsv1 without extension', ref.server_frame(1, b'x', rsv1=1)))
    v.append(('rsv2', ref.server_frame(1, b'x', rsv2=1)))
    v.append(('rsv3', ref.server_frame(2, b'x', rsv3=1)))
    for op in (8, 9, 10):
        v.append(('fragmented control frame opcode %d' % op, ref.server_frame(op, b'', fin=0)))
        for n in lengths:
            if n > 125:
                body = (struct.pack('!H', 1000) + b'r' * (n - 2)) if op == 8 else b'p' * n
                v.append(('control frame opcode %d with %d-byte payload' % (op, n), ref.server_frame(op, body)))
    v.append(('masked frame', ref.server_frame(1, b'x', mask=b'\x01\x02\x03\x04')))
    v.append(('continuation with nothing to continue', ref.server_frame(0, b'x')))
    v.append(('new data frame inside a fragmented message', ref.server_frame(1, b'a', fin=0) + ref.server_frame(2, b'b')))
    v.append(('non-final new data frame inside a fragmented message', ref.server_frame(1, b'a', fin=0) + ref.server_frame(1, b'b', fin=0)))
    v.append(('non-final binary frame inside a fragmented text message, after a Pong', ref.server_frame(1, b'a', fin=0) + ref.server_frame(0, b'b', fin=0) + ref.server_frame(2, b'c', fin=0)))
    v.append(('length with the top bit set', bytes([0x82, 127]) + struct.pack('!Q', 1 << 63)))
    v.append(('1-byte close payload', ref.server_frame(8, b'\x03')))
    for code in (0, 999, 1004, 1005, 1006, 1015, 1016, 2999):
        v.append(('reserved close code %d' % code, ref.server_frame(8, struct.pack('!H', code))))
    v.append(('invalid utf-8 in text', ref.server_frame(1, b'ab\xff')))
    v.append(('invalid utf-8 in close reason', ref.server_frame(8, struct.pack('!H', 1000) + b'\xc0\x80')))
    v.append(('invalid utf-8 in a non-final continuation of a text message whose first fragment is empty', ref.server_frame(1, b'', fin=0) + ref.server_frame(0, b'\xff\xfe', fin=0)))
    v.append(('invalid utf-8 in a non-final continuation of a text message', ref.server_frame(1, b'ok', fin=0) + ref.server_frame(0, b'\xff\xfe', fin=0)))
    return v


def compressed_violations():
    import zlib
    c = zlib.compressobj(-1, zlib.DEFLATED, -15)
    z = (c.compress(b'A' * 200) + c.flush(zlib.Z_SYNC_FLUSH))[:-4]
    return [('RSV1 on a Ping (permessage-deflate negotiated; inflates to 200 bytes)', ref.server_frame(9, z, rsv1=1)),
            ('RSV1 on a Pong (permessage-deflate negotiated)', ref.server_frame(10, z, rsv1=1)),
            ('RSV1 on a Close (permessage-deflate negotiated)', ref.server_frame(8, z, rsv1=1))]


def judge(name, run, nprefix):
    evs = run.events
    names = [e.name for e in evs]
    if run.exception:
        return 'exception escaped the iterator: %s' % run.exception
    msgs = [e for e in evs if e.name in ('text', 'binary', 'ping', 'pong', 'closing', 'closed')]
    exp = [('text', 'one'), ('ping', b'pp'), ('binary', b'\x00\x01')][:nprefix]
    got = [(e.name, getattr(e, 'text', None) if e.name == 'text' else getattr(e, 'data', None)) for e in msgs]
    if got[:len(exp)] != exp:
        return 'messages before the violation not delivered intact: %r' % (got,)
    if len(got) > len(exp):
        return 'content of the violating frame (or later) delivered: %r' % (got[len(exp):],)
    npe = names.count('protocol_error')
    if npe != 1:
        return '%d ProtocolError events' % npe
    if names[-1] != 'disconnected' or evs[-1].graceful:
        return 'does not end with a non-graceful Disconnected: %r' % names[-3:]
    after = names[names.index('protocol_error') + 1:]
    if any(n not in ('disconnected', 'poll') for n in after):
        return 'events after the ProtocolError: %r' % after
    frames = [ref.decode_one(w) for w in run.sock.out[1:]]
    wrote = [f for f in frames if f is not None]
    wire_after = run.sock.out[run.wire_at_event[names.index('protocol_error')]:]
    dec = [ref.decode_one(w) for w in wire_after]
    if len(dec) > 1 or any(d is None or d['opcode'] != 8 for d in dec):
        return 'wrote after the error: %r' % [w[:8].hex() for w in wire_after]
    return None


def replay(obligation, extra):
    lengths = sorted(set([126, 127, 200] + [n for n in model_ints(obligation.get('model')) if 125 < n < 70000]))[:6]
    tried = 0
    for nprefix in (0, 3):
        pre = b''.join(ref.server_frame(op, p) for op, p in PREFIX[:nprefix])
        for name, bad in violations(lengths):
            for trailing_name, trailing in (('', ref.server_frame(1, b'after')), (', then a Ping', ref.server_frame(9, b'late'))):
                stream = pre + bad + trailing
                name2 = name + trailing_name
                for cuts in (None, 'bytewise'):
                    kw = {}
                    if cuts == 'bytewise':
                        kw['cuts'] = range(1, 4096)
                    for auto_pong in (True, False):
                        tried += 1
                        run = harness.drive(stream=stream, connect_kwargs=dict(ping_rate=0, auto_pong=auto_pong), **kw)
                        err = judge(name2, run, nprefix)
                        if err:
                            return dict(found=True, input='%d valid messages, then: %s%s%s' % (nprefix, name2, ' (one byte per read)' if cuts else '', '' if auto_pong else ' (auto_pong off)'),
                                        expected='prefix delivered, one ProtocolError, nothing after, non-graceful Disconnected, at most one Close written',
                                        observed=err, events=[harness.ev_summary(e) for e in run.events][-6:], stream=stream[:48].hex())
    for name, bad in compressed_violations():
        for auto_pong in (True, False):
            tried += 1
            run = harness.drive(stream=bad + ref.server_frame(1, b'after'), response_extra=b'Sec-WebSocket-Extensions: permessage-deflate\r\n',
                                ws_kwargs=dict(compress=True), connect_kwargs=dict(ping_rate=0, auto_pong=auto_pong))
            err = judge(name, run, 0)
            if err:
                return dict(found=True, input='%s%s' % (name, '' if auto_pong else ' (auto_pong off)'),
                            expected='one ProtocolError, nothing of the frame delivered, non-graceful Disconnected',
                            observed=err, events=[harness.ev_summary(e) for e in run.events][-4:])
    # histories: an EARLIER connection in this process negotiated permessage-deflate and received legal RSV1 / long frames;
    # a later connection WITHOUT the extension gets the same header bytes - validity is per connection
    import zlib
    c = zlib.compressobj(-1, zlib.DEFLATED, -15)
    z = (c.compress(b'hello hello hello') + c.flush(zlib.Z_SYNC_FLUSH))[:-4]
    for op in (1, 2):
        tried += 1
        legal = ref.server_frame(op, z, rsv1=1)
        harness.drive(stream=legal + ref.server_frame(op, b'plain'), response_extra=b'Sec-WebSocket-Extensions: permessage-deflate\r\n',
                      ws_kwargs=dict(compress=True), connect_kwargs=dict(ping_rate=0))
        name = 'rsv1 without extension, after an earlier connection of this process had negotiated permessage-deflate and received the same header'
        run = harness.drive(stream=ref.server_frame(1, b'one') + ref.server_frame(op, b'x' * len(z), rsv1=1) + ref.server_frame(1, b'after'), connect_kwargs=dict(ping_rate=0))
        err = judge(name, run, 1)
        if err:
            return dict(found=True, input=name, expected='one ProtocolError, nothing of the frame delivered, non-graceful Disconnected',
                        observed=err, events=[harness.ev_summary(e) for e in run.events][-4:])
    # reserved close code arriving while the client is already closing (it called close() first, or it
    # already echoed a first server Close)
    for code in (999, 1005, 1006, 1015, 2999):
        for first in ('client', 'server'):
            tried += 1
            bad = ref.server_frame(8, struct.pack('!H', code) + b'x')
            if first == 'client':
                stream = ref.server_frame(1, b'one') + bad
                react = lambda ws, ev, k, run: ws.close() if ev.name == 'text' else None
            else:
                stream = ref.server_frame(8, struct.pack('!H', 1000)) + bad
                react = None
            run = harness.drive(stream=stream, react=react, cuts=range(1, 4096), connect_kwargs=dict(ping_rate=0))
            names = [e.name for e in run.events]
            bad_events = [harness.ev_summary(e) for e in run.events if e.name in ('closed', 'closing') and getattr(e, 'code', None) == code]
            if bad_events or (first == 'client' and names.count('protocol_error') != 1):
                return dict(found=True, input='Close with reserved code %d arriving after %s' % (code, 'the application called close()' if first == 'client' else 'a first valid server Close was echoed'),
                            expected='ProtocolError, the reserved code never delivered', observed='events: %r' % names)
    return dict(found=False, tried='%d runs: every violation class x 2 prefixes x 2 segmentations x auto_pong on/off' % tried)


def known_finding(kf):
    return dict(found=False, error='no known finding is registered for C04')
