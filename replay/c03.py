"""C03 replay: run the real send API / Frame.build / mask_payload on concrete inputs taken from the
solver model plus the boundary battery, and judge the bytes written with the independent RFC 6455
decoder (replay/ref.py)."""
import struct
import zlib

from replay import harness, ref
from replay.run import model_ints

BOUNDARY = [0, 1, 2, 123, 124, 125, 126, 127, 128, 200, 65535, 65536, 65537]


def _connected(compress=False, wbits=None):
    """a WebSocket at Ready with a fake socket; returns (ws, sock)"""
    holder = {}
    extra = b''
    if compress:
        extra = b'Sec-WebSocket-Extensions: permessage-deflate\r\n'

    def react(ws, ev, k, run):
        if ev.name == 'ready':
            holder['ws'], holder['sock'] = ws, run.sock
            raise harness._Abandon()
    # stop at Ready by raising out of the loop would close the socket; instead drive manually
    run = harness.Run()
    ws = harness.WebSocket('ws://example.com/', compress=compress)
    S = harness.make_session_class(run, lambda w: [harness.response_for(w.key, extra)])
    gen = ws.connect(session_class=S, ping_rate=0)
    for ev in gen:
        if ev.name == 'ready':
            break
    return ws, run.sock, gen


def _payload(n, salt=0):
    return bytes((i * 7 + salt) % 256 for i in range(n))


def _check_frame(before, sock, opcode, expected, compressed=False, inflater=None):
    new = sock.out[before:]
    if len(new) != 1:
        return 'wrote %d frames' % len(new)
    ds = ref.decode_all(new[0])
    if len(ds) != 1 or ds[0] is None:
        return 'the bytes of one write decode to %d frames' % len(ds)
    d = ds[0]
    err = ref.valid_client_frame(d, opcode)
    if err:
        return err
    if d['total'] != len(new[0]):
        return 'trailing bytes'
    if compressed:
        if d['rsv1'] != 1:
            return 'RSV1 not set on a compressed send'
        try:
            got = inflater.decompress(d['payload'] + b'\x00\x00\xff\xff')
        except zlib.error as e:
            return 'peer cannot inflate: %s' % e
        if got != expected:
            return 'inflated payload differs'
    else:
        if d['rsv1']:
            return 'RSV1 set without compression'
        if d['payload'] != expected:
            return 'unmasked payload differs from the caller\'s (%d vs %d bytes)' % (len(d['payload']), len(expected))
    return None


def api_battery(lengths):
    """yield (description, callable(ws) , opcode, expected_payload or exception class)"""
    for n in lengths:
        p = _payload(n)
        yield ('send_binary(%d bytes)' % n, lambda ws, p=p: ws.send_binary(p), 2, p)
        t = ''.join(chr(0x20 + (i % 0x5e)) for i in range(n))
        if n % 3 == 1:
            t = t[:-1] + 'é' if t else '\U0001f600'
        yield ('send_text(%d chars)' % n, lambda ws, t=t: ws.send_text(t), 1, t.encode('utf-8'))
        if n <= 125:
            yield ('send_ping(%d bytes)' % n, lambda ws, p=p: ws.send_ping(p), 9, p)
            yield ('send_pong(%d bytes)' % n, lambda ws, p=p: ws.send_pong(p), 10, p)
        else:
            yield ('send_ping(%d bytes)' % n, lambda ws, p=p: ws.send_ping(p), 9, ValueError)
            yield ('send_pong(%d bytes)' % n, lambda ws, p=p: ws.send_pong(p), 10, ValueError)
        if n <= 123:
            r = p.replace(b'\xff', b'a').decode('latin-1').encode('utf-8')[:n] if False else bytes(0x61 + (i % 26) for i in range(n))
            yield ('close(1000, %d-byte reason)' % n, lambda ws, r=r: ws.close(1000, r), 8, struct.pack('!H', 1000) + r)
        else:
            r = bytes(0x61 + (i % 26) for i in range(n))
            yield ('close(1000, %d-byte reason)' % n, lambda ws, r=r: ws.close(1000, r), 8, ValueError)
    # text reasons: the limit is on the UTF-8 form (123 bytes), not on the number of characters
    for ch in ('\xe9', '\u20ac', '\U0001f600'):
        w = len(ch.encode('utf-8'))
        for nbytes in (123 - (123 % w), 123 - (123 % w) + w, 122 + w if (122 + w) % w == 0 else None):
            if nbytes is None:
                continue
            pad = ''
            reason = ch * (nbytes // w)
            enc = reason.encode('utf-8')
            if len(enc) <= 123:
                yield ('close(1001, str of %d chars = %d UTF-8 bytes)' % (len(reason), len(enc)), lambda ws, reason=reason: ws.close(1001, reason), 8, struct.pack('!H', 1001) + enc)
            else:
                yield ('close(1001, str of %d chars = %d UTF-8 bytes)' % (len(reason), len(enc)), lambda ws, reason=reason: ws.close(1001, reason), 8, ValueError)
        reason = 'a' * 122 + ch
        yield ('close(1001, str of 123 chars = %d UTF-8 bytes)' % len(reason.encode('utf-8')), lambda ws, reason=reason: ws.close(1001, reason), 8, ValueError)
    for bad, what in ((b'x', 'bytes'), (bytearray(b'x'), 'bytearray'), (5, 'int'), (None, 'None'), (object(), 'object')):
        yield ('send_text(%s)' % what, lambda ws, bad=bad: ws.send_text(bad), 1, TypeError)
    for bad, what in (('x', 'str'), (bytearray(b'x'), 'bytearray'), (5, 'int'), (None, 'None')):
        yield ('send_binary(%s)' % what, lambda ws, bad=bad: ws.send_binary(bad), 2, TypeError)
        yield ('send_ping(%s)' % what, lambda ws, bad=bad: ws.send_ping(bad), 9, TypeError)
        yield ('send_pong(%s)' % what, lambda ws, bad=bad: ws.send_pong(bad), 10, TypeError)
    yield ('send_json({"a": [1, 2]})', lambda ws: ws.send_json({'a': [1, 2]}), 1, b'{"a": [1, 2]}')


def run_api(lengths):
    for compress in (False, True):
        for desc, call, opcode, expected in api_battery(lengths):
            if compress and opcode not in (1, 2):
                continue
            ws, sock, gen = _connected(compress=compress)
            inflater = zlib.decompressobj(-15)
            before = len(sock.out)
            try:
                call(ws)
                raised = None
            except Exception as e:
                raised = e
            where = '%s%s' % (desc, ' with permessage-deflate negotiated' if compress else '')
            if isinstance(expected, type):
                if raised is None:
                    return dict(found=True, input=where, expected='%s and nothing written' % expected.__name__,
                                observed='returned normally; wrote %s' % [b.hex()[:40] for b in sock.out[before:]])
                if not isinstance(raised, (TypeError, ValueError)):
                    return dict(found=True, input=where, expected='TypeError/ValueError', observed=repr(raised))
                if len(sock.out) != before:
                    return dict(found=True, input=where, expected='nothing written', observed='wrote %d frames' % (len(sock.out) - before))
            else:
                if raised is not None:
                    return dict(found=True, input=where, expected='one frame written', observed='raised %r' % raised)
                err = _check_frame(before, sock, opcode, expected, compressed=compress and opcode in (1, 2), inflater=inflater)
                if err:
                    return dict(found=True, input=where, expected='one valid client frame carrying the payload', observed=err,
                                wire=[b[:24].hex() for b in sock.out[before:]])
            gen.close()
    return None


def run_build(lengths, model):
    from lomond.frame import Frame
    from lomond.mask import mask_payload
    for n in lengths:
        for mask in (True, False):
            for key in (None, b'\x01\x02\x03\x04'):
                if not mask and key:
                    continue
                for (fin, r1, r2, r3, op) in ((1, 0, 0, 0, 2), (0, 1, 0, 1, 9), (1, 1, 1, 0, 15)):
                    p = _payload(n, 3)
                    for payload in (p, bytearray(p)):
                        w = Frame.build(op, payload, fin=fin, rsv1=r1, rsv2=r2, rsv3=r3, mask=mask, masking_key=key)
                        d = ref.decode_one(w)
                        inp = 'Frame.build(opcode=%d, payload=%s(%d bytes), fin=%d, rsv=%d%d%d, mask=%s, masking_key=%r)' % (
                            op, type(payload).__name__, n, fin, r1, r2, r3, mask, key)
                        if not isinstance(w, bytes):
                            return dict(found=True, input=inp, expected='bytes', observed=type(w).__name__)
                        if d is None or d['total'] != len(w):
                            return dict(found=True, input=inp, expected='exactly one frame', observed='decoder: %r' % (d and d['total'],), wire=w[:16].hex())
                        exp = dict(fin=fin, rsv1=r1, rsv2=r2, rsv3=r3, opcode=op, mask=1 if mask else 0)
                        for k2, v in exp.items():
                            if d[k2] != v:
                                return dict(found=True, input=inp, expected='%s=%r' % (k2, v), observed='%s=%r' % (k2, d[k2]), wire=w[:16].hex())
                        if not d['minimal']:
                            return dict(found=True, input=inp, expected='shortest length form', observed='len7=%d for %d bytes' % (d['len7'], n))
                        if d['payload'] != p:
                            return dict(found=True, input=inp, expected='unmasking gives the payload', observed='payload differs', wire=w[:16].hex())
                        if key and d['key'] != key:
                            return dict(found=True, input=inp, expected='given key used', observed=repr(d['key']))
    for n in lengths[:8] + [5, 6, 7, 9]:
        key = b'\x10\x20\x30\x40'
        data = bytearray(_payload(n, 1))
        orig = bytes(data)
        mask_payload(key, data)
        exp = bytes(b ^ key[i % 4] for i, b in enumerate(orig))
        if bytes(data) != exp:
            return dict(found=True, input='mask_payload(%r, %d bytes)' % (key, n), expected='per-index xor with key[i % 4]', observed=bytes(data)[:16].hex())
    return None


def replay(obligation, extra):
    name = obligation['name']
    lengths = sorted(set(BOUNDARY + [n for n in model_ints(obligation.get('model')) if n <= 70000]))
    if 'frame.Frame.build' in name or 'mask.' in name:
        r = run_build([n for n in lengths if n <= 70000], obligation.get('model')) or run_api(lengths)
    else:
        r = run_api(lengths) or run_build(lengths, obligation.get('model'))
    return r or dict(found=False, tried='API battery (6 send methods x %d lengths x compression on/off, wrong-type arguments) and Frame.build/mask_payload battery' % len(lengths))


def known_finding(kf):
    return dict(found=False, error='no known finding is registered for C03')
