"""C08 replay: single-threaded closing handshake in both directions, all orders."""
import struct

from replay import harness, ref
from lomond import errors


def wire_ops(run):
    return [(d['opcode'] if d else None, d['payload'] if d else None) for w in run.sock.out[1:] for d in ref.decode_all(w)]


def client_first(at, server_close, trailing, cuts, ping=False):
    """application calls close(1001, b'going') at event `at`; server replies with its Close"""
    state = dict(closed_called=False, late_errors=[], late_writes=0)

    def react(ws, ev, k, run):
        if not state['closed_called'] and ev.name == at:
            ws.close(1001, b'going')
            state['closed_called'] = True
            state['n_after_close'] = len(run.sock.out)
            return
        if state['closed_called'] and ev.name not in ('disconnected',):
            for call in (lambda: ws.send_text('late'), lambda: ws.send_binary(b'late'), lambda: ws.send_ping(b'x'), lambda: ws.close(1000, b'again')):
                before = len(run.sock.out)
                try:
                    call()
                    if call.__code__.co_consts and len(run.sock.out) != before:
                        state['late_writes'] += 1
                except errors.WebSocketError:
                    pass
                except Exception as e:
                    state['late_errors'].append(repr(e))
                if len(run.sock.out) != before:
                    state['late_writes'] += 1
    stream = ref.server_frame(1, b'first') + ref.server_frame(2, b'second') + (ref.server_frame(9, b'in-flight') if ping else b'') + server_close + trailing
    run = harness.drive(stream=stream, react=react, cuts=cuts, eof=True, connect_kwargs=dict(ping_rate=0))
    names = [e.name for e in run.events]
    ops = wire_ops(run)
    closes = [p for o, p in ops if o == 8]
    if not state['closed_called']:
        return None
    if len(closes) != 1 or closes[0] != struct.pack('!H', 1001) + b'going':
        return 'Close frames written: %r' % closes
    idx = [o for o, p in ops].index(8)
    if any(o in (0, 1, 2) for o, p in ops[idx + 1:]) or state['late_writes']:
        return 'frames written after the Close frame: %r' % [o for o, p in ops]
    if state['late_errors']:
        return 'a send after close() raised %s instead of a WebSocketError' % state['late_errors'][0]
    if 'closed' not in names or names[-1] != 'disconnected' or not run.events[-1].graceful or not run.sock.closed:
        return 'does not end Closed -> graceful Disconnected with the socket closed: %r' % names[-3:]
    if at in ('ready', 'connected') and names.count('text') != 1:
        return 'incoming messages not delivered while closing: %r' % names
    if ping and names.count('ping') != 1:
        return 'a Ping that arrived while closing was not delivered: %r' % names
    return None


def server_first(server_close, app_close_during_closing, send_during_closing, trailing):
    state = dict(sent=False)

    def react(ws, ev, k, run):
        if ev.name == 'closing':
            if send_during_closing:
                ws.send_text('bye')
                state['sent'] = True
            if app_close_during_closing:
                ws.close(ev.code or 1000, b'')
        elif ev.name not in ('disconnected',) and any(e.name == 'closing' for e in run.events[:-1]):
            try:
                ws.send_text('late')
                state['late'] = True
            except errors.WebSocketError:
                pass
    run = harness.drive(stream=ref.server_frame(1, b'm') + server_close + trailing, react=react, connect_kwargs=dict(ping_rate=0))
    names = [e.name for e in run.events]
    ops = wire_ops(run)
    closes = [p for o, p in ops if o == 8]
    if len(closes) != 1:
        return '%d Close frames written: %r' % (len(closes), closes)
    exp_code = server_close_code(server_close)
    if not app_close_during_closing and exp_code is not None and closes[0][:2] != struct.pack('!H', exp_code):
        return 'echoed Close has code %r instead of %r' % (closes[0][:2], exp_code)
    idx = [o for o, p in ops].index(8)
    if any(o in (0, 1, 2) for o, p in ops[idx + 1:]) or state.get('late'):
        return 'data frame after the Close echo'
    if send_during_closing and (1, b'bye') not in ops[:idx]:
        return 'the send made during the Closing event was not written before the echo'
    if 'closing' not in names or names[-1] != 'disconnected' or not run.events[-1].graceful:
        return 'does not end Closing -> graceful Disconnected: %r' % names[-3:]
    return None


def server_close_code(frame):
    d = ref.decode_one(frame)
    return struct.unpack('!H', d['payload'][:2])[0] if len(d['payload']) >= 2 else None


def replay(obligation, extra):
    closes = [ref.server_frame(8, struct.pack('!H', 1000) + b'ok'), ref.server_frame(8, struct.pack('!H', 3000)), ref.server_frame(8, b'')]
    tried = 0
    for at in ('connected', 'ready', 'text', 'binary'):
        for sc in closes:
            for trailing in (b'', ref.server_frame(1, b'after')):
                for cuts, ping in ((None, False), (range(1, 600), False), (None, True)):
                    tried += 1
                    err = client_first(at, sc, trailing, cuts, ping)
                    if err:
                        return dict(found=True, input='application calls close(1001, b"going") at the %s event; server then sends %s%s%s%s' % (at, 'a Ping and then ' if ping else '', sc.hex(), ' and more frames' if trailing else '', ', one byte per read' if cuts else ''),
                                    expected='exactly one Close (1001, going), later sends refused, Closed, graceful Disconnected, socket closed', observed=err)
    # the write that carries the client's Close delivers its bytes and THEN fails (e.g. a send timeout): the Close frame is
    # on the wire, so every later send must still be refused and no second Close may follow
    import socket as _socket
    for exc in (_socket.timeout('timed out'), OSError(104, 'reset')):
        tried += 1
        st = {}

        def react(ws, ev, k, run):
            if ev.name == 'text' and ev.text == 'go':
                ws.close(1000, b'bye')
                st['wire_after_close'] = len(run.sock.out)
                res = []
                for fn in (lambda: ws.send_text('late'), lambda: ws.send_binary(b'late'), lambda: ws.send_ping(b'p'), lambda: ws.close(1000, b'again')):
                    try:
                        fn()
                        res.append('returned')
                    except errors_mod.WebSocketError:
                        res.append('WebSocketError')
                    except Exception as e:      # noqa
                        res.append(repr(e))
                st['later'] = res
        from lomond import errors as errors_mod
        run = harness.drive(stream=ref.server_frame(1, b'go'), react=react, connect_kwargs=dict(ping_rate=0),
                            sock_kwargs=dict(fail_send_at=1, send_exc=exc, fail_after_bytes_left=True))
        ops = [o for o, p in wire_ops(run)]
        if 'later' in st and (ops.count(8) > 1 or (8 in ops and ops[ops.index(8) + 1:]) or any(r == 'returned' for r in st['later'][:3])):
            return dict(found=True, input='application calls close(1000, b"bye") at a text event; the sendall carrying the Close delivers its bytes and then raises %r; '
                        'the application then calls send_text, send_binary, send_ping and close again' % (exc,),
                        expected='one Close frame, nothing after it, the later sends raise WebSocketError',
                        observed='frames written (opcodes) %r; later calls: %r' % (ops, st['later']))
    # the longest reason a control frame can carry (123 bytes of UTF-8), both directions
    for reason in (b'r' * 123, ('\u20ac' * 41).encode('utf-8')):
        tried += 1
        st = {}

        def react(ws, ev, k, run, reason=reason):
            if ev.name == 'text' and not st.get('done'):
                st['done'] = True
                try:
                    ws.close(1000, reason)
                except Exception as e:      # noqa
                    st['error'] = repr(e)
        run = harness.drive(stream=ref.server_frame(1, b'm') + ref.server_frame(8, struct.pack('!H', 1000)), react=react, connect_kwargs=dict(ping_rate=0))
        closes_w = [p for o, p in wire_ops(run) if o == 8]
        if st.get('error') or closes_w != [struct.pack('!H', 1000) + reason]:
            return dict(found=True, input='application calls close(1000, <123-byte reason %r...>)' % reason[:6], expected='one Close frame with that code and reason',
                        observed=st.get('error') or 'Close frames written: %r' % [c[:8] for c in closes_w])
        tried += 1
        err = server_first(ref.server_frame(8, struct.pack('!H', 1001) + reason), False, False, b'')
        if err:
            return dict(found=True, input='server sends Close 1001 with a 123-byte reason %r... first' % reason[:6],
                        expected='Closing, one Close echo with the same code, graceful Disconnected', observed=err)
    for sc in closes:
        for ac in (False, True):
            for sd in (False, True):
                for trailing in (b'', ref.server_frame(1, b'after')):
                    tried += 1
                    err = server_first(sc, ac, sd, trailing)
                    if err:
                        return dict(found=True, input='server sends Close %s first; application %s%s during Closing%s' % (sc.hex(), 'calls close()' if ac else 'does not close', ' and sends' if sd else '', '; more frames follow' if trailing else ''),
                                    expected='Closing, one Close echo with the same code, no data after it, graceful Disconnected', observed=err)
    return dict(found=False, tried='%d closing-handshake scenarios' % tried)


def known_finding(kf):
    return dict(found=False, error='no known finding is registered for C08')
