"""C19 replay: proxy configured -> CONNECT to the proxy, nothing else written until it answered
200; anything else -> ConnectFail and not one byte of the WebSocket handshake."""
from replay import harness, ref
from lomond.session import WebsocketSession
import lomond.session as S


class ProxySock(harness.FakeSocket):
    pass


def run_case(url, proxies, proxy_reads, wrap_log, ws=None):
    run = harness.Run()
    ws = ws or harness.WebSocket(url, proxies=proxies)
    socks = []

    class Sess(WebsocketSession):
        _selector_cls = harness.FakeSelector

        def _connect_sock(s, host, port, ssl=False):
            sock = ProxySock(proxy_reads(ws) if callable(proxy_reads) else list(proxy_reads))
            sock.addr = (host, port, ssl)
            socks.append(sock)
            run.sock = sock
            return sock

        def _wrap_socket(s, sock, host):
            wrap_log.append(host)
            return sock
    evs = []
    try:
        for ev in ws.connect(session_class=Sess, ping_rate=0):
            evs.append(ev)
    except Exception as e:
        run.exception = repr(e)
    run.events = evs
    return run, ws, socks


def replay(obligation, extra):
    ok200 = b'HTTP/1.1 200 Connection established\r\nProxy-Agent: x\r\n\r\n'
    tried = 0
    answers = [('200 in one read', [ok200], True), ('200 one byte per read', [ok200[i:i + 1] for i in range(len(ok200))], True),
               ('403', [b'HTTP/1.1 403 Forbidden\r\n\r\n'], False), ('201', [b'HTTP/1.1 201 Created\r\n\r\n'], False),
               ('407', [b'HTTP/1.1 407 Proxy Authentication Required\r\n\r\n'], False),
               ('EOF at once', [b''], False), ('status line then EOF', [b'HTTP/1.1 200 OK\r\n', b''], False),
               ('unterminated 17 KiB', [b'HTTP/1.1 200 OK\r\nX: ' + b'a' * 17500, b''], False),
               ('garbage', [b'\x00\x01\x02garbage\r\n\r\n'], False), ('socket error', [OSError(104, 'reset')], False),
               # oversized (> 16 KiB) but TERMINATED 200 answers; the terminator arrives in the read that crosses the limit
               ('terminated 200 answer of 17 000 bytes', [b'HTTP/1.1 200 OK\r\nX: ' + b'a' * (17000 - 24) + b'\r\n\r\n'], False),
               ('terminated 200 answer of 16 500 bytes in 500-byte reads', [c for c in harness.cut(b'HTTP/1.1 200 OK\r\nX: ' + b'a' * (16500 - 24) + b'\r\n\r\n', range(500, 16500, 500))], False),
               ('terminated 200 answer of exactly 16 384 bytes', [b'HTTP/1.1 200 OK\r\nX: ' + b'a' * (16384 - 24) + b'\r\n\r\n'], True)]
    for url, key in (('ws://target.example:8080/chat', 'http'), ('wss://secure.example/chat', 'https'), ('ws://plain.example/', 'http')):
        for purl in ('http://proxy.example:3128', 'http://proxy.example', 'https://sproxy.example', 'http://user:pw@proxy.example:8000'):
            for name, reads, good in answers:
                tried += 1
                wrap_log = []

                def proxy_reads(ws, reads=reads, good=good):
                    out = list(reads)
                    if good:
                        out += [harness.response_for(ws.key), b'']
                    return out
                run, ws, socks = run_case(url, {key: purl}, proxy_reads, wrap_log)
                names = [e.name for e in run.events]
                sock = socks[0] if socks else None
                desc = '%s via proxy %s; proxy answers: %s' % (url, purl, name)
                if run.exception:
                    return dict(found=True, input=desc, expected='events, not exceptions', observed=run.exception)
                if sock is None:
                    return dict(found=True, input=desc, expected='a connection to the proxy', observed='no connection made')
                from six.moves.urllib.parse import urlparse
                pu, tu = urlparse(purl), urlparse(url)
                exp_addr = (pu.hostname, pu.port or (443 if pu.scheme == 'https' else 80))
                if sock.addr[:2] != exp_addr:
                    return dict(found=True, input=desc, expected='connect to the proxy at %r' % (exp_addr,), observed='connected to %r' % (sock.addr[:2],))
                tport = tu.port or (443 if tu.scheme == 'wss' else 80)
                first = sock.out[0] if sock.out else b''
                if not first.startswith(('CONNECT %s:%d HTTP/1.1\r\n' % (tu.hostname, tport)).encode()):
                    return dict(found=True, input=desc, expected='CONNECT %s:%d' % (tu.hostname, tport), observed=first[:60].decode('latin-1'))
                upgrade_written = any(b'Upgrade: websocket' in w for w in sock.out)
                if good:
                    if 'connected' not in names or run.events[names.index('connected')].proxy != purl or not upgrade_written:
                        return dict(found=True, input=desc, expected='Connected(proxy=%s) and the handshake over the tunnel' % purl, observed='events %r' % names)
                    if tu.scheme == 'wss' and tu.hostname not in wrap_log:
                        return dict(found=True, input=desc, expected='TLS to the target over the tunnel', observed='wrap calls %r' % wrap_log)
                else:
                    if names != ['connecting', 'connect_fail'] or upgrade_written or len(sock.out) != 1:
                        return dict(found=True, input=desc, expected='ConnectFail and not a byte of the WebSocket handshake',
                                    observed='events %r; %d writes; upgrade request written: %s' % (names, len(sock.out), upgrade_written))
    # histories: several proxied connects in one process (the persist() reconnect case, and different WebSocket objects);
    # whatever an earlier answer was, a later non-200 / unterminated answer must still fail closed
    bad_answers = [a for a in answers if not a[2]][:6]
    for same_object in (True, False):
        for name, reads, good in bad_answers:
            tried += 1
            url, purl = 'ws://target.example:8080/chat', 'http://proxy.example:3128'
            run1, ws1, socks1 = run_case(url, {'http': purl}, lambda ws: [ok200, harness.response_for(ws.key), b''], [])
            if 'connected' not in [e.name for e in run1.events]:
                break
            if same_object:
                run2, ws2, socks2 = run_case(url, {'http': purl}, lambda ws, reads=reads: list(reads), [], ws=ws1)
            else:
                run2, ws2, socks2 = run_case(url, {'http': purl}, lambda ws, reads=reads: list(reads), [])
            names = [e.name for e in run2.events]
            sock = socks2[0] if socks2 else None
            upgrade_written = sock is not None and any(b'Upgrade: websocket' in w for w in sock.out)
            if names != ['connecting', 'connect_fail'] or upgrade_written:
                return dict(found=True, input='a proxied connect answered 200, then a second proxied connect (%s) answered: %s' % (
                    'same WebSocket object' if same_object else 'another WebSocket object', name),
                    expected='ConnectFail and not a byte of the WebSocket handshake on the second connect',
                    observed='events %r; upgrade request written: %s' % (names, upgrade_written))
    # proxy selection by scheme, and the empty mapping
    for url, proxies, expect_proxy in (('ws://t.example/', {'https': 'http://p.example'}, False), ('wss://t.example/', {'http': 'http://p.example'}, False),
                                       ('ws://t.example/', {}, False), ('ws://t.example/', {'http': ''}, False), ('ws://t.example/', {'http': None}, False)):
        tried += 1
        run, ws, socks = run_case(url, proxies, lambda ws: [harness.response_for(ws.key), b''], [])
        if not socks or socks[0].addr[0] != 't.example' or any(w.startswith(b'CONNECT') for w in socks[0].out):
            return dict(found=True, input='%s with proxies=%r' % (url, proxies), expected='direct connection to the target', observed='connected to %r' % (socks and socks[0].addr,))
    return dict(found=False, tried='%d proxy scenarios' % tried)


def known_finding(kf):
    return dict(found=False, error='no known finding is registered for C19')
