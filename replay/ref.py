"""Concrete reference implementations used as replay oracles (plain Python, no lomond import)."""
import struct


def decode_one(w):
    """RFC 6455 5.2; returns dict or None if w is too short"""
    w = bytes(w)
    if len(w) < 2:
        return None
    b0, b1 = w[0], w[1]
    d = dict(fin=b0 >> 7, rsv1=(b0 >> 6) & 1, rsv2=(b0 >> 5) & 1, rsv3=(b0 >> 4) & 1, opcode=b0 & 15,
             mask=b1 >> 7, len7=b1 & 127)
    off = 2
    if d['len7'] == 126:
        if len(w) < 4:
            return None
        plen = struct.unpack('!H', w[2:4])[0]
        off = 4
    elif d['len7'] == 127:
        if len(w) < 10:
            return None
        plen = struct.unpack('!Q', w[2:10])[0]
        off = 10
    else:
        plen = d['len7']
    d['minimal'] = not ((d['len7'] == 126 and plen < 126) or (d['len7'] == 127 and plen < 65536))
    if d['mask']:
        if len(w) < off + 4:
            return None
        d['key'] = w[off:off + 4]
        off += 4
    else:
        d['key'] = None
    if len(w) < off + plen:
        return None
    raw = w[off:off + plen]
    d['raw'] = raw
    d['payload'] = bytes(b ^ d['key'][i % 4] for i, b in enumerate(raw)) if d['mask'] else raw
    d['plen'] = plen
    d['total'] = off + plen
    return d


def decode_all(w):
    out = []
    w = bytes(w)
    while w:
        d = decode_one(w)
        if d is None:
            out.append(None)
            break
        out.append(d)
        w = w[d['total']:]
    return out


def valid_client_frame(d, opcode=None):
    """C03: FIN set, masked, minimal, rsv2/3 clear, control <= 125"""
    if d is None:
        return 'truncated frame'
    if d['fin'] != 1:
        return 'FIN not set'
    if d['mask'] != 1 or d['key'] is None or len(d['key']) != 4:
        return 'not masked'
    if not d['minimal']:
        return 'non-minimal length'
    if d['rsv2'] or d['rsv3']:
        return 'rsv2/3 set'
    if d['opcode'] >= 8 and d['plen'] > 125:
        return 'control payload %d > 125' % d['plen']
    if opcode is not None and d['opcode'] != opcode:
        return 'opcode %d != %d' % (d['opcode'], opcode)
    return None


def server_frame(opcode, payload=b'', fin=1, rsv1=0, rsv2=0, rsv3=0, lenform=None, mask=None):
    b0 = fin << 7 | rsv1 << 6 | rsv2 << 5 | rsv3 << 4 | opcode
    n = len(payload)
    m = 0x80 if mask is not None else 0
    if lenform is None:
        lenform = 7 if n < 126 else (16 if n < 65536 else 64)
    if lenform == 7:
        h = bytes([b0, m | n])
    elif lenform == 16:
        h = bytes([b0, m | 126]) + struct.pack('!H', n)
    else:
        h = bytes([b0, m | 127]) + struct.pack('!Q', n)
    if mask is not None:
        payload = bytes(b ^ mask[i % 4] for i, b in enumerate(payload))
        h += mask
    return h + payload


def wf_utf8(b):
    try:
        bytes(b).decode('utf-8', 'strict')
        return True
    except UnicodeDecodeError:
        return False
