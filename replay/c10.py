"""C10 replay: Ready iff status 101 + Upgrade: websocket + Accept == digest(key); header block limit."""
import base64
import hashlib

from replay import harness, ref
from lomond import constants


def reply(ws, status=b'101 Switching Protocols', upgrade=b'websocket', accept=None, extra=b'', raw=None):
    if raw is not None:
        return raw
    acc = harness.accept_for(ws.key) if accept is None else accept(ws.key)
    return b'HTTP/1.1 ' + status + b'\r\nUpgrade: ' + upgrade + b'\r\nConnection: Upgrade\r\nSec-WebSocket-Accept: ' + acc + b'\r\n' + extra + b'\r\n'


def outcome(make_reply, stream=b'', cuts=None):
    def reads(ws):
        data = make_reply(ws) + stream
        return (harness.cut(data, [c for c in cuts if 0 < c < len(data)]) if cuts else [data]) + [b'']
    run = harness.drive(reads=reads, connect_kwargs=dict(ping_rate=0))
    names = [e.name for e in run.events]
    return names, run


def swapcase_one(b):
    for i, c in enumerate(b):
        ch = bytes([c])
        if ch.isalpha():
            return b[:i] + ch.swapcase() + b[i + 1:]
    return b


CASES = [
    ('correct reply', lambda ws: reply(ws), True),
    ('header names in odd case and spacing', lambda ws: b'HTTP/1.1 101 X\r\nuPGRADE:   WebSocket  \r\nCONNECTION: upgrade\r\nsec-websocket-ACCEPT:' + harness.accept_for(ws.key) + b'\r\n\r\n', True),
    ('status 200', lambda ws: reply(ws, status=b'200 OK'), False),
    ('no Upgrade header', lambda ws: b'HTTP/1.1 101 X\r\nSec-WebSocket-Accept: ' + harness.accept_for(ws.key) + b'\r\n\r\n', False),
    ('Upgrade: h2c', lambda ws: reply(ws, upgrade=b'h2c'), False),
    ('Accept missing', lambda ws: b'HTTP/1.1 101 X\r\nUpgrade: websocket\r\n\r\n', False),
    ('Accept is the digest of another key', lambda ws: reply(ws, accept=lambda k: harness.accept_for(b'x' + k[1:])), False),
    ('Accept truncated', lambda ws: reply(ws, accept=lambda k: harness.accept_for(k)[:-2]), False),
    ('Accept with a trailing extra character', lambda ws: reply(ws, accept=lambda k: harness.accept_for(k) + b'A'), False),
    ('Accept with its base64 padding dropped', lambda ws: reply(ws, accept=lambda k: harness.accept_for(k).rstrip(b'=')), False),
    ('Accept with one more "=" appended', lambda ws: reply(ws, accept=lambda k: harness.accept_for(k) + b'='), False),
    ('Accept with a leading extra character', lambda ws: reply(ws, accept=lambda k: b'A' + harness.accept_for(k)), False),
    ('Accept differs from the digest only in the case of one letter', lambda ws: reply(ws, accept=lambda k: swapcase_one(harness.accept_for(k))), False),
]


def run_cases(skip_known=False):
    for name, mk, should_ready in CASES:
        if skip_known and 'only in the case' in name:
            continue
        names, run = outcome(mk, stream=ref.server_frame(1, b'hi'))
        ready = 'ready' in names
        if ready != should_ready:
            return dict(found=True, input='upgrade reply: %s' % name, expected='Ready' if should_ready else 'Rejected, no Ready',
                        observed='events: %r' % names)
        if not should_ready:
            if 'rejected' not in names or any(n in names for n in ('text', 'binary')) or (run.sock and not run.sock.closed):
                return dict(found=True, input='upgrade reply: %s' % name, expected='Rejected, no message events, socket closed',
                            observed='events: %r, socket closed: %s' % (names, run.sock.closed if run.sock else None))
    # "however the reply's headers are ... segmented": the verdict on every reply shape under small first reads, cuts
    # around the terminator, and one byte per read
    SEGS = [('first read of 1 byte', [1]), ('first read of 2 bytes', [2]), ('first read of 3 bytes', [3]), ('reads of 1, 1 and the rest', [1, 2]),
            ('one byte per read', list(range(1, 400))), ('cut 2 bytes before the end of the header', None), ('cut 1 byte into the first frame', None)]
    for name, mk, should_ready in CASES:
        if skip_known and 'only in the case' in name:
            continue
        for sname, cuts in SEGS:
            if cuts is None:
                n = len(mk(harness.WebSocket('ws://example.com/')))
                cuts = [n - 2] if 'before' in sname else [n + 1]
            names, run = outcome(mk, stream=ref.server_frame(1, b'hi'), cuts=cuts)
            if ('ready' in names) != should_ready or (not should_ready and 'rejected' not in names):
                return dict(found=True, input='upgrade reply: %s; segmentation: %s' % (name, sname),
                            expected='Ready' if should_ready else 'Rejected, no Ready', observed='events: %r' % names)
    # 16 KiB header block limit, terminated or not
    for name, block in (('17 KiB header block, terminated', b'HTTP/1.1 101 X\r\nX-Pad: ' + b'a' * 17000 + b'\r\n\r\n'),
                        ('17 KiB header block, unterminated', b'HTTP/1.1 101 X\r\nX-Pad: ' + b'a' * 17000)):
        names, run = outcome(lambda ws, block=block: block)
        if 'ready' in names or 'protocol_error' not in names:
            return dict(found=True, input=name, expected='ProtocolError, no Ready', observed='events: %r' % names)
    return None


def replay(obligation, extra):
    r = run_cases(skip_known='C10-accept-case' in (extra.get('known_ids') or []))
    return r or dict(found=False, tried='%d reply shapes + header block limit' % len(CASES))


def known_finding(kf):
    if kf['id'] == 'C10-accept-case':
        name, mk, _ = CASES[-1]
        names, run = outcome(mk)
        if 'ready' in names:
            return dict(found=True, input='upgrade reply: %s' % name, expected='Rejected, no Ready', observed='events: %r' % names)
        return dict(found=False, error='witness passes: the case-variant Accept is rejected')
    return dict(found=False, error='unknown finding id')
