"""C18 replay: arrival patterns on a virtual clock - bytes left in the TLS layer, bursts larger than
the receive buffer, many frames per read - must all be consumed without waiting for the poll
timeout or for further traffic.  (Real loopback TCP/TLS runs are out of reach of this harness.)"""
import struct

from replay import harness, ref
from lomond.session import WebsocketSession


def replay(obligation, extra):
    from replay import pongrace
    r = pongrace.check()
    if r:
        return r
    tried = 0
    many = b''.join(ref.server_frame(1, ('m%d' % i).encode()) for i in range(300)) + ref.server_frame(9, b'tail-ping')
    big = ref.server_frame(2, bytes(range(256)) * 300) + ref.server_frame(1, b'after-big') + ref.server_frame(9, b'tail-ping')
    empty_last = ref.server_frame(9, b'lead-ping') + ref.server_frame(2, b'bin') + ref.server_frame(1, b'')
    empty_fin = ref.server_frame(9, b'lead-ping') + ref.server_frame(1, b'part', fin=0) + ref.server_frame(0, b'', fin=1)
    for name, stream in (('300 small frames + ping in one burst', many), ('76 800-byte frame + text + ping in one burst', big),
                         ('ping, binary, then an EMPTY text message as the last frame of the burst', empty_last),
                         ('ping, then a text message whose final fragment is empty, as the last frame of the burst', empty_fin)):
        for tls in (False, True):
            for record in (None, 16384, 5000):
                if record and not tls:
                    continue
                tried += 1
                clock = harness.Clock(1000.0).install()
                try:
                    st = {}

                    def reads(ws, stream=stream, record=record):
                        data = stream
                        chunks = [data] if not record else [data[i:i + record] for i in range(0, len(data), record)]
                        # everything arrives at t=+1; afterwards the server is silent for a long time
                        return [harness.response_for(ws.key), ('idle', 1)] + chunks + [('idle', 100), ('idle', 100), b'']

                    def react(ws, ev, k, run):
                        if ev.name == 'ready':
                            st['t0'] = clock.t
                        if ev.name in ('text', 'binary', 'ping'):
                            st.setdefault('times', []).append((ev.name, clock.t - st['t0']))
                    run = harness.drive(reads=reads, react=react, sock_kwargs=dict(tls=tls), connect_kwargs=dict(poll=5, ping_rate=0), clock=clock)
                finally:
                    clock.uninstall()
                times = st.get('times', [])
                late = [(n, t) for n, t in times if t > 1.0 + 1e-9]
                pong_frames = [d for w in run.sock.out[1:] for d in ref.decode_all(w) if d and d['opcode'] == 10]
                desc = '%s; %s transport%s' % (name, 'TLS (pending())' if tls else 'plain', (', %d-byte records' % record) if record else '')
                n_expected = 301 if name.startswith('300') else (2 if 'final fragment' in name else 3)
                if len(times) != n_expected:
                    return dict(found=True, input=desc, expected='%d messages delivered' % n_expected, observed='%d delivered' % len(times))
                if late:
                    return dict(found=True, input=desc, expected='everything delivered in the cycle its last byte arrived (t=+1 s)',
                                observed='%s delivered at t=+%.1f s (waited for a poll timeout / more traffic)' % late[0])
                if len(pong_frames) != 1:
                    return dict(found=True, input=desc, expected='the automatic pong written', observed='%d pongs' % len(pong_frames))
    return dict(found=False, tried='%d arrival patterns' % tried)


def known_finding(kf):
    return dict(found=False, error='no known finding is registered for C18')
