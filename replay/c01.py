"""C01 replay: message sequences (fragmented, control frames interleaved, all length forms incl.
non-minimal) through the REAL session read path (recv_into the session's buffer -> memoryview ->
feed); every message must come out exactly once, in order, byte-exact, and must not change later."""
import struct

from replay import harness, ref
from replay.run import model_ints


def pay(n, salt):
    return bytes((i * 13 + salt) % 251 for i in range(n))


def scenarios(lengths):
    out = []
    for n in lengths:
        p = pay(n, n)
        out.append(('binary %d bytes' % n, [('binary', p)], ref.server_frame(2, p)))
        for lf in (16, 64):
            if (lf == 16 and n < 65536) or lf == 64:
                out.append(('binary %d bytes, non-minimal %d-bit length' % (n, lf), [('binary', p)], ref.server_frame(2, p, lenform=lf)))
        if n <= 125:
            out.append(('ping %d bytes' % n, [('ping', p)], ref.server_frame(9, p)))
            out.append(('pong %d bytes' % n, [('pong', p)], ref.server_frame(10, p)))
    # fragmentation with control frames between fragments and empty fragments
    a, b, c = pay(300, 1), pay(200, 2), pay(70000, 3)
    text = ('héllo wörld €' * 30)
    tb = text.encode('utf-8')
    frag = (ref.server_frame(2, a[:100], fin=0) + ref.server_frame(9, b'mid1') + ref.server_frame(0, b'', fin=0) +
            ref.server_frame(0, a[100:250], fin=0) + ref.server_frame(10, b'mid2') + ref.server_frame(0, a[250:], fin=1))
    out.append(('binary in 4 fragments (one empty) with Ping and Pong between them', [('ping', b'mid1'), ('pong', b'mid2'), ('binary', a)], frag))
    # both fragment boundaries fall INSIDE a multi-byte character (offset 2: inside 'é'; offset 202: inside '€')
    assert tb[1:3] == 'é'.encode() and tb[201:204] == '€'.encode()
    frag2 = ref.server_frame(1, tb[:2], fin=0) + ref.server_frame(0, tb[2:202], fin=0) + ref.server_frame(9, b'x') + ref.server_frame(0, tb[202:], fin=1)
    out.append(('text in 3 fragments cut inside multi-byte characters, Ping between the last two', [('ping', b'x'), ('text', text)], frag2))
    frag3 = ref.server_frame(1, tb[:2], fin=0) + ref.server_frame(10, b'\xff\xfe') + ref.server_frame(0, tb[2:], fin=1)
    out.append(('text in 2 fragments cut inside a multi-byte character, Pong with a non-UTF-8 payload between them', [('pong', b'\xff\xfe'), ('text', text)], frag3))
    seq = (ref.server_frame(1, b'one') + frag + ref.server_frame(2, b) + ref.server_frame(2, c[:40000], fin=0) + ref.server_frame(0, c[40000:], fin=1) +
           ref.server_frame(9, b'') + ref.server_frame(1, b''))
    out.append(('sequence: text, fragmented binary, binary, 70000-byte binary in 2 fragments, empty ping, empty text',
                [('text', 'one'), ('ping', b'mid1'), ('pong', b'mid2'), ('binary', a), ('binary', b), ('binary', c), ('ping', b''), ('text', '')], seq))
    # an EMPTY first fragment still opens the message and fixes its type; empty fragments everywhere
    e1 = ref.server_frame(2, b'', fin=0) + ref.server_frame(0, b[:50], fin=0) + ref.server_frame(0, b'', fin=0) + ref.server_frame(0, b[50:], fin=1)
    out.append(('binary whose first fragment is empty, then data, an empty fragment, data', [('binary', b)], e1))
    e2 = ref.server_frame(1, b'', fin=0) + ref.server_frame(9, b'p') + ref.server_frame(0, tb, fin=0) + ref.server_frame(0, b'', fin=1) + ref.server_frame(2, b'after')
    out.append(('text whose first and last fragments are empty, Ping after the first; then a binary message', [('ping', b'p'), ('text', text), ('binary', b'after')], e2))
    out.append(('close with code and reason', [('closing', (1000, 'bye é'))], ref.server_frame(8, struct.pack('!H', 1000) + 'bye é'.encode())))
    out.append(('close with empty payload', [('closing', (None, ''))], ref.server_frame(8, b'')))
    return out


def frame_cuts(stream):
    cuts, off = [], 0
    while off < len(stream):
        d = ref.decode_one(stream[off:])
        if d is None:
            break
        off += d['total']
        cuts.append(off)
    return cuts


def observed(run):
    out = []
    for e in run.events:
        if e.name == 'text':
            out.append(('text', e.text))
        elif e.name in ('binary', 'ping', 'pong'):
            out.append((e.name, bytes(e.data)))
        elif e.name in ('closing', 'closed'):
            out.append((e.name, (e.code, e.reason)))
    return out


def run_one(stream, seg, hold):
    """hold: list collecting (event, payload copy at the time of the event) to detect later mutation"""
    def react(ws, ev, k, run):
        if ev.name in ('binary', 'ping', 'pong'):
            hold.append((ev, bytes(ev.data)))
    prefix = len(harness.response_for(b'x' * 24))
    if seg == 'one-read':
        cuts = None
    elif seg == 'frame-per-read':
        cuts = [prefix] + [prefix + c for c in frame_cuts(stream)]
    elif seg == 'handshake+half':
        cuts = [prefix + len(stream) // 2]
    else:
        cuts = range(1, prefix + len(stream))
    return harness.drive(stream=stream, cuts=cuts, react=react, connect_kwargs=dict(ping_rate=0, auto_pong=False))


def replay(obligation, extra):
    lengths = sorted(set([0, 1, 125, 126, 127, 65535, 65536] + [n for n in model_ints(obligation.get('model')) if n <= 70000]))[:12]
    tried = 0
    for name, expected, stream in scenarios(lengths):
        segs = ['one-read', 'frame-per-read', 'handshake+half'] + (['bytewise'] if len(stream) < 3000 else [])
        for seg in segs:
            tried += 1
            hold = []
            run = run_one(stream, seg, hold)
            got = observed(run)
            if got != expected:
                k = next((i for i, (g, x) in enumerate(zip(got, expected)) if g != x), min(len(got), len(expected)))
                return dict(found=True, input='%s; delivery: %s' % (name, seg), expected='events %s' % summarize(expected),
                            observed='events %s (first difference at message #%d)' % (summarize(got), k))
            for ev, copy in hold:
                if bytes(ev.data) != copy:
                    return dict(found=True, input='%s; delivery: %s' % (name, seg), expected='a payload never changes after its event',
                                observed='%s payload changed after the event was yielded' % ev.name)
    return dict(found=False, tried='%d runs (message scenarios x segmentations)' % tried)


def summarize(evs):
    return [(n, (len(p) if isinstance(p, (bytes, str)) else p)) for n, p in evs]


def known_finding(kf):
    return dict(found=False, error='no known finding is registered for C01')
