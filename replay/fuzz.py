"""Random server streams against an independent message-level oracle (thorough tier only; bounded exploration of the
REAL code, never counted as proved).  A stream is a random sequence of messages - text (random code points),
binary, ping, pong, fragmented with control frames between the fragments, occasionally at the length-form
boundaries or with non-minimal length forms - optionally ended by one protocol violation followed by more frames,
or by a server Close.  It is delivered under a random segmentation.  The oracle below is written from RFC 6455
(it shares no code with lomond): it computes the events the application must see, the pongs the client must have
written, and how the connection must end; the same stream is also delivered in one read and the two runs must
agree (C02)."""
import random
import struct

from replay import harness, ref

RESERVED = (3, 4, 5, 6, 7, 11, 12, 13, 14, 15)


def close_code_bad(code):
    # RFC 6455 7.4.1/7.4.2: 0-999 unused, 1004-1006 and 1015 reserved/never on the wire, 1016-2999 reserved (1012-1014 are
    # IANA-registered; lomond treats 1014 as invalid - the oracle only uses codes whose status is not disputed)
    return code < 1000 or code in (1004, 1005, 1006, 1015) or 1016 <= code <= 2999


def rand_text(rnd, n):
    cps = []
    for _ in range(n):
        k = rnd.random()
        if k < 0.6:
            cps.append(rnd.randrange(0x20, 0x7f))
        elif k < 0.8:
            cps.append(rnd.randrange(0x80, 0x800))
        elif k < 0.95:
            c = rnd.randrange(0x800, 0x10000)
            cps.append(c if not 0xd800 <= c <= 0xdfff else 0x20ac)
        else:
            cps.append(rnd.randrange(0x10000, 0x110000))
    return ''.join(map(chr, cps))


def fragments(rnd, payload, k):
    cuts = sorted(rnd.sample(range(0, len(payload) + 1), min(k - 1, len(payload) + 1))) if k > 1 else []
    parts, prev = [], 0
    for c in cuts:
        parts.append(payload[prev:c])
        prev = c
    parts.append(payload[prev:])
    return parts


def gen(rnd):
    """returns (wire bytes, expected events, expected pongs, ending) with ending in 'eof' | 'violation' | 'close'"""
    wire, events, pongs = b'', [], []
    n_msgs = rnd.randrange(0, 7)
    for _ in range(n_msgs):
        kind = rnd.choice(['text', 'binary', 'ping', 'pong', 'text', 'binary'])
        if kind in ('ping', 'pong'):
            p = bytes(rnd.randrange(256) for _ in range(rnd.choice([0, 1, 5, 125, rnd.randrange(0, 126)])))
            wire += ref.server_frame(9 if kind == 'ping' else 10, p)
            events.append((kind, p))
            if kind == 'ping':
                pongs.append(p)
            continue
        size = rnd.choice([0, 1, 2, 10, 125, 126, 127, 300, rnd.randrange(0, 2000)] + ([65535, 65536, 70000] if rnd.random() < 0.08 else []))
        if kind == 'text':
            s = rand_text(rnd, min(size, 400))
            payload, ev = s.encode('utf-8'), ('text', s)
        else:
            payload = bytes(rnd.randrange(256) for _ in range(size)) if size < 5000 else bytes((i * 31 + 7) % 256 for i in range(size))
            ev = ('binary', payload)
        parts = fragments(rnd, payload, rnd.choice([1, 1, 2, 3, 4]))
        for i, part in enumerate(parts):
            lf = None
            if rnd.random() < 0.1:
                lf = rnd.choice([16, 64]) if len(part) < 65536 else 64      # non-minimal length form: valid from a server
            wire += ref.server_frame((1 if kind == 'text' else 2) if i == 0 else 0, part, fin=1 if i == len(parts) - 1 else 0, lenform=lf)
            if i < len(parts) - 1 and rnd.random() < 0.4:
                p = bytes(rnd.randrange(256) for _ in range(rnd.randrange(0, 20)))
                op = rnd.choice([9, 10])
                wire += ref.server_frame(op, p)
                events.append(('ping' if op == 9 else 'pong', p))
                if op == 9:
                    pongs.append(p)
        events.append(ev)
    ending = rnd.choice(['eof', 'eof', 'violation', 'close'])
    if ending == 'violation':
        v = rnd.choice(['reserved-opcode', 'rsv', 'fragmented-control', 'long-control', 'masked', 'orphan-continuation', 'nested-data',
                        'close-1-byte', 'close-bad-code', 'bad-utf8-text', 'bad-utf8-close-reason', 'bad-utf8-continuation'])
        if v == 'reserved-opcode':
            bad = ref.server_frame(rnd.choice(RESERVED), b'x')
        elif v == 'rsv':
            bad = ref.server_frame(rnd.choice([1, 2, 9]), b'x', **{rnd.choice(['rsv1', 'rsv2', 'rsv3']): 1})
        elif v == 'fragmented-control':
            bad = ref.server_frame(rnd.choice([8, 9, 10]), b'', fin=0)
        elif v == 'long-control':
            op = rnd.choice([8, 9, 10])
            n = rnd.choice([126, 127, 200, 70000])
            bad = ref.server_frame(op, (struct.pack('!H', 1000) + b'r' * (n - 2)) if op == 8 else b'p' * n)
        elif v == 'masked':
            bad = ref.server_frame(rnd.choice([1, 2, 9]), b'xyz', mask=b'\x01\x02\x03\x04')
        elif v == 'orphan-continuation':
            bad = ref.server_frame(0, b'x')
        elif v == 'nested-data':
            bad = ref.server_frame(2, b'a', fin=0) + ref.server_frame(rnd.choice([1, 2]), b'b')
        elif v == 'close-1-byte':
            bad = ref.server_frame(8, b'\x03')
        elif v == 'close-bad-code':
            bad = ref.server_frame(8, struct.pack('!H', rnd.choice([0, 999, 1004, 1005, 1006, 1015, 1016, 2999])))
        elif v == 'bad-utf8-text':
            bad = ref.server_frame(1, rnd.choice([b'\xff', b'ok\xc0\x80', b'\xed\xa0\x80', b'\xf4\x90\x80\x80', b'abc\xe2\x82']))
        elif v == 'bad-utf8-close-reason':
            bad = ref.server_frame(8, struct.pack('!H', 1000) + b'\xc3\x28')
        else:
            bad = ref.server_frame(1, b'ab', fin=0) + ref.server_frame(0, b'\xfe\xff', fin=0)
        wire += bad + ref.server_frame(1, b'after') + ref.server_frame(9, b'late')
        return wire, events, pongs, 'violation:' + v
    if ending == 'close':
        code = rnd.choice([1000, 1001, 1002, 1003, 1007, 1008, 1009, 1010, 1011, 3000, 4999])
        reason = rand_text(rnd, rnd.randrange(0, 20))[:30]
        rb = reason.encode('utf-8')[:120]
        reason = rb.decode('utf-8', 'ignore')
        wire += ref.server_frame(8, struct.pack('!H', code) + reason.encode('utf-8'))
        events.append(('closing', (code, reason)))
    return wire, events, pongs, ending


def observed(run):
    out = []
    for e in run.events:
        if e.name == 'text':
            out.append(('text', e.text))
        elif e.name in ('binary', 'ping', 'pong'):
            out.append((e.name, bytes(e.data)))
        elif e.name in ('closing', 'closed'):
            out.append((e.name, (e.code, e.reason)))
    return out


def short(evs):
    return [(k, (v if not isinstance(v, (bytes, str)) or len(v) <= 12 else '%s..(%d)' % (v[:8], len(v)))) for k, v in evs]


def explore(seed, n):
    rnd = random.Random(seed)
    for i in range(n):
        wire, events, pongs, ending = gen(rnd)
        hdr = len(harness.response_for(b'x' * 24))
        total = hdr + len(wire)
        mode = rnd.choice(['one', 'random', 'bytewise' if total < 6000 else 'random', 'frames'])
        if mode == 'one':
            cuts = None
        elif mode == 'bytewise':
            cuts = range(1, total)
        elif mode == 'frames':
            offs, off = [], 0
            for d in ref.decode_all(wire):
                if d is None:
                    break
                off += d['total']
                offs.append(hdr + off)
            cuts = [hdr] + offs[:-1]
        else:
            cuts = sorted(rnd.sample(range(1, total), min(rnd.randrange(1, 12), total - 1)))
        desc = 'random stream #%d (seed %s): %d bytes, %d messages, ending %s; delivery %s; frames %s' % (
            i, seed, len(wire), len(events), ending, mode if mode != 'random' else 'cuts at %r' % (cuts,),
            ' '.join('%x%s:%d' % (d['opcode'], '' if d['fin'] else '-', d['plen']) for d in ref.decode_all(wire) if d)[:300])
        run = harness.drive(stream=wire, cuts=cuts, eof=True, connect_kwargs=dict(ping_rate=0, close_timeout=None))
        if run.exception:
            return dict(found=True, input=desc, expected='events, never an exception', observed='exception escaped: %s' % run.exception)
        got = observed(run)
        names = [e.name for e in run.events]
        npe = names.count('protocol_error')
        if got != events:
            k = next((j for j, (a, b) in enumerate(zip(got, events)) if a != b), min(len(got), len(events)))
            return dict(found=True, input=desc, expected='messages %r' % short(events), observed='%r (first difference at #%d)' % (short(got), k))
        if ending.startswith('violation'):
            if npe != 1 or names[-1] != 'disconnected' or run.events[-1].graceful:
                return dict(found=True, input=desc, expected='exactly one ProtocolError, then a non-graceful Disconnected', observed='%d ProtocolError; end %r' % (npe, names[-3:]))
        else:
            if npe:
                return dict(found=True, input=desc, expected='no ProtocolError on a valid stream', observed='%d ProtocolError event(s): %r' % (npe, [getattr(e, 'error', None) for e in run.events if e.name == 'protocol_error']))
            if names[-1] != 'disconnected':
                return dict(found=True, input=desc, expected='one terminal Disconnected', observed=names[-3:])
            if ending == 'close' and not run.events[-1].graceful:
                return dict(found=True, input=desc, expected='graceful Disconnected after the closing handshake', observed='graceful=False')
        frames = [d for w in run.sock.out[1:] for d in ref.decode_all(w)]
        if any(d is None or ref.valid_client_frame(d) for d in frames):
            return dict(found=True, input=desc, expected='only valid client frames written', observed=[ref.valid_client_frame(d) for d in frames])
        wrote_pongs = [d['payload'] for d in frames if d['opcode'] == 10]
        if wrote_pongs != pongs:
            return dict(found=True, input=desc, expected='one Pong per Ping, same payloads, same order: %r' % short([('pong', p) for p in pongs]),
                        observed=short([('pong', p) for p in wrote_pongs]))
        ncl = sum(1 for d in frames if d['opcode'] == 8)
        if ncl > 1 or (ending == 'close' and ncl != 1):
            return dict(found=True, input=desc, expected='%s Close frame' % ('exactly one' if ending == 'close' else 'at most one'), observed='%d Close frames' % ncl)
        if mode != 'one':
            base = harness.drive(stream=wire, cuts=None, eof=True, connect_kwargs=dict(ping_rate=0, close_timeout=None))
            if observed(base) != got or [e.name for e in base.events if e.name != 'poll'] != [x for x in names if x != 'poll']:
                return dict(found=True, input=desc, expected='the same events as delivery in one read (C02)',
                            observed='%r vs %r' % ([x for x in names if x != 'poll'], [e.name for e in base.events if e.name != 'poll']))
    return dict(found=False, tried='%d random streams (seed %s) against the message-level oracle, each also compared with one-read delivery' % (n, seed))
