"""C09 replay: a fault (EOF, socket error, arbitrary exception) at every socket operation."""
import struct

from replay import harness, ref
from lomond import errors


def judge(run, before_connected):
    names = [e.name for e in run.events]
    if run.exception:
        return 'exception escaped the iterator: %s' % run.exception
    if not names:
        return 'no events'
    if names[-1] not in ('connect_fail', 'disconnected'):
        return 'no terminal event: %r' % names[-3:]
    if sum(1 for n in names if n in ('connect_fail', 'disconnected')) != 1:
        return 'several terminal events'
    if names[-1] == 'disconnected' and run.events[-1].graceful and 'closing' not in names and 'closed' not in names and not run.app_closed:
        return 'graceful Disconnected although neither side started the closing handshake'
    if run.sock is not None and not run.sock.closed:
        return 'socket not closed at %s' % names[-1]
    return None


def replay(obligation, extra):
    stream = ref.server_frame(1, b'one') + ref.server_frame(9, b'pp') + ref.server_frame(2, b'x' * 300) + ref.server_frame(9, b'q') + ref.server_frame(1, b'two')
    tried = 0
    excs = [('EOF', b''), ('ECONNRESET', OSError(104, 'Connection reset by peer')), ('RuntimeError', RuntimeError('boom'))]
    # faults on reads, at every byte offset of a short stream prefix and a sample of later ones
    for label, fault in excs:
        hdr_len = 129
        for off in list(range(0, hdr_len + 40)) + list(range(hdr_len + 40, hdr_len + len(stream), 23)):
            def reads(ws, off=off, fault=fault):
                data = harness.response_for(ws.key) + stream
                return ([data[:off]] if off else []) + [fault]
            for stop_at_terminal in (False, True):
                tried += 1
                run = harness.drive(reads=reads, connect_kwargs=dict(ping_rate=0), abandon_at=None)
                run.app_closed = False
                err = judge(run, False)
                if err:
                    return dict(found=True, input='%s on the read after %d stream bytes' % (label, off), expected='Disconnected(graceful=False) / socket closed / nothing escapes', observed=err,
                                events=[e.name for e in run.events])
                break
    # faults on writes: request, pong, close echo, application send
    for label, exc in (('ECONNRESET', OSError(104, 'reset')), ('EPIPE', BrokenPipeError(32, 'pipe')), ('ValueError', ValueError('weird'))):
        for k in range(0, 4):
            for consume in ('drain', 'stop-at-terminal'):
                tried += 1
                state = dict(app_error=None)

                def react(ws, ev, kk, run):
                    if ev.name == 'text':
                        try:
                            ws.send_text('reply')
                        except errors.WebSocketError:
                            pass
                        except Exception as e:
                            state['app_error'] = repr(e)
                stream2 = stream + ref.server_frame(8, struct.pack('!H', 1000))
                if consume == 'drain':
                    run = harness.drive(stream=stream2, react=react, sock_kwargs=dict(fail_send_at=k, send_exc=exc), connect_kwargs=dict(ping_rate=0))
                else:
                    probe = harness.drive(stream=stream2, react=react, sock_kwargs=dict(fail_send_at=k, send_exc=exc), connect_kwargs=dict(ping_rate=0))
                    term = next((i for i, e in enumerate(probe.events) if e.name in ('connect_fail', 'disconnected')), None)
                    run = harness.drive(stream=stream2, react=react, sock_kwargs=dict(fail_send_at=k, send_exc=exc), connect_kwargs=dict(ping_rate=0),
                                        abandon_at=term, abandon_how='break')
                run.app_closed = False
                err = judge(run, k == 0) or (state['app_error'] and 'application send raised %s, not a WebSocketError' % state['app_error'])
                if err:
                    return dict(found=True, input='%s on write #%d (0 = upgrade request); application %s' % (label, k, 'drains the iterator' if consume == 'drain' else 'stops at the terminal event'),
                                expected='ConnectFail/Disconnected, socket closed, only WebSocketError to the application', observed=err, events=[e.name for e in run.events])
    # "never ... hangs": the write of the client's own Close frame fails, and afterwards the peer is silent (no bytes, no
    # EOF, no read error): the close timeout must still end the session
    for who in ('application close() at the text event', 'echo of a server Close'):
        for label, exc in (('ECONNRESET', OSError(104, 'reset')), ('RuntimeError', RuntimeError('odd'))):
            tried += 1
            clock = harness.Clock(1000.0).install()
            try:
                def react(ws, ev, kk, run, who=who):
                    if who.startswith('application') and ev.name == 'text':
                        ws.close(1000, b'bye')
                frames = ref.server_frame(1, b'hello') + (ref.server_frame(8, struct.pack('!H', 1000)) if who.startswith('echo') else b'')
                run = harness.drive(reads=lambda ws, frames=frames: [harness.response_for(ws.key) + frames] + [('idle', 1)] * 12 + [ref.server_frame(1, b'late'), b''],
                                    react=react, sock_kwargs=dict(fail_send_at=1, send_exc=exc), connect_kwargs=dict(ping_rate=0, poll=1, close_timeout=3), clock=clock)
            finally:
                clock.uninstall()
            names = [e.name for e in run.events]
            if run.exception or names[-1] != 'disconnected' or names.count('text') > 1 or names.count('poll') > 6:
                return dict(found=True, input='%s on the write of the Close frame (%s), then 12 s of silence; close_timeout=3, poll=1' % (label, who),
                            expected='a Disconnected event about 3 s later (the session must not hang on a Close that never went out)',
                            observed='%s events: %r' % (run.exception or '', [n for n in names if n != 'poll'] + ['%d polls' % names.count('poll')]))
    for label, exc in (('unresolvable host / refused', OSError(111, 'refused')), ('weird exception', KeyError('x'))):
        tried += 1
        run = harness.drive(connect_exc=exc)
        run.app_closed = False
        names = [e.name for e in run.events]
        if run.exception or names != ['connecting', 'connect_fail']:
            return dict(found=True, input='connect fails with %s' % label, expected='Connecting, ConnectFail', observed='%r %s' % (names, run.exception))
    # "a refused connect on every resolved address (each address is tried before giving up)": the REAL _connect_sock over a
    # scripted resolver - every sequence of per-address outcomes up to 3 addresses
    import itertools
    for n in (1, 2, 3):
        for outcomes in itertools.product(('create-fails', 'refused', 'accepts'), repeat=n):
            tried += 1
            err, names = multi_address(outcomes)
            if err:
                return dict(found=True, input='host resolves to %d addresses with outcomes %r' % (n, list(outcomes)),
                            expected='each address tried in order until one accepts; ConnectFail only if none does; every other socket closed',
                            observed=err, events=names)
    return dict(found=False, tried='%d fault injections' % tried)


def multi_address(outcomes):
    """drive WebSocket.connect() through the real _connect/_connect_sock with lomond.session's socket module replaced"""
    import types
    import socket as real
    import lomond.session as S
    from lomond.websocket import WebSocket
    made = []

    class Sock(harness.FakeSocket):
        def __init__(self, idx):
            harness.FakeSocket.__init__(self, reads=[b''])
            self.idx, self.connected = idx, False

        def connect(self, sa):
            if outcomes[sa[1]] == 'refused':
                raise real.error(111, 'Connection refused')
            self.connected = True

    def fake_socket(af, socktype=None, proto=None):
        idx = af - 1000
        if outcomes[idx] == 'create-fails':
            raise real.error(97, 'Address family not supported')
        sk = Sock(idx)
        made.append(sk)
        return sk
    fake = types.SimpleNamespace(**{k: getattr(real, k) for k in dir(real) if not k.startswith('__')})
    fake.getaddrinfo = lambda host, port, *a: [(1000 + i, 1, 6, '', ('10.0.0.%d' % i, i)) for i in range(len(outcomes))]
    fake.socket = fake_socket

    class Sess(S.WebsocketSession):
        _selector_cls = harness.FakeSelector
    saved = S.socket
    S.socket = fake
    events, exc = [], None
    try:
        try:
            for ev in WebSocket('ws://example.com/').connect(session_class=Sess, ping_rate=0):
                events.append(ev)
                if len(events) > 50:
                    break
        except Exception as e:       # noqa
            exc = repr(e)
    finally:
        S.socket = saved
    names = [e.name for e in events]
    if exc:
        return 'exception escaped the iterator: %s' % exc, names
    first_ok = next((i for i, o in enumerate(outcomes) if o == 'accepts'), None)
    if first_ok is None:
        if names != ['connecting', 'connect_fail']:
            return 'expected Connecting, ConnectFail, got %r' % names, names
        if any(not sk.closed for sk in made):
            return 'a socket whose connect failed was left open', names
        tried_idx = [sk.idx for sk in made]
        want = [i for i, o in enumerate(outcomes) if o != 'create-fails']
        if tried_idx != want:
            return 'addresses tried %r, expected %r' % (tried_idx, want), names
        return None, names
    if 'connected' not in names:
        return 'gave up (%r) although address #%d accepted the connection' % (names, first_ok), names
    for sk in made:
        if sk.idx != first_ok and not sk.closed:
            return 'socket of address #%d left open' % sk.idx, names
    if made and made[-1].idx != first_ok:
        return 'went on to address #%d after #%d had accepted' % (made[-1].idx, first_ok), names
    if not made[-1].closed:
        return 'connected socket not closed after the terminal event', names
    return None, names


def known_finding(kf):
    return dict(found=False, error='no known finding is registered for C09')
