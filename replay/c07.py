"""C07 replay: scripted server behaviours x application reactions x faults; the event sequence must
follow the monitor of the property."""
import struct

from replay import harness, ref

AFTER_READY = {'text', 'binary', 'ping', 'pong', 'poll', 'closing', 'closed', 'unresponsive'}


def well_formed(names):
    if not names or names[0] != 'connecting':
        return 'does not start with Connecting'
    if len(names) < 2:
        return 'stops after Connecting'
    if names[1] == 'connect_fail':
        return None if len(names) == 2 else 'events after ConnectFail'
    if names[1] != 'connected':
        return 'second event is %s' % names[1]
    if names.count('ready') > 1:
        return 'Ready more than once'
    ready_at = names.index('ready') if 'ready' in names else None
    for i, n in enumerate(names):
        if n in AFTER_READY and (ready_at is None or i < ready_at):
            return '%r yielded without a preceding Ready' % n
    terms = [i for i, n in enumerate(names) if n in ('connect_fail', 'disconnected')]
    if len(terms) != 1 or terms[0] != len(names) - 1:
        return 'terminal events at %r of %d' % (terms, len(names))
    return None


def scenarios():
    T, P, B = ref.server_frame(1, b'hi'), ref.server_frame(9, b'p'), ref.server_frame(2, b'\x00')
    C = ref.server_frame(8, struct.pack('!H', 1000))
    bad = ref.server_frame(3, b'')
    reject = b'HTTP/1.1 403 Forbidden\r\nContent-Length: 0\r\n\r\n'
    yield 'accept, frames, server close', dict(stream=T + P + B + C)
    yield 'accept, frames, EOF', dict(stream=T + P)
    yield 'accept, protocol error, more frames', dict(stream=T + bad + T)
    yield 'rejected upgrade, nothing after', dict(reads=lambda ws: [reject, b''])
    yield 'rejected upgrade followed by frames in the same read', dict(reads=lambda ws: [reject + T + P, b''])
    yield 'rejected upgrade followed by frames in a later read', dict(reads=lambda ws: [reject, T + P, b''])
    yield 'wrong accept followed by a ping in the same read', dict(reads=lambda ws: [harness.response_for(ws.key, accept=b'AAAAAAAAAAAAAAAAAAAAAAAAAAA=') + P, b''])
    yield 'frames before the reply is complete', dict(reads=lambda ws: [harness.response_for(ws.key)[:20], harness.response_for(ws.key)[20:] + T, b''])
    yield 'oversized header block', dict(reads=lambda ws: [b'HTTP/1.1 101 X\r\nX: ' + b'a' * 17000, b''])
    yield 'read error right after connected', dict(reads=lambda ws: [OSError(104, 'reset')])
    yield 'read error after ready', dict(reads=lambda ws: [harness.response_for(ws.key) + T, OSError(104, 'reset')])
    yield 'connect failure', dict(connect_exc=OSError(111, 'refused'))
    yield 'silence until ping timeout', dict(reads=lambda ws: [harness.response_for(ws.key)] + [('idle', 1)] * 6 + [b''], connect_kwargs=dict(poll=1, ping_rate=1, ping_timeout=2), clock=True)


def replay(obligation, extra):
    tried = 0
    from replay import trickle
    r = trickle.check()
    if r:
        return r
    for name, kw in scenarios():
        for react_name, react in (('nothing', None), ('close at first message', lambda ws, ev, k, run: ws.close() if ev.name in ('text', 'ping') else None),
                                  ('send at every event', lambda ws, ev, k, run: _try(ws)),
                                  ('close at Connecting', lambda ws, ev, k, run: ws.close() if ev.name == 'connecting' else None),
                                  ('close at Connected', lambda ws, ev, k, run: ws.close() if ev.name == 'connected' else None)):
            kw2 = dict(kw)
            kw2.setdefault('connect_kwargs', dict(ping_rate=0))
            if kw2.pop('clock', None):
                kw2['clock'] = harness.Clock().install()
            tried += 1
            run = harness.drive(react=react, **kw2)
            if kw2.get('clock'):
                kw2['clock'].uninstall()
            names = [e.name for e in run.events]
            err = run.exception and 'exception escaped: %s' % run.exception or well_formed(names)
            if err:
                return dict(found=True, input='server: %s; application: %s' % (name, react_name), expected='Connecting, then ConnectFail | Connected [Ready ...] Disconnected',
                            observed='%s; events: %r' % (err, names))
    # a timeout that has fired ends the iteration: close() sent before / at Ready (session time 0.0), the server completes
    # the upgrade and then neither answers the Close nor drops the connection; data it sends long after the close timeout
    # must not be reached
    T = ref.server_frame(1, b'late')
    for at in ('connected', 'ready'):
        tried += 1
        clock = harness.Clock().install()
        try:
            run = harness.drive(reads=lambda ws: [harness.response_for(ws.key)] + [('idle', 1)] * 10 + [T, b''],
                                react=lambda ws, ev, k, run, at=at: ws.close() if ev.name == at else None,
                                connect_kwargs=dict(poll=1, ping_rate=0, close_timeout=3), clock=clock)
        finally:
            clock.uninstall()
        names = [e.name for e in run.events]
        err = run.exception and 'exception escaped: %s' % run.exception or well_formed(names)
        if err or 'text' in names or names.count('poll') > 6:
            return dict(found=True, input='close() at %s, server completes the upgrade and stays silent for 10 s, close_timeout=3, poll=1' % at,
                        expected='forced Disconnected about 3 s after the Close (iteration ends when the timeout fires)',
                        observed='%s; events: %r' % (err or 'still iterating after 10 s', names))
    return dict(found=False, tried='%d runs (server behaviours x application reactions)' % tried)


def _try(ws):
    try:
        ws.send_text('x')
    except Exception:
        pass


def known_finding(kf):
    return dict(found=False, error='no known finding is registered for C07')
