"""Shared scenario of the C14 / C18 batteries: an application thread is in the middle of a send (inside sendall, holding the
session's write lock) when the event loop receives a Ping.  The automatic Pong must be written in that same cycle - the loop
waits for the lock - and before the application sees the Ping; it must not be postponed to a later poll."""
import threading

from replay import harness, ref, sched


def check():
    gate = sched.Gate(timeout=3.0)
    box = {}

    def react(ws, ev, k, run):
        if ev.name == 'text' and ev.text == 'go':
            real = run.sock.sendall

            def sendall(d):
                if threading.current_thread().name == 'A':
                    gate.hit()
                return real(d)
            run.sock.sendall = sendall
            box['a'] = sched.run_thread(lambda: ws.send_binary(b'x' * 1000), 'A')
            gate.reached.wait(2.0)
            threading.Timer(0.3, gate.go.set).start()       # the sender finishes 0.3 s (real time) later
        elif ev.name == 'ping':
            box['at_ping'] = [d for w in run.sock.out[1:] for d in ref.decode_all(w)]
    run = harness.drive(reads=lambda ws: [harness.response_for(ws.key) + ref.server_frame(1, b'go'), ref.server_frame(9, b'late'), ('idle', 3), b''],
                        react=react, connect_kwargs=dict(ping_rate=0, poll=1), clock=None)
    gate.go.set()
    if 'a' in box:
        box['a'].join(3.0)
    if run.exception or 'at_ping' not in box or not gate.hits:
        return None
    pongs = [d for d in box['at_ping'] if d and d['opcode'] == 10 and d['payload'] == b'late']
    if not pongs:
        return dict(found=True, input='thread A is inside send_binary (in sendall, holding the write lock, for another 0.3 s) when the event loop receives Ping(b"late"); nothing else arrives afterwards',
                    expected='the loop waits for the lock and writes the Pong in this cycle, before the application sees the Ping',
                    observed='Ping handed to the application with no Pong written (frames on the wire then: %r)' % [d and d['opcode'] for d in box['at_ping']])
    return None
