"""Replay dispatcher: reads {"property", "obligation", "extra"} on stdin, runs the property's
replay battery against the REAL code, prints one JSON line {found, input, observed, expected}."""
import importlib
import json
import sys
import traceback


FUZZ_PIDS = ('C01', 'C02', 'C04', 'C05', 'C14')


def model_ints(model, lo=0, hi=1 << 20):
    out = []
    for k, v in (model or {}).items():
        try:
            n = int(str(v))
        except ValueError:
            continue
        if lo <= n <= hi:
            out.append(n)
    return sorted(set(out))


def main():
    req = json.loads(sys.stdin.read())
    pid = req['property']
    try:
        mod = importlib.import_module('replay.%s' % pid.lower())
        kf = (req.get('extra') or {}).get('known_finding')
        if kf:
            res = mod.known_finding(kf)
        else:
            res = mod.replay(req['obligation'], req.get('extra') or {})
            if not res.get('found') and str(req['obligation'].get('name', '')).startswith('exploration') and pid in FUZZ_PIDS:
                # thorough tier: random server streams against the message-level oracle (replay/fuzz.py)
                import os
                from replay import fuzz
                seed = int(os.environ.get('VERIF_SEED', '0') or 0)
                fr = fuzz.explore(seed, 1500)
                if fr.get('found'):
                    res = fr
                else:
                    res['tried'] = '%s; %s' % (res.get('tried'), fr.get('tried'))
    except Exception as e:
        res = dict(found=False, error='replay harness error: %s: %s' % (type(e).__name__, e), traceback=traceback.format_exc()[-1500:])
    print(json.dumps(res, default=lambda o: repr(o)))


if __name__ == '__main__':
    main()
