"""Replay dispatcher: reads {"property", "obligation", "extra"} on stdin, runs the property's
replay battery against the REAL code, prints one JSON line {found, input, observed, expected}."""
import importlib
import json
import sys
import traceback


def model_ints(model, lo=0, hi=1 << 20):
    out = []
    for k, v in (model or {}).items():
        try:
            n = int(str(v))
        except ValueError:
            continue
        if lo <= n <= hi:
            out.append(n)
    return sorted(set(out))


def main():
    req = json.loads(sys.stdin.read())
    pid = req['property']
    try:
        mod = importlib.import_module('replay.%s' % pid.lower())
        kf = (req.get('extra') or {}).get('known_finding')
        if kf:
            res = mod.known_finding(kf)
        else:
            res = mod.replay(req['obligation'], req.get('extra') or {})
    except Exception as e:
        res = dict(found=False, error='replay harness error: %s: %s' % (type(e).__name__, e), traceback=traceback.format_exc()[-1500:])
    print(json.dumps(res, default=lambda o: repr(o)))


if __name__ == '__main__':
    main()
