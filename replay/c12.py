"""C12 replay: force the schedules the refuted monitor obligations describe, on real threads."""
import threading

from replay import harness, ref, sched
from lomond import errors


def connected():
    run = harness.Run()
    ws = harness.WebSocket('ws://example.com/')
    S = harness.make_session_class(run, lambda w: [harness.response_for(w.key)])
    gen = ws.connect(session_class=S, ping_rate=0)
    for ev in gen:
        if ev.name == 'ready':
            break
    return ws, run.sock, gen


def frames_after_request(sock):
    return [ref.decode_one(w) for w in sock.out[1:]]


def judge(sock, what):
    fr = frames_after_request(sock)
    ops = [f['opcode'] if f else None for f in fr]
    closes = [i for i, o in enumerate(ops) if o == 8]
    if len(closes) > 1:
        return '%d Close frames on the wire (%s)' % (len(closes), ops)
    if closes and any(o in (1, 2, 0) for o in ops[closes[0] + 1:]):
        return 'data frame written after the Close frame: opcodes on the wire %s' % ops
    return None


def close_vs(other):
    """A: close() is stopped right after its Close frame has been handed to the socket; B runs
    `other` to completion; A resumes"""
    ws, sock, gen = connected()
    gate = sched.Gate()
    session = ws.state.session
    orig_write = session.write

    def write(data, *a, **kw):
        # cut point: thread A's write of its Close frame has RETURNED (the session lock is released)
        r = orig_write(data, *a, **kw)
        f = ref.decode_one(bytes(data))
        if f and f['opcode'] == 8 and threading.current_thread().name == 'A':
            gate.hit()
        return r
    session.write = write
    a = sched.run_thread(lambda: ws.close(1000, b'bye'), 'A')
    gate.reached.wait(2)
    b = sched.run_thread(lambda: other(ws), 'B')
    b.join(2)
    gate.go.set()
    a.join(2)
    b.join(2)
    err = judge(sock, None)
    lost_ok = 'error' not in b.box or isinstance(b.box['error'], errors.WebSocketError)
    if err is None and not lost_ok:
        err = 'the losing call raised %r instead of a WebSocketError' % (b.box['error'],)
    gen.close()
    return err


def server_close_vs_send():
    """event loop thread processes the server's Close reply (we were closing) and is stopped between
    its two flag stores; the application thread sends"""
    ws, sock, gen = connected()
    ws.close(1000, b'bye')
    gate = sched.Gate()
    msg = ws.state.stream  # noqa: F841

    def loop_body():
        from lomond.message import Close
        return list(ws._on_close(Close(1000, 'bye')))
    body = sched.trace_gate(loop_body, '_on_close', 'self.state.closed = True', gate, 'websocket.py')
    a = sched.run_thread(body, 'A')
    gate.reached.wait(2)
    b = sched.run_thread(lambda: ws.send_text('late'), 'B')
    b.join(2)
    gate.go.set()
    a.join(2)
    err = judge(sock, None)
    gen.close()
    return err


def overlapping_closes_then_send(right_after_the_test=False):
    """B's close() has passed its is_closing test and is stopped just before it writes (or: right after the test, before
    the very next statement); A's close() runs to completion; B resumes (its write is refused); then the application sends
    and closes again"""
    ws, sock, gen = connected()
    gate = sched.Gate(timeout=2)
    if right_after_the_test:
        body = sched.trace_gate(lambda: ws.close(1001, b'B'), 'close', 'is_closing', gate, 'websocket.py', after=True)
    else:
        body = sched.trace_gate(lambda: ws.close(1001, b'B'), 'close', '_send_close(', gate, 'websocket.py')
    b = sched.run_thread(body, 'B')
    gate.reached.wait(2)
    a = sched.run_thread(lambda: ws.close(1000, b'A'), 'A')
    a.join(2)
    gate.go.set()
    b.join(2)
    late = []
    for call in (lambda: ws.send_text('late'), lambda: ws.send_binary(b'late'), lambda: ws.close(1002, b'again')):
        try:
            call()
        except errors.WebSocketError:
            pass
        except Exception as e:       # noqa
            late.append(repr(e))
    err = judge(sock, None)
    if err is None and late:
        err = 'a call after the Close raised %s instead of a WebSocketError' % late[0]
    gen.close()
    return err


def send_held_before_the_lock():
    """B's send_text() is held on the line that takes the session lock in write(); A's close() completes; B resumes"""
    ws, sock, gen = connected()
    gate = sched.Gate(timeout=2)
    body = sched.trace_gate(lambda: ws.send_text('late'), 'write', 'self._lock', gate, 'session.py')
    b = sched.run_thread(body, 'B')
    gate.reached.wait(2)
    a = sched.run_thread(lambda: ws.close(1000, b'A'), 'A')
    a.join(2)
    gate.go.set()
    b.join(2)
    err = judge(sock, None)
    if err is None and 'error' in b.box and not isinstance(b.box['error'], errors.WebSocketError):
        err = 'the losing send raised %r instead of a WebSocketError' % (b.box['error'],)
    gen.close()
    return err


def replay(obligation, extra):
    for name, fn in (('close() on thread A is interrupted right after its Close frame was written; thread B calls send_text()', lambda: close_vs(lambda ws: ws.send_text('late'))),
                     ('close() on thread A interrupted after its Close frame was written; thread B calls close()', lambda: close_vs(lambda ws: ws.close(1001, b'other'))),
                     ('close() on thread A interrupted after its Close frame was written; thread B calls send_ping()', lambda: close_vs(lambda ws: ws.send_ping(b'p'))),
                     ('event loop processing the server Close reply is interrupted between its two flag updates; application thread calls send_text()', server_close_vs_send),
                     ('send_text() on thread B is held on the line of write() that takes the session lock; close() on thread A completes; B resumes', send_held_before_the_lock),
                     ('close() on thread B has passed its is_closing test and is held before it writes; close() on thread A completes; B resumes; then send_text(), send_binary(), close()', overlapping_closes_then_send),
                     ('close() on thread B has just evaluated its is_closing test (stopped before its next statement); close() on thread A completes; B resumes; then sends and close()',
                      lambda: overlapping_closes_then_send(True))):
        err = fn()
        if err:
            return dict(found=True, input='schedule: ' + name, expected='at most one Close frame, no data frame after it, the loser gets a WebSocketError', observed=err)
    return dict(found=False, tried='6 forced schedules (close vs send_text / close / send_ping; server-Close processing vs send_text; send held before the lock; overlapping closes then sends)')


def known_finding(kf):
    return dict(found=False, error='no known finding is registered for C12')
