"""C11 replay: concurrent senders; whole frames, per-thread order, and (with context takeover) the
peer inflates every message in wire order."""
import threading
import zlib

from replay import harness, ref, sched


def connected(compress):
    run = harness.Run()
    ws = harness.WebSocket('ws://example.com/', compress=compress)
    extra = b'Sec-WebSocket-Extensions: permessage-deflate\r\n' if compress else b''
    S = harness.make_session_class(run, lambda w: [harness.response_for(w.key, extra)])
    gen = ws.connect(session_class=S, ping_rate=0)
    for ev in gen:
        if ev.name == 'ready':
            break
    return ws, run.sock, gen


def compress_order_vs_wire_order(cut='after-compress'):
    """A deflates m1 and is stopped before its frame is written - right after compress() returns, or on entry to
    session.write (i.e. after any lock held only around the deflater was released); B deflates and writes m2; A resumes"""
    ws, sock, gen = connected(True)
    comp = ws.state.compression
    gate = sched.Gate()
    orig = comp.compress

    def compress(payload):
        out = orig(payload)
        if cut == 'after-compress' and threading.current_thread().name == 'A':
            gate.hit()
        return out
    comp.compress = compress
    session = ws.state.session
    orig_write = session.write

    def write(data, *a, **kw):
        if cut == 'before-write' and threading.current_thread().name == 'A':
            gate.hit()
        return orig_write(data, *a, **kw)
    session.write = write
    m1 = 'the quick brown fox jumps over the lazy dog ' * 8
    m2 = 'the quick brown fox jumps over the lazy cat ' * 8
    a = sched.run_thread(lambda: ws.send_text(m1), 'A')
    gate.reached.wait(2)
    b = sched.run_thread(lambda: ws.send_text(m2), 'B')
    b.join(2)
    gate.go.set()
    a.join(2)
    b.join(2)
    peer = zlib.decompressobj(-15)
    got = []
    for w in sock.out[1:]:
        ds = ref.decode_all(w)
        if len(ds) != 1 or ds[0] is None:
            return 'one write is not one whole frame'
        try:
            got.append(peer.decompress(ds[0]['payload'] + b'\x00\x00\xff\xff').decode('utf-8'))
        except Exception as e:
            return 'the peer cannot inflate message #%d in wire order: %s' % (len(got), e)
    gen.close()
    if sorted(got) != sorted([m1, m2]):
        return 'the peer decoded different messages: %r' % ([g[:30] for g in got],)
    return None


def torn_frames():
    """the socket write itself is split in two steps; two threads send"""
    ws, sock, gen = connected(False)
    gate = sched.Gate()
    orig_out = sock.out

    def sendall(d):
        d = bytes(d)
        half = len(d) // 2
        sock.stream = getattr(sock, 'stream', b'') + d[:half]
        if threading.current_thread().name == 'A':
            gate.hit()
        sock.stream += d[half:]
        orig_out.append(d)
    sock.sendall = sendall
    a = sched.run_thread(lambda: [ws.send_binary(b'A' * 50), ws.send_binary(b'a' * 10)], 'A')
    gate.reached.wait(2)
    b = sched.run_thread(lambda: [ws.send_binary(b'B' * 40), ws.send_ping(b'b')], 'B')
    b.join(1)
    gate.go.set()
    a.join(2)
    b.join(2)
    ds = ref.decode_all(sock.stream)
    if any(d is None for d in ds):
        return 'the byte stream on the socket is not a sequence of whole frames'
    pay = [d['payload'] for d in ds]
    if sorted(pay) != sorted([b'A' * 50, b'a' * 10, b'B' * 40, b'b']):
        return 'frames torn or interleaved: payloads %r' % ([p[:6] for p in pay],)
    if pay.index(b'A' * 50) > pay.index(b'a' * 10) or pay.index(b'B' * 40) > pay.index(b'b'):
        return 'a thread\'s messages are out of its call order'
    gen.close()
    return None


def lock_released_mid_frame():
    """thread A sends one large uncompressed frame and is stopped as soon as a write() call of it has returned (on the
    repaired tree: after the whole frame); thread B sends a small frame; A resumes"""
    ws, sock, gen = connected(False)
    gate = sched.Gate()
    session = ws.state.session
    orig_write = session.write

    def write(data, *a, **kw):
        r = orig_write(data, *a, **kw)
        if threading.current_thread().name == 'A':
            gate.hit()
        return r
    session.write = write
    big = bytes((i * 17) % 256 for i in range(70000))
    a = sched.run_thread(lambda: ws.send_binary(big), 'A')
    gate.reached.wait(2)
    b = sched.run_thread(lambda: ws.send_binary(b'small'), 'B')
    b.join(2)
    gate.go.set()
    a.join(2)
    b.join(2)
    ds = ref.decode_all(b''.join(sock.out[1:]))
    gen.close()
    if any(d is None for d in ds) or sorted(d['payload'] for d in ds) != sorted([big, b'small']):
        return 'the byte stream is not the two whole frames: writes of %r bytes, decoded payload sizes %r' % (
            [len(w) for w in sock.out[1:]], [None if d is None else d['plen'] for d in ds])
    return None


def replay(obligation, extra):
    for name, fn in (('thread A deflates m1 and is interrupted before its frame is written; thread B deflates and writes m2; A resumes (context takeover)', compress_order_vs_wire_order),
                     ('thread A has deflated m1 and is interrupted on entry to session.write; thread B deflates and writes m2; A resumes (context takeover)', lambda: compress_order_vs_wire_order('before-write')),
                     ('sendall split in two steps, two threads each sending two messages', torn_frames),
                     ('thread A sends a 70 000-byte frame and is stopped when a write() call of it returns; thread B sends a small frame; A resumes', lock_released_mid_frame)):
        err = fn()
        if err:
            return dict(found=True, input='schedule: ' + name, expected='whole frames, each thread in order, every message decodable by the peer in wire order', observed=err)
    return dict(found=False, tried='4 forced schedules (compress/write order under context takeover, two cut points; split sendall; stop after a write call)')


def known_finding(kf):
    return dict(found=False, error='no known finding is registered for C11')
