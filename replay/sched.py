"""Deterministic thread schedules for the C11/C12 replays: real threads running the real methods,
forced through named cut points by events.  Cut points are placed by wrapping the fake socket's
sendall / the deflater's compress, or (for single statements inside the library) by a line trace on
one thread - no edit of /repo."""
import sys
import threading


class Gate:
    """a cut point: the thread that reaches it signals `reached` and waits for `go` (with a timeout
    so that a schedule made impossible by a repaired tree degrades into a legal interleaving)"""
    def __init__(self, timeout=0.4):
        self.reached, self.go, self.timeout = threading.Event(), threading.Event(), timeout
        self.armed = True
        self.hits = 0

    def hit(self):
        if not self.armed:
            return
        self.armed = False
        self.hits += 1
        self.reached.set()
        self.go.wait(self.timeout)


def run_thread(fn, name):
    box = {}

    def body():
        try:
            box['result'] = fn()
        except BaseException as e:      # noqa: B902
            box['error'] = e
    t = threading.Thread(target=body, name=name)
    t.box = box
    t.start()
    return t


def trace_gate(thread_body, code_name, before_source_fragment, gate, filename_part, after=False):
    """run thread_body with a line trace that hits `gate` just before the first line of function
    `code_name` whose source contains `before_source_fragment` (after=True: just AFTER that line has been executed,
    i.e. before the next line of the same frame - e.g. right after a test has been evaluated)"""
    import linecache
    seen = {}

    def tracer(frame, event, arg):
        if frame.f_code.co_name != code_name or filename_part not in frame.f_code.co_filename:
            return tracer if event == 'call' else None

        def local(frame, event, arg):
            if event == 'line':
                src = linecache.getline(frame.f_code.co_filename, frame.f_lineno)
                if after:
                    if seen.get(id(frame)):
                        seen[id(frame)] = False
                        gate.hit()
                    elif before_source_fragment in src and gate.armed:
                        seen[id(frame)] = True
                elif before_source_fragment in src:
                    gate.hit()
            return local
        return local

    def wrapped():
        sys.settrace(tracer)
        try:
            return thread_body()
        finally:
            sys.settrace(None)
    return wrapped
