"""Scripted-transport harness driving the REAL lomond code (run under /venv/bin/python):
fake socket with explicit read segmentation / write log / injectable faults / optional pending(),
fake selector, virtual clock.  No edit of /repo: the session class is subclassed."""
import base64
import hashlib
import os
import sys
import time as _time

ROOT = os.environ.get('LOMOND_ROOT', '/repo')
if ROOT not in sys.path:
    sys.path.insert(0, ROOT)

import lomond                                     # noqa: E402
from lomond import WebSocket, events, constants   # noqa: E402
from lomond.session import WebsocketSession       # noqa: E402
from lomond.selectors import SelectorBase         # noqa: E402
import lomond.session as _session_mod             # noqa: E402
import lomond.events as _events_mod               # noqa: E402


class Clock:
    """virtual clock patched over time.time in lomond.session / lomond.events"""
    def __init__(self, t0=1000.0):
        self.t = t0

    def time(self):
        return self.t

    def install(self):
        self._saved = (_session_mod.time.time,)
        class _T:
            pass
        fake = type('faketime', (), {'time': staticmethod(self.time)})
        self._mods = []
        for m in (_session_mod, _events_mod):
            self._mods.append((m, m.time))
            m.time = fake
        return self

    def uninstall(self):
        for m, t in self._mods:
            m.time = t


class FakeSocket:
    def __init__(self, reads=(), pending_bytes=None, fail_send_at=None, send_exc=None, tls=False, fail_after_bytes_left=False):
        self.reads = list(reads)      # items: bytes (a read), b'' (EOF), or an Exception instance
        self.out = []
        self.ops = []
        self.closed = False
        self.shut = False
        self.fail_send_at = fail_send_at
        self.fail_after_bytes_left = fail_after_bytes_left      # the faulty sendall delivers its bytes and THEN raises (e.g. a timeout)
        self.send_exc = send_exc or OSError(104, 'Connection reset by peer')
        self.nsend = 0
        self.blocked_wait = 0
        if tls:
            self.pending = self._pending
        self.tls_buf = b''

    def sendall(self, d):
        self.ops.append(('sendall', len(d)))
        k = self.nsend
        self.nsend += 1
        if self.fail_send_at is not None and k == self.fail_send_at:
            if self.fail_after_bytes_left:
                self.out.append(bytes(d))
            raise self.send_exc
        if self.closed:
            raise OSError(9, 'Bad file descriptor')
        self.out.append(bytes(d))

    def _pending(self):
        return len(self.tls_buf)

    def recv_into(self, buf, n):
        self.ops.append(('recv_into', n))
        if self.closed:
            raise OSError(9, 'Bad file descriptor')
        if self.tls_buf:
            c = self.tls_buf[:n]
            self.tls_buf = self.tls_buf[n:]
            buf[:len(c)] = c
            return len(c)
        if not self.reads:
            return 0
        c = self.reads.pop(0)
        if isinstance(c, BaseException):
            raise c
        c2, rest = c[:n], c[n:]
        if rest:
            if hasattr(self, 'pending'):
                self.tls_buf = rest        # a TLS record is decrypted whole; the rest stays in the TLS layer
            else:
                self.reads.insert(0, rest)
        buf[:len(c2)] = c2
        return len(c2)

    def recv(self, n):
        self.ops.append(('recv', n))
        if not self.reads:
            return b''
        c = self.reads.pop(0)
        if isinstance(c, BaseException):
            raise c
        c2, rest = c[:n], c[n:]
        if rest:
            self.reads.insert(0, rest)
        return c2

    def shutdown(self, *a):
        self.ops.append(('shutdown',))
        self.shut = True

    def close(self):
        self.ops.append(('close',))
        self.closed = True

    def settimeout(self, *a):
        pass

    def setsockopt(self, *a):
        pass

    def fileno(self):
        return 9


class FakeSelector(SelectorBase):
    """the REAL SelectorBase.wait with a scripted wait_readable: readable whenever the fake socket's
    kernel side has something to deliver (data, EOF or error); a wait that would block advances the
    virtual clock by the timeout"""
    instances = []

    def __init__(self, sock):
        SelectorBase.__init__(self, sock)
        self.sock = sock
        self.closed = False
        self.waits = 0
        FakeSelector.instances.append(self)

    clock = None
    idle_limit = 50

    def wait_readable(self, timeout=0.0):
        s = self.sock
        self.waits += 1
        if s.reads:
            nxt = s.reads[0] if s.reads else None
            if isinstance(nxt, tuple) and nxt[0] == 'idle':
                # ('idle', seconds): nothing readable for that long
                s.reads.pop(0)
                if self.clock:
                    self.clock.t += min(timeout, nxt[1])
                rest = nxt[1] - timeout
                if rest > 0:
                    s.reads.insert(0, ('idle', rest))
                return False
            if isinstance(nxt, tuple) and nxt[0] == 'after':
                # ('after', seconds, data): `data` becomes readable after that long - a peer that trickles bytes
                if nxt[1] <= timeout:
                    if self.clock:
                        self.clock.t += nxt[1]
                    s.reads[0] = nxt[2]
                    return True
                if self.clock:
                    self.clock.t += timeout
                s.reads[0] = ('after', nxt[1] - timeout, nxt[2])
                return False
            return True
        s.blocked_wait += 1
        if self.clock:
            self.clock.t += timeout
        if s.blocked_wait > self.idle_limit:
            raise RuntimeError('harness: idle limit reached (loop is waiting forever)')
        return True     # EOF is readable

    def close(self):
        self.closed = True


def ref_eof():
    return b''


def accept_for(key):
    return base64.b64encode(hashlib.sha1(key + constants.WS_KEY).digest())


def response_for(key, extra=b'', status=b'101 Switching Protocols', accept=None, upgrade=b'websocket'):
    acc = accept_for(key) if accept is None else accept
    return (b'HTTP/1.1 ' + status + b'\r\nUpgrade: ' + upgrade + b'\r\nConnection: Upgrade\r\n'
            b'Sec-WebSocket-Accept: ' + acc + b'\r\n' + extra + b'\r\n')


def cut(data, cuts):
    """split data at the given offsets"""
    out, prev = [], 0
    for c in sorted(set(c for c in cuts if 0 < c < len(data))):
        out.append(data[prev:c])
        prev = c
    out.append(data[prev:])
    return [x for x in out if x]


class Run:
    """result of one scripted connection"""
    def __init__(self):
        self.events, self.sock, self.ws, self.session, self.selector = [], None, None, None, None
        self.exception = None
        self.wire_at_event = []


def make_session_class(run, script, selector_cls=FakeSelector, connect_exc=None, sock_kwargs=None):
    class S(WebsocketSession):
        _selector_cls = selector_cls

        def _connect(s):
            if connect_exc is not None:
                raise connect_exc
            ws = s.websocket
            reads = script(ws) if callable(script) else list(script)
            run.sock = FakeSocket(reads, **(sock_kwargs or {}))
            return run.sock, None
    return S


def drive(stream=b'', cuts=None, react=None, response_extra=b'', url='ws://example.com/', ws_kwargs=None,
          connect_kwargs=None, reads=None, sock_kwargs=None, abandon_at=None, abandon_how='break',
          connect_exc=None, handshake=True, eof=True, clock=None, max_events=10000):
    """run one connection of the real client against a scripted server.
    stream: bytes after the handshake response; cuts: offsets (within response+stream) where reads
    are cut; reads: explicit read list instead (callable(ws) -> list allowed)"""
    run = Run()
    ws = WebSocket(url, **(ws_kwargs or {}))
    run.ws = ws

    def script(w):
        if reads is not None:
            return reads(w) if callable(reads) else list(reads)
        data = (response_for(w.key, response_extra) if handshake else b'') + stream
        chunks = cut(data, cuts) if cuts else ([data] if data else [])
        return chunks + ([b''] if eof else [])
    FakeSelector.instances = []
    FakeSelector.clock = clock
    S = make_session_class(run, script, connect_exc=connect_exc, sock_kwargs=sock_kwargs)
    kw = dict(session_class=S)
    kw.update(connect_kwargs or {})
    try:
        if abandon_how == 'with':
            with ws:
                _loop(run, ws, kw, react, abandon_at, 'raise', max_events)
        else:
            _loop(run, ws, kw, react, abandon_at, abandon_how, max_events)
    except _Abandon:
        pass
    except Exception as e:          # escaped from the iterator: C09 violation material
        run.exception = repr(e)
    # the exception (and with it the traceback's reference to the consumer frame and its iterator)
    # is gone here: CPython finalises an abandoned generator at this point at the latest
    import gc
    gc.collect()
    run.session = ws.state.session
    run.selector = FakeSelector.instances[-1] if FakeSelector.instances else None
    return run


class _Abandon(Exception):
    pass


def _loop(run, ws, kw, react, abandon_at, how, max_events):
    """the consumer: `for event in websocket.connect(...)`; the iterator is referenced by this
    frame only, exactly as in application code"""
    k = 0
    for ev in ws.connect(**kw):
        run.events.append(ev)
        run.wire_at_event.append(len(run.sock.out) if run.sock else 0)
        if abandon_at is not None and k == abandon_at:
            if how in ('break', 'close'):
                break
            raise _Abandon()
        if react:
            react(ws, ev, k, run)
        k += 1
        if k > max_events:
            raise RuntimeError('harness: too many events')


def ev_summary(e):
    d = {'name': e.name}
    for k in ('text', 'data', 'code', 'reason', 'graceful', 'error', 'critical', 'url', 'proxy', 'protocol', 'extensions', 'delay'):
        if hasattr(e, k):
            v = getattr(e, k)
            if isinstance(v, (bytes, bytearray)):
                v = 'hex:' + bytes(v).hex() if len(v) <= 64 else 'hex:%s...(%d bytes)' % (bytes(v[:32]).hex(), len(v))
            elif isinstance(v, (set, frozenset)):
                v = sorted(v)
            d[k] = v
    return d
