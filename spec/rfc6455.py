"""RFC 6455 framing, written from the RFC text (section 5.2, 5.3, 5.5, 7.4) and independent of
lomond.frame.  Symbolic reading over pyvc byte strings; a concrete twin lives in replay/ref.py
and the two are compared on the RFC's own examples by selftest()."""
from z3 import And, Or, Not, If, Implies, IntVal, BoolVal, Sum, ForAll, simplify

from pyvc.sval import SBytes, BYTES, iv, fresh

OP_CONT, OP_TEXT, OP_BINARY, OP_CLOSE, OP_PING, OP_PONG = 0, 1, 2, 8, 9, 10


class FrameV:
    """decoded view of the first frame in a byte string (all fields z3 terms / SBytes)"""
    def __init__(self, **kw):
        self.__dict__.update(kw)


def be(w, off, k):
    return Sum([w.at(iv(off) + j) * 256 ** (k - 1 - j) for j in range(k)])


def decode_one(w):
    """section 5.2 base framing protocol: decode the frame that starts at w[0]"""
    b0, b1 = w.at(IntVal(0)), w.at(IntVal(1))
    fin = b0 / 128
    rsv1, rsv2, rsv3 = (b0 / 64) % 2, (b0 / 32) % 2, (b0 / 16) % 2
    opcode = b0 % 16
    mask = b1 / 128
    len7 = b1 % 128
    ext = If(len7 < 126, 0, If(len7 == 126, 2, 8))
    plen = If(len7 < 126, len7, If(len7 == 126, be(w, 2, 2), be(w, 2, 8)))
    koff = 2 + ext
    poff = koff + 4 * mask
    key = SBytes(BYTES, IntVal(4), lambda i: w.at(iv(i) + koff))
    payload = SBytes(BYTES, plen, lambda i: w.at(iv(i) + poff))
    minimal = And(Implies(len7 == 126, plen >= 126), Implies(len7 == 127, plen >= 65536))
    return FrameV(fin=fin, rsv1=rsv1, rsv2=rsv2, rsv3=rsv3, opcode=opcode, mask=mask, len7=len7,
                  plen=plen, key=key, payload=payload, header_len=poff, total=poff + plen,
                  minimal=minimal, msb_clear=plen < 2 ** 63)


def is_control(opcode):
    return opcode >= 8


RESERVED_OPCODES = (3, 4, 5, 6, 7, 11, 12, 13, 14, 15)


def valid_server_header(fin, rsv1, rsv2, rsv3, opcode, mask, plen, compression):
    """what a client must accept from a server (5.1: unmasked; 5.2: rsv/opcode; 5.5: control frames
    <= 125 bytes and not fragmented; 5.2: most significant bit of a 64-bit length must be 0;
    RFC 7692 6.1: RSV1 only with the extension and never on control frames)"""
    return And(
        Not(Or(*[opcode == r for r in RESERVED_OPCODES])),
        rsv2 == 0, rsv3 == 0,
        # RSV1 has a negotiated meaning only under permessage-deflate, and there only on data
        # messages (RFC 7692 6.1: MUST NOT be set on control frames)
        Or(rsv1 == 0, And(compression, Not(is_control(opcode)))),
        Implies(is_control(opcode), And(fin == 1, plen <= 125)),
        mask == 0,
        plen < 2 ** 63,
    )


# section 7.4.1/7.4.2: codes that must not appear in a Close frame on the wire, and codes that are
# definitely allowed; everything else (1012-1014, >= 5000 ...) is left open by this spec
def close_code_must_reject(code):
    return Or(And(code >= 0, code <= 999), code == 1004, code == 1005, code == 1006, code == 1015,
              And(code >= 1016, code <= 2999))


def close_code_must_accept(code):
    return Or(And(code >= 1000, code <= 1003), And(code >= 1007, code <= 1011), And(code >= 3000, code <= 4999))
