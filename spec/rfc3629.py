"""RFC 3629 / Unicode Table 3-7 'Well-Formed UTF-8 Byte Sequences', written from the table and
independent of lomond.utf8validator: an automaton whose state is the tuple of byte ranges still
expected.  Used (a) concretely, to check the real DFA table by exhaustive product construction,
(b) as the meaning of the uninterpreted predicate wf_utf8 in the VCs."""

REJECT = 'REJECT'
C = (0x80, 0xBF)

# first byte range -> ranges of the continuation bytes (Table 3-7)
TABLE_3_7 = [
    ((0x00, 0x7F), ()),
    ((0xC2, 0xDF), (C,)),
    ((0xE0, 0xE0), ((0xA0, 0xBF), C)),
    ((0xE1, 0xEC), (C, C)),
    ((0xED, 0xED), ((0x80, 0x9F), C)),
    ((0xEE, 0xEF), (C, C)),
    ((0xF0, 0xF0), ((0x90, 0xBF), C, C)),
    ((0xF1, 0xF3), (C, C, C)),
    ((0xF4, 0xF4), ((0x80, 0x8F), C, C)),
]
START = ()


def step(state, b):
    if state == REJECT:
        return REJECT
    if state == ():
        for (lo, hi), rest in TABLE_3_7:
            if lo <= b <= hi:
                return rest
        return REJECT
    (lo, hi), rest = state[0], state[1:]
    return rest if lo <= b <= hi else REJECT


def run(bs, state=START):
    for b in bs:
        state = step(state, b)
    return state


def well_formed(bs):
    return run(bs) == ()


def selftest():
    import itertools
    samples = [b'', b'a', 'é'.encode(), '€'.encode(), '\U0001f600'.encode(), b'\xc0\x80', b'\xed\xa0\x80',
               b'\xf4\x90\x80\x80', b'\xe2\x82', b'\xff', b'\xc2', b'\xf0\x8f\xbf\xbf', b'\xef\xbf\xbf', b'\xf4\x8f\xbf\xbf']
    for s in samples:
        try:
            s.decode('utf-8')
            ok = True
        except UnicodeDecodeError:
            ok = False
        assert well_formed(s) == ok, s
    # exhaustive up to length 2 and all 3-byte sequences with lead E0/ED/EF, against CPython's strict decoder
    for n in (1, 2):
        for t in itertools.product(range(256), repeat=n):
            s = bytes(t)
            try:
                s.decode('utf-8')
                ok = True
            except UnicodeDecodeError:
                ok = False
            assert well_formed(s) == ok, s
    return True
