"""Event-order monitor of C07, transcribed from the property statement:
Connecting first; then ConnectFail (and stop) or Connected; Ready at most once and only after
Connected; Text, Binary, Ping, Pong, Poll, Closing, Closed (and Unresponsive) only after Ready;
exactly one terminal event (ConnectFail or Disconnected), which is last."""
from z3 import And, Or, Not, If, IntVal, BoolVal

from lomond import events

PHASE = (0, 1, 2, 3, 4)          # Start, Connecting, Connected, Ready, Done
START, CONNECTING, CONNECTED, READY, DONE = PHASE

AFTER_READY = (events.Text, events.Binary, events.Ping, events.Pong, events.Poll, events.Closing, events.Closed,
               events.Unresponsive)
EVENT_CLASSES = (events.Connecting, events.ConnectFail, events.Connected, events.Rejected, events.Ready,
                 events.ProtocolError, events.Disconnected, events.BackOff, events.UnknownMessage) + AFTER_READY


def allowed_next(phase, cls):
    """(condition on the current phase under which `cls` may be yielded, next phase) or None if
    cls is not an event class at all"""
    if cls is None or cls not in EVENT_CLASSES:
        return None
    if cls is events.Connecting:
        return phase == START, IntVal(CONNECTING)
    if cls is events.ConnectFail:
        return phase == CONNECTING, IntVal(DONE)
    if cls is events.Connected:
        return phase == CONNECTING, IntVal(CONNECTED)
    if cls is events.Ready:
        return phase == CONNECTED, IntVal(READY)
    if cls is events.Rejected:
        return phase == CONNECTED, IntVal(CONNECTED)
    if cls is events.ProtocolError:
        return Or(phase == CONNECTED, phase == READY), phase
    if cls is events.Disconnected:
        return Or(phase == CONNECTED, phase == READY), IntVal(DONE)
    if cls in AFTER_READY:
        return phase == READY, phase
    return BoolVal(False), phase          # BackOff / UnknownMessage never come from a connection
