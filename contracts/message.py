"""Contracts for lomond.message and Deflate.decompress (C01, C04, C05, C06)."""
import z3
from z3 import And, Or, Not, If, Implies, IntVal, BoolVal, ForAll, Function, Select

from lomond import errors, message as M
from lomond.frame import Frame
from lomond.compression import Deflate

from pyvc.contracts import contract, Contract, T, mk, Raises, REG
from pyvc.loops import LoopSpec
from pyvc.engine import BoundMethod
from pyvc.sval import (SBytes, SStr, SList, Rec, ORef, MRef, ExtObj, fresh, iv, I, B, BYTES, BYTEARRAY, beq, bslice, cat)
from pyvc import sval, extworld
from contracts.utf8 import dfa_run, run_axioms
from contracts.compression import deflate_obj

REG.transparent(
    'lomond.message.Message.__init__', 'lomond.message.Binary.__init__', 'lomond.message.Text.__init__',
    'lomond.message.Close.__init__', 'lomond.message.Ping.__init__', 'lomond.message.Pong.__init__',
    'lomond.message.Message.is_text', 'lomond.message.Message.is_binary', 'lomond.message.Message.is_close',
    'lomond.message.Message.is_ping', 'lomond.message.Message.is_pong', 'lomond.message.Message.decompress_frames',
)


def wf_def(ip, b):
    """definition of the uninterpreted wf_utf8 (RFC 3629 well-formedness) through the automaton that
    the ground check proved bisimilar to the real table: wf(b) <=> run(ACCEPT, b) == ACCEPT"""
    arr = b.as_array()
    return sval.wf_utf8(arr, b.n) == (dfa_run(arr, IntVal(0), b.n) == 0)


def frame_list(ip, name='frames', minlen=1):
    """abstract list of received frames: length n >= minlen, element k is a record whose fields are
    functions of k"""
    n = fresh(name + '_n', I)
    ip.st.assume(n >= minlen)
    fs = {f: Function('%s_%s' % (name, f), I, I) for f in ('opcode', 'fin', 'rsv1', 'rsv2', 'rsv3', 'plen')}
    pay = Function(name + '_pay', I, I, I)
    k = fresh('fk')
    j = fresh('fj')
    ip.st.hyps.append(ForAll([k], And(fs['plen'](k) >= 0, fs['opcode'](k) >= 0, fs['opcode'](k) < 16), patterns=[fs['plen'](k)]))
    ip.st.hyps.append(ForAll([k, j], And(pay(k, j) >= 0, pay(k, j) < 256), patterns=[pay(k, j)]))

    def at(i):
        i = iv(i)
        return Rec(Frame, opcode=fs['opcode'](i), fin=fs['fin'](i), rsv1=fs['rsv1'](i), rsv2=fs['rsv2'](i), rsv3=fs['rsv3'](i),
                   mask=False, masking_key=None,
                   payload=SBytes(BYTEARRAY if False else BYTES, fs['plen'](i), lambda jj, i=i: pay(i, iv(jj))))
    lst = SList(n, at)
    return ip.st.alloc(lst, 'l'), lst


def view_frames(ip, lst):
    """list of frames -> list of frame records (objects in the list are read through)"""
    def at(i, lst=lst):
        x = lst.at(i)
        if isinstance(x, ORef):
            o = ip.st.obj(x)
            x = Rec(o.cls, **o.f)
        if isinstance(x, Rec) and isinstance(x.f.get('payload'), MRef):
            b = ip.bytes_of(x.f['payload'])
            x = Rec(x.cls, **dict(x.f, payload=SBytes(BYTES, b.n, b.at, b.arr)))
        return x
    return SList(lst.n, at, base=lst.base or lst)


def same_list(x, y):
    return (getattr(x, 'base', None) or x) is (getattr(y, 'base', None) or y)


def is_concat_of(ip, payload, frames):
    """payload is the in-order concatenation of the frames' payloads (structural: the value must
    come from b''.join over a list whose k-th element equals frames[k].payload)"""
    st = ip.st
    jid = (payload.meta or {}).get('join') if isinstance(payload, SBytes) else None
    if jid is None:
        n = frames.concrete_len()
        if n is not None and isinstance(payload, SBytes):
            return [('payload-is-concatenation-of-fragments', beq(payload, cat(BYTES, [frames.at(IntVal(k)).payload for k in range(n)])))]
        return [('payload-is-concatenation-of-fragments', BoolVal(False))]
    lst, res = st.ghost['joins'][jid]
    k = fresh('ck')
    j = fresh('cj')
    ek, fk = ip.bytes_of(lst.at(k)), frames.at(k).payload
    return [('joined-list-has-all-frames', lst.n == frames.n),
            ('payload-is-concatenation-of-fragments',
             ForAll([k], Implies(And(k >= 0, k < frames.n), ek.n == fk.n))),
            ('fragment-bytes-in-order',
             ForAll([k, j], Implies(And(k >= 0, k < frames.n, j >= 0, j < fk.n), ek.at(j) == fk.at(j))))]


@contract('lomond.message.Text.from_payload', serves=['C01', 'C04', 'C05'])
class TextFromPayload(Contract):
    """delivered iff the complete payload is well-formed UTF-8 (strict), as its exact decoding"""
    def setup(self, ip, v):
        return dict(cls=M.Text, payload=mk(ip, T.Bytes(BYTES), 'payload'))

    def requires(self, ip, a):
        return [('payload-is-bytes', BoolVal(isinstance(a.payload, SBytes) and a.payload.kind == BYTES))]

    def raises(self, ip, a, old):
        return [Raises(errors.CriticalProtocolError, when=Not(sval.wf_utf8(a.payload.as_array(), a.payload.n)), iff=True, modifies=[])]

    def result(self, ip, a, old):
        return mk(ip, T.Obj(M.Text, opcode=T.Const(1), text=T.Const(SStr(sval.dec_utf8(a.payload.as_array(), a.payload.n)))), 'text_msg')

    def ensures(self, ip, a, old, res):
        st = ip.st
        ok = isinstance(res, ORef) and st.obj(res).cls is M.Text and isinstance(st.obj(res).f.get('text'), SStr)
        out = [('returns-Text', BoolVal(ok))]
        if ok:
            out.append(('text-is-exact-decoding', st.get(res, 'text').t == sval.dec_utf8(a.payload.as_array(), a.payload.n)))
            out.append(('opcode-TEXT', iv(st.get(res, 'opcode')) == 1))
        return out


@contract('lomond.message.Close.from_payload', serves=['C01', 'C04', 'C05', 'C08'])
class CloseFromPayload(Contract):
    """RFC 6455 5.5.1/7.1.5/7.1.6: empty -> (None, ''); one byte -> ProtocolError; else code = first
    two bytes big-endian and reason = strict UTF-8 decoding of the rest, CriticalProtocolError if
    that is not well-formed"""
    def setup(self, ip, v):
        return dict(cls=M.Close, payload=mk(ip, T.Bytes(BYTES), 'payload'))

    def requires(self, ip, a):
        rb = bslice(a.payload, IntVal(2), None)
        return [('payload-is-bytes', BoolVal(isinstance(a.payload, SBytes) and a.payload.kind == BYTES))]

    def axioms(self, ip, a):
        ip.st.ghost.setdefault('assumed', set()).add('definition: wf_utf8(b) <=> the RFC 3629 automaton run over b from ACCEPT ends in ACCEPT')
        return [wf_def(ip, bslice(a.payload, IntVal(2), None))]

    def raises(self, ip, a, old):
        rb = bslice(a.payload, IntVal(2), None)
        return [Raises(errors.ProtocolError, 'one-byte-payload', when=a.payload.n == 1, iff=True, modifies=[]),
                Raises(errors.CriticalProtocolError, 'bad-utf8-reason',
                       when=And(a.payload.n >= 2, Not(sval.wf_utf8(rb.as_array(), rb.n))), iff=True, modifies=[])]

    def result(self, ip, a, old):
        st = ip.st
        rb = bslice(a.payload, IntVal(2), None)
        if st.decide(a.payload.n == 0, 'empty-close'):
            return mk(ip, T.Obj(M.Close, opcode=T.Const(8), code=T.Const(None), reason=T.Const(SStr.lit(''))), 'close_msg')
        code = a.payload.at(IntVal(0)) * 256 + a.payload.at(IntVal(1))
        st.assume(a.payload.at(IntVal(0)) >= 0, a.payload.at(IntVal(0)) < 256, a.payload.at(IntVal(1)) >= 0, a.payload.at(IntVal(1)) < 256)
        return mk(ip, T.Obj(M.Close, opcode=T.Const(8), code=T.Const(code),
                            reason=T.Const(SStr(sval.dec_utf8(rb.as_array(), rb.n)))), 'close_msg')

    def ensures(self, ip, a, old, res):
        st = ip.st
        ok = isinstance(res, ORef) and st.obj(res).cls is M.Close
        out = [('returns-Close', BoolVal(ok))]
        if not ok:
            return out
        code, reason = st.get(res, 'code'), st.get(res, 'reason')
        rb = bslice(a.payload, IntVal(2), None)
        if code is None:
            out.append(('no-code-only-for-empty-payload', a.payload.n == 0))
            out.append(('empty-reason', BoolVal(isinstance(reason, SStr) and reason.text == '')))
        else:
            out.append(('code-is-first-two-bytes-big-endian',
                        And(a.payload.n >= 2, iv(code) == a.payload.at(IntVal(0)) * 256 + a.payload.at(IntVal(1)))))
            out.append(('reason-is-exact-decoding', BoolVal(isinstance(reason, SStr)) if not isinstance(reason, SStr)
                        else reason.t == sval.dec_utf8(rb.as_array(), rb.n)))
        return out


@contract('lomond.compression.Deflate.decompress', serves=['C06'])
class Decompress(Contract):
    """the shared inflater is fed the frames' payloads in order, then 00 00 FF FF; the result is
    the concatenation of what it returned; the inflater is replaced iff server_no_context_takeover
    - or when it reached end-of-stream (BFINAL), so the next message is never inflated by a dead
    stream (from the property: a compressed message is correct or a ProtocolError, never wrong)"""
    def setup(self, ip, v):
        ref, zc, zd = deflate_obj(ip)
        lref, lst = frame_list(ip)
        ip.st.ghost['frames_spec'] = lst
        return dict(self=ref, frames=lref)

    def modifies(self, ip, a):
        return [('heap', a.self, '_decompressobj', T.Ext('zdecompress'))]

    def raises(self, ip, a, old):
        return [Raises(Exception, 'zlib-error', when=None, modifies=None)]

    def result(self, ip, a, old):
        st = ip.st
        out = mk(ip, T.Bytes(BYTES), 'inflated')
        out.meta = dict(inflate_of=st.mem[a.frames.ident] if isinstance(a.frames, MRef) else a.frames)
        z = st.get(a.self, '_decompressobj')
        st.ghost[z.key] = dict(wbits=iv(st.get(a.self, 'decompress_wbits')), eof=BoolVal(False))
        return out

    def ensures(self, ip, a, old, res):
        st = ip.st
        z0 = old.get(a.self, '_decompressobj')
        frames = view_frames(ip, st.mem[a.frames.ident]) if isinstance(a.frames, MRef) else a.frames
        log = extworld.zlog(st, z0)[len(old.ghost.get(('zlog', z0.key), [])):]
        out = [('result-is-immutable-bytes', BoolVal(isinstance(res, SBytes) and res.kind == BYTES))]
        # the list comprehension over `frames` is logged once, at a generic index k
        shape = len(log) == 2 and log[0][3] is not None and log[1][3] is None and log[1][1].concrete_len() == 4
        if ip.reading == 'body':
            out.append(('inflater-fed-once-per-frame-then-the-4-byte-tail', BoolVal(shape)))
        if ip.reading == 'body' and shape:
            lst, k = log[0][3]
            out.append(('every-frame-in-order', BoolVal(same_list(lst, frames))))
            out.append(('inflater-input-is-the-frame-payload', beq(log[0][1], frames.at(k).payload)))
            t = log[1][1]
            out.append(('tail-is-00-00-ff-ff', And(t.at(IntVal(0)) == 0, t.at(IntVal(1)) == 0, t.at(IntVal(2)) == 255, t.at(IntVal(3)) == 255)))
            out.append(('result-is-the-concatenation-of-inflater-output', BoolVal(isinstance(res, SBytes) and bool((res.meta or {}).get('join')))))
        z1 = st.get(a.self, '_decompressobj')
        same = isinstance(z1, ExtObj) and z1 == z0
        rd = old.get(a.self, 'reset_decompress')
        eof = st.ghost[z0.key]['eof']
        if ip.reading == 'body':
            out.append(('fresh-inflater-iff-no-takeover-or-end-of-stream', BoolVal(not same) == Or(rd, eof), ('C06',)))
        return out


def msg_payload(st, ref):
    o = st.obj(ref)
    for f in ('data', 'text', 'reason'):
        if f in o.f:
            return o.f[f]
    return None


@contract('lomond.message.Message.build', serves=['C01', 'C04', 'C05', 'C06', 'C08', 'C14'])
class MessageBuild(Contract):
    """one message per frame list: the class is chosen by the FIRST frame's opcode; unless that
    frame has RSV1 and a decompressor is installed, the payload is the in-order concatenation of
    the fragments (empty fragments included) as immutable bytes; with RSV1 + decompressor the
    payload is what the inflater returned for exactly these frames, or CriticalProtocolError -
    never silently something else (C06); Text / Close go through their strict decoders"""
    def variants(self):
        return ['plain', 'decompress']

    def setup(self, ip, v):
        lref, lst = frame_list(ip)
        ip.st.ghost['frames_spec'] = lst
        d = None
        if v == 'decompress':
            ref, zc, zd = deflate_obj(ip)
            d = BoundMethod(ref, Deflate.decompress, 'decompress')
        return dict(cls=M.Message, frames=lref, decompress=d)

    def requires(self, ip, a):
        frames = view_frames(ip, ip.st.mem[a.frames.ident])
        return [('at-least-one-frame', frames.n >= 1)]

    def modifies(self, ip, a):
        if a.decompress is not None:
            return [('heap', a.decompress.recv, '_decompressobj', T.Ext('zdecompress'))]
        return []

    def raises(self, ip, a, old):
        return [Raises(errors.CriticalProtocolError, 'undecodable-or-uninflatable', when=None, modifies=None),
                Raises(errors.ProtocolError, 'one-byte-close-payload', when=None, modifies=None)]

    def result(self, ip, a, old):
        """call-site reading: the message the caller gets, as a function of the frames"""
        st = ip.st
        frames = view_frames(ip, st.mem[a.frames.ident])
        f0 = frames.at(IntVal(0))
        use_inflate = And(iv(f0.rsv1) != 0, BoolVal(a.decompress is not None))
        if st.decide(use_inflate, 'inflate'):
            payload = mk(ip, T.Bytes(BYTES), 'inflated_payload')
            payload.meta = dict(inflate_of=frames)
        else:
            n = frames.concrete_len()
            if n is not None:
                c = cat(BYTES, [ip.bytes_of(frames.at(IntVal(k)).payload) for k in range(n)])
                payload = SBytes(BYTES, c.n, c.at, meta=dict(concat_of=frames))
            else:
                from pyvc.externals import join_bytes
                lst = SList(frames.n, lambda i: SBytes(BYTES, ip.bytes_of(frames.at(i).payload).n, ip.bytes_of(frames.at(i).payload).at))
                payload = join_bytes(ip, lst)
                payload.meta = dict(payload.meta or {}, concat_of=frames)
        st.assume(payload.n >= 0)
        op = iv(f0.opcode)
        if st.decide(op == 2, 'binary'):
            return mk(ip, T.Obj(M.Binary, opcode=T.Const(2), data=T.Const(payload)), 'msg')
        if st.decide(op == 1, 'text'):
            st.assume(sval.wf_utf8(payload.as_array(), payload.n))
            return mk(ip, T.Obj(M.Text, opcode=T.Const(1), text=T.Const(SStr(sval.dec_utf8(payload.as_array(), payload.n)))), 'msg')
        if st.decide(op == 8, 'close'):
            st.assume(payload.n != 1)
            if st.decide(payload.n == 0, 'empty-close'):
                return mk(ip, T.Obj(M.Close, opcode=T.Const(8), code=T.Const(None), reason=T.Const(SStr.lit(''))), 'msg')
            code = payload.at(IntVal(0)) * 256 + payload.at(IntVal(1))
            st.assume(payload.at(IntVal(0)) >= 0, payload.at(IntVal(0)) < 256, payload.at(IntVal(1)) >= 0, payload.at(IntVal(1)) < 256)
            rb = bslice(payload, IntVal(2), None)
            st.assume(sval.wf_utf8(rb.as_array(), rb.n))
            reason = SStr(sval.dec_utf8(rb.as_array(), rb.n))
            # str.encode is the inverse of bytes.decode (assumed contract, DESIGN 4 C)
            st.ghost.setdefault('assumed', set()).add("str.encode('utf-8') is the inverse of bytes.decode('utf-8')")
            st.assume(sval.utf8_len(reason.t) == rb.n)
            return mk(ip, T.Obj(M.Close, opcode=T.Const(8), code=T.Const(code), reason=T.Const(reason)), 'msg')
        if st.decide(op == 9, 'ping'):
            return mk(ip, T.Obj(M.Ping, opcode=T.Const(9), data=T.Const(payload)), 'msg')
        if st.decide(op == 10, 'pong'):
            return mk(ip, T.Obj(M.Pong, opcode=T.Const(10), data=T.Const(payload)), 'msg')
        return mk(ip, T.Obj(M.Message, opcode=T.Const(op)), 'msg')

    def ensures(self, ip, a, old, res):
        st = ip.st
        frames = view_frames(ip, st.mem[a.frames.ident])
        f0 = frames.at(IntVal(0))
        ok = isinstance(res, ORef) and issubclass(st.obj(res).cls, M.Message)
        out = [('returns-a-Message', BoolVal(ok))]
        if not ok:
            return out
        cls = st.obj(res).cls
        want = {M.Binary: 2, M.Text: 1, M.Close: 8, M.Ping: 9, M.Pong: 10}
        if cls in want:
            out.append(('class-by-first-frame-opcode', f0.opcode == want[cls], ('C01', 'C08', 'C14')))
        else:
            out.append(('class-by-first-frame-opcode', And(*[f0.opcode != k for k in want.values()]), ('C01', 'C08', 'C14')))
        out.append(('message-opcode', iv(st.get(res, 'opcode')) == f0.opcode))
        # which payload went into the typed constructor?
        src = st.ghost.get('typed_payload_src')
        inflated = st.ghost.get('inflate_calls', [])[len(old.ghost.get('inflate_calls', [])):]
        use_inflate = And(f0.rsv1 != 0, BoolVal(a.decompress is not None))
        if cls in (M.Binary, M.Ping, M.Pong):
            p = st.get(res, 'data')
            out.append(('payload-is-immutable-bytes', BoolVal(isinstance(p, SBytes) and p.kind == BYTES), ('C01', 'C08', 'C14')))
            if isinstance(p, SBytes):
                if (p.meta or {}).get('inflate_of') is not None:
                    out.append(('inflated-only-when-first-frame-has-RSV1-and-decompressor', use_inflate, ('C06',)))
                    out.append(('inflater-was-given-exactly-these-frames', BoolVal(same_list(p.meta['inflate_of'], frames)), ('C06',)))
                else:
                    out.append(('not-inflated-only-without-RSV1-or-decompressor', Not(use_inflate), ('C06',)))
                    out += [(n, f, ('C01', 'C08', 'C14')) for n, f in is_concat_of(ip, p, frames)]
        return out
