"""WebsocketStream.feed body (C01, C02, C04, C07): frames -> messages (RFC 6455 5.4).  The
interface class StreamFeed lives in contracts/websocket_gen.py; here its body-side parts."""
import z3
from z3 import And, Or, Not, If, Implies, IntVal, BoolVal, ForAll, Function

from lomond import errors, message as M
from lomond.stream import WebsocketStream
from lomond.frame import Frame, CompressedFrame
from lomond.frame_parser import ClientFrameParser
from lomond.response import Response
from lomond.compression import Deflate

from pyvc.contracts import contract, Contract, ProducerContract, YieldSpec, T, mk, Raises, REG
from pyvc.loops import LoopSpec
from pyvc.engine import BoundMethod
from pyvc.sval import SBytes, SStr, SList, ORef, MRef, Rec, fresh, iv, BYTES, BYTEARRAY, B, I
from contracts.websocket_gen import StreamFeed, hs, message_guarantee, response_obj
from contracts.parser import hp
from contracts.message import frame_list
from contracts.compression import deflate_obj
from contracts.frame_parser import parser_obj

REG.transparent('lomond.stream.WebsocketStream.build_message')


@contract('lomond.response.Response.__init__', serves=[], external=True)
class ResponseInit(Contract):
    """ASSUMED here (string code; bounded stand-in): parses the header block"""
    def modifies(self, ip, a):
        return []

    def result(self, ip, a, old):
        st = ip.st
        f = st.heap[a.self.oid].f
        f['raw'] = a.header_data
        f['_rid'] = fresh('resp_id', I)
        f['status_code'] = mk(ip, T.Opt(T.Int), 'status_code')
        f['status'] = mk(ip, T.Str, 'status')
        f['http_ver'] = mk(ip, T.Str, 'http_ver')
        f['headers'] = None
        return None


def pending_inv(ip, frames):
    """RFC 6455 5.4: the frames collected so far are the unfinished head of ONE data message: the
    first is TEXT or BINARY, the others continuations, none has FIN"""
    if frames.concrete_len() == 0:
        return [('pending-empty', BoolVal(True))]
    k = fresh('pk')
    fk = frames.at(k)
    f0 = frames.at(IntVal(0))
    return [('pending-fragments-have-no-FIN', ForAll([k], Implies(And(k >= 0, k < frames.n), iv(fk.fin) == 0))),
            ('pending-head-is-TEXT-or-BINARY', Implies(frames.n > 0, Or(iv(f0.opcode) == 1, iv(f0.opcode) == 2))),
            ('pending-rest-are-continuations', ForAll([k], Implies(And(k >= 1, k < frames.n), iv(fk.opcode) == 0)))]


def _setup(self, ip, v):
    st = ip.st
    comp = v.endswith('compressed')
    parser, val = parser_obj(ip, ClientFrameParser, CompressedFrame if comp else Frame)
    st.heap[parser.oid].f['parse_headers'] = True       # ClientFrameParser() as built by WebsocketStream.__init__
    lref, lst = frame_list(ip, 'pending', minlen=0)
    dec = None
    if comp:
        ref, zc, zd = deflate_obj(ip)
        dec = BoundMethod(ref, Deflate.decompress, 'decompress')
    stream = mk(ip, T.Obj(WebsocketStream, frame_parser=T.Const(parser), _parsed_response=T.Bool, _frames=T.Const(lref),
                          _decompress=T.Const(dec)), 'stream')
    hs(st), hp(st)
    st.ghost['stream'] = stream
    return dict(self=stream, data=mk(ip, T.Bytes(BYTES), 'data'))


def _requires(self, ip, a):
    st = ip.st
    frames = st.mem[st.get(a.self, '_frames').ident]
    pr = st.get(a.self, '_parsed_response')
    return [('response-handed-on-iff-header-parsed', And(hs(st) == pr, hp(st) == pr))] + [(n, f) for n, f in pending_inv(ip, frames)]


def _at_yield(self, ip, k, v, node):
    st = ip.st
    a = ip.args
    if k == 0:
        st.oblige('yield0(Response):only-once-and-first', Not(hs(st)), tags=('C07', 'C10'))
        st.oblige('yield0(Response):is-Response', BoolVal(isinstance(v, ORef) and st.obj(v).cls is Response), tags=('C07',))
        st.ghost['hs'] = BoolVal(True)
    else:
        st.oblige('yield%d(Message):only-after-the-response' % k, hs(st), tags=('C07',))
        for item in message_guarantee(ip, v):
            st.oblige('yield%d(Message):%s' % (k, item[0]), item[1], tags=item[2] if len(item) > 2 else ('C01', 'C04', 'C08', 'C14'))
        for item in _step_at_yield(ip, k):
            st.oblige('yield%d(Message):%s' % (k, item[0]), item[1], tags=('C01', 'C04', 'C05', 'C14', 'C08'))
    st.ghost.setdefault('yield_trace', []).append((k, 'Response' if k == 0 else 'Message'))
    from pyvc.engine import PyRaise
    from pyvc.sval import ExcVal
    if st.choose(['resume', 'close'], 'yield%d' % k) == 'close':
        st.ghost['closing_at'] = (k, None, v, st.snapshot())
        raise PyRaise(ExcVal(GeneratorExit, tag='closed-at-yield%d' % k))
    if k == 0:
        # the upgrade reply is processed while suspended here: compression may get enabled
        pass
    return None


# ---- RFC 6455 5.4 as a STEP of the reassembly machine (state = the pending fragments): one iteration of the loop, started
# with pending == L and given the next frame f, must
#   control f           : hand on build_message([f]) and leave pending == L
#   data f without FIN  : hand on nothing and leave pending == L ++ [f]      (also when f is EMPTY: an empty first fragment
#                         still opens the message and fixes its type)
#   data f with FIN     : hand on build_message(L ++ [f]) and leave pending == []
def _cur_frame(ip):
    import ast
    from pyvc import source
    from pyvc.engine import Unsupported
    node, _ms = source.node_of(WebsocketStream.feed)
    names = [n.targets[0].id for w in ast.walk(node) if isinstance(w, ast.While) for n in ast.walk(w)
             if isinstance(n, ast.Assign) and len(n.targets) == 1 and isinstance(n.targets[0], ast.Name) and 'next(' in ast.unparse(n.value)]
    if len(set(names)) != 1:
        raise Unsupported('WebsocketStream.feed: cannot identify the frame variable of the reassembly loop')
    f = ip.env.vars.get(names[0])
    if isinstance(f, ORef):
        o = ip.st.obj(f)
        return Rec(o.cls, **o.f)
    return f


def _fields_eq(ip, x, y):
    xb, yb = ip.bytes_of(x.payload), ip.bytes_of(y.payload)
    j = fresh('sj')
    return And(iv(x.opcode) == iv(y.opcode), iv(x.fin) == iv(y.fin), iv(x.rsv1) == iv(y.rsv1), xb.n == yb.n,
               ForAll([j], Implies(And(j >= 0, j < xb.n), xb.at(j) == yb.at(j))))


def _is_L_plus(ip, cur, L, f, plus):
    k = fresh('sk')
    if cur.concrete_len() == 0:
        return [('pending-length', IntVal(0) == (L.n + 1 if plus else L.n))]
    out = [('pending-length', cur.n == (L.n + 1 if plus else L.n)),
           ('pending-prefix-unchanged', ForAll([k], Implies(And(k >= 0, k < L.n), _fields_eq(ip, cur.at(k), L.at(k)))))]
    if plus:
        out.append(('pending-last-is-this-frame', _fields_eq(ip, cur.at(L.n), f)))
    return out


def _step_at_yield(ip, k):
    st = ip.st
    L, f = st.ghost.get('pending_cut'), _cur_frame(ip)
    if L is None or not isinstance(f, Rec):
        return [('step:frame-and-pending-identifiable[%r,%r]' % (type(L).__name__, f), BoolVal(False))]
    from contracts.message import view_frames
    lref = st.get(ip.args.self, '_frames')
    cur = view_frames(ip, st.mem[lref.ident])
    calls = [a for q, a in st.ghost.get('calls', []) if q.endswith('Message.build')]
    if not calls:
        return [('step:message-built-by-Message.build', BoolVal(False))]
    arg = calls[-1].frames
    st.ghost['step_yields'] = st.ghost.get('step_yields', 0) + 1
    control = iv(f.opcode) >= 8
    if not (isinstance(arg, MRef) and arg.ident == lref.ident):      # built from something else than the pending list: the control path
        one = view_frames(ip, st.mem[arg.ident]) if isinstance(arg, MRef) else None
        return [('step:control-frame-handed-on-alone', BoolVal(one is not None and arg.ident != lref.ident and one.concrete_len() == 1)
                 if one is None or one.concrete_len() != 1 else _fields_eq(ip, one.at(IntVal(0)), f)),
                ('step:only-control-frames-take-this-path', control)] + \
               [('step:control-frame-leaves-pending-untouched:' + n, g) for n, g in _is_L_plus(ip, cur, L, f, False)]
    return [('step:only-a-final-data-frame-completes-a-message', And(Not(control), iv(f.fin) != 0))] + \
           [('step:message-built-from-all-fragments-in-order:' + n, g) for n, g in _is_L_plus(ip, cur, L, f, True)]


def _step_checks(ip, when):
    if when != 'preserved':
        return []
    st = ip.st
    L, f = st.ghost.get('pending_cut'), _cur_frame(ip)
    if L is None or not isinstance(f, Rec):
        return [('step:frame-and-pending-identifiable', BoolVal(False), ('C01', 'C04'))]
    from contracts.message import view_frames
    cur = view_frames(ip, st.mem[st.get(ip.args.self, '_frames').ident])
    tags = ('C01', 'C04', 'C05', 'C14', 'C08')
    control, fin = iv(f.opcode) >= 8, iv(f.fin) != 0
    ny = st.ghost.get('step_yields', 0)
    out = [('step:exactly-one-message-per-control-or-final-frame-and-none-otherwise', If(Or(control, fin), ny == 1, ny == 0), tags)]
    for n, g in _is_L_plus(ip, cur, L, f, True):
        out.append(('step:non-final-data-frame-joins-the-pending-message(even when empty):' + n, Implies(And(Not(control), Not(fin)), g), tags))
    for n, g in _is_L_plus(ip, cur, L, f, False):
        out.append(('step:control-frame-leaves-pending-untouched:' + n, Implies(control, g), tags))
    out.append(('step:pending-empty-after-a-final-data-frame', Implies(And(Not(control), fin), cur.n == 0), tags))
    return out


def _check_exit(self, ip, a, old, kind, res):
    st = ip.st
    if st.ghost.get('closing_at') is not None:
        return
    if kind == 'return':
        frames = st.mem[st.get(a.self, '_frames').ident]
        pr = st.get(a.self, '_parsed_response')
        pr = BoolVal(pr) if isinstance(pr, bool) else pr
        st.oblige('exhausted:response-handed-on-iff-header-parsed', And(hs(st) == pr, hp(st) == pr), tags=('C07',))
        for n, f in pending_inv(ip, frames):
            st.oblige('exhausted:' + n, f, tags=('C01', 'C04', 'C08', 'C14'))
        return
    exc = res
    ok = exc.cls is not None and (issubclass(exc.cls, errors.ProtocolError) or issubclass(exc.cls, errors.CriticalProtocolError))
    st.oblige('raises-only-ProtocolError-or-CriticalProtocolError:%s%s' % (exc.cls.__name__ if exc.cls else 'unknown-' + exc.base.__name__,
                                                                          ('[' + exc.tag + ']') if exc.tag else ''), BoolVal(ok), tags=('C04',))


def _loop(self, k):
    if k != 0:
        return None

    def inv(ip):
        st = ip.st
        a = ip.args
        frames = st.mem[st.get(a.self, '_frames').ident]
        pr = st.get(a.self, '_parsed_response')
        pr = BoolVal(pr) if isinstance(pr, bool) else pr
        return [('response-parsed', pr), ('response-handed-on', hs(st)), ('header-parsed', hp(st))] + \
            [(n, f, ('C01', 'C04', 'C08', 'C14')) for n, f in pending_inv(ip, frames)]

    def mods(ip):
        st = ip.st
        a = ip.args
        lref = st.get(a.self, '_frames')
        cnt = [0]

        def at(i):
            return st.ghost['pending_at'](i)

        def maker(ip):
            lr, lst = frame_list(ip, 'pend%s' % ip.st.fresh_id('p'), minlen=0)
            ip.st.ghost['pending_at'] = lst.at
            ip.st.ghost['step_yields'] = 0
            return True
        locs = [('ghost', 'pending_maker', maker), ('mem', lref, at),
                ('ghost', 'pending_cut', lambda ip: ip.st.mem[lref.ident])]     # the pending list as this iteration finds it
        dec = st.get(a.self, '_decompress')
        if dec is not None:
            locs.append(('heap', dec.recv, '_decompressobj', T.Ext('zdecompress')))
        return locs
    return LoopSpec(inv=inv, modifies=mods, locals={'frame': T.Const(None)}, checks=_step_checks)


StreamFeed.variants = lambda self: ['plain', 'compressed']
StreamFeed.setup = _setup
StreamFeed.requires = _requires
StreamFeed.at_yield = _at_yield
StreamFeed.check_exit = _check_exit
StreamFeed.loop = _loop
StreamFeed.external = False
StreamFeed.serves = ('C01', 'C02', 'C04', 'C05', 'C07', 'C08', 'C14')
StreamFeed.start_requires = lambda self, ip, a: []
