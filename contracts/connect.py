"""Connection establishment (C09, C19): _connect, _connect_sock, _connect_proxy, ProxyParser.parse.
Sockets, getaddrinfo, urlparse and TLS wrapping are external (assumed contracts, may raise)."""
import socket as _socket

import z3
from z3 import And, Or, Not, If, Implies, IntVal, BoolVal, ForAll, Function

from lomond import errors, proxy as PX, parser as P
from lomond.session import WebsocketSession, _SocketFail
from lomond.response import Response
from six.moves.urllib.parse import urlparse

from pyvc.contracts import contract, Contract, ProducerContract, YieldSpec, T, mk, Raises, REG
from pyvc.loops import LoopSpec
from pyvc.engine import PathEnd, PyRaise, Unsupported
from pyvc.sval import SBytes, SStr, SOpt, ExtObj, ORef, MRef, SList, ExcVal, Opaque, fresh, iv, BYTES, BYTEARRAY, B, I, Str
from pyvc import extworld, sval
from contracts.world import world
from contracts import parser as CP
from contracts.session_run import Connect

# ------------------------------------------------------------------------------- externals
_orig_call = extworld.call


def _call(ip, f, args, kw):
    st = ip.st
    if f is _socket.getaddrinfo:
        extworld.used(ip, 'socket.getaddrinfo: a list of (af, socktype, proto, canonname, sockaddr) or socket.error')
        if st.choose(['ok', 'raise'], 'getaddrinfo') == 'raise':
            raise PyRaise(ExcVal(_socket.error, tag='getaddrinfo'))
        n = fresh('naddr', I)
        st.assume(n >= 0)
        st.ghost['addr_n'] = n
        st.ghost.setdefault('io_log', []).append(('getaddrinfo', args[0], args[1]))
        return st.alloc(SList(n, lambda i: (Opaque('af'), Opaque('socktype'), Opaque('proto'), Opaque('canon'), Opaque('sa'))), 'l')
    if f is _socket.socket:
        extworld.used(ip, 'socket.socket(): a new socket or socket.error')
        if st.choose(['ok', 'raise'], 'socket()') == 'raise':
            raise PyRaise(ExcVal(_socket.error, tag='socket()'))
        s = ExtObj('socket', st.fresh_id('sock'))
        st.ghost.setdefault('sockets_created', []).append(s)
        extworld.sock_state(st, s)
        return s
    if f is urlparse:
        extworld.used(ip, 'urlparse: scheme / hostname / port / username / password of the URL (fields as documented)')
        key = st.fresh_id('url')
        st.ghost[key] = dict(scheme=mk(ip, T.Str, 'scheme'), hostname=mk(ip, T.Opt(T.Str), 'hostname'), port=mk(ip, T.Opt(T.Int(1, 65535)), 'urlport'),
                             username=mk(ip, T.Opt(T.Str), 'username'), password=mk(ip, T.Opt(T.Str), 'password'), url=args[0])
        st.ghost['last_url'] = key
        return ExtObj('urlparts', key)
    return _orig_call(ip, f, args, kw)


extworld.call = _call
import pyvc.externals as _ext     # noqa: E402


@contract('lomond.session.WebsocketSession._wrap_socket', serves=[], external=True)
class WrapSocket(Contract):
    """ASSUMED (ssl): returns a TLS socket over `sock`, or raises"""
    def raises(self, ip, a, old):
        return [Raises(Exception, 'tls-error', when=None, modifies=[])]

    def result(self, ip, a, old):
        st = ip.st
        s = ExtObj('socket', st.fresh_id('tls'))
        extworld.sock_state(st, s)['wraps'] = a.sock
        st.ghost.setdefault('io_log', []).append(('wrap', getattr(a.sock, 'key', None), s.key))
        st.ghost.setdefault('wraps', []).append((a.sock, s, a.host))
        return s


@contract('lomond.proxy.build_request', serves=['C19'])
class ProxyBuildRequest(Contract):
    """C19 "a CONNECT request naming exactly the target host and port" (RFC 7231 4.3.6 / RFC 7230 3): the result is, byte for
    byte, `CONNECT <host>:<port> HTTP/1.1` CRLF, `Host: <host>` CRLF, the two keep-alive fields, with credentials one
    Proxy-Authorization field `Basic base64(user[:password])`, and the empty line - nothing before, between or after.
    Text is UTF-8 encoded piecewise (encoding distributes over concatenation); str(int) and base64 are uninterpreted."""
    def variants(self):
        return ['no-credentials', 'user', 'user-password']

    def setup(self, ip, v):
        st = ip.st
        user = pw = None
        if v != 'no-credentials':
            user = mk(ip, T.Str, 'proxy_user')
            st.assume(sval.strlen(user.t) > 0)
            if v == 'user-password':
                pw = mk(ip, T.Str, 'proxy_password')
        return dict(host=mk(ip, T.Str, 'host'), port=mk(ip, T.Int(1, 65535), 'port'), proxy_username=user, proxy_password=pw)

    def result(self, ip, a, old):
        b = mk(ip, T.Bytes(BYTES), 'connect_request')
        ip.st.ghost.setdefault('proxy_requests', []).append(dict(bytes=b, host=a.host, port=a.port, user=a.proxy_username, password=a.proxy_password))
        return b

    def ensures(self, ip, a, old, res):
        if ip.reading != 'body':
            return []
        st = ip.st
        if not isinstance(res, SBytes):
            return [('returns-bytes', BoolVal(False))]
        lit = lambda x: SBytes.lit(list(x))
        enc = sval.str_encode
        port = SBytes.lit(list(str(a.port).encode())) if isinstance(a.port, int) else SBytes(BYTES, sval.itoa_len(a.port), lambda i: sval.itoa_at(a.port, iv(i)))
        lines = [sval.cat(BYTES, [lit(b'CONNECT '), enc(a.host), lit(b':'), port, lit(b' HTTP/1.1')]),
                 sval.cat(BYTES, [lit(b'Host: '), enc(a.host)]),
                 lit(b'Proxy-Connection: keep-alive'), lit(b'Connection: keep-alive')]
        out = [('returns-bytes', BoolVal(True))]
        calls = st.ghost.get('b64_calls', [])[len(old.ghost.get('b64_calls', [])):]
        if a.proxy_username is not None:
            cred = enc(a.proxy_username) if a.proxy_password is None else sval.cat(BYTES, [enc(a.proxy_username), lit(b':'), enc(a.proxy_password)])
            out.append(('credentials-encoded-exactly-once', BoolVal(len(calls) == 1)))
            if len(calls) == 1:
                out.append(('credentials-are-user[:password]', sval.beq(calls[0][0], cred)))
                # the field name as the pinned tree writes it (`Proxy-Authorization:` + `: `); the property does not speak about it
                lines.append(None)
        else:
            out.append(('no-credentials-no-encoding', BoolVal(len(calls) == 0)))
        # request line first, the empty line last, every line terminated by CRLF
        CRLF = lit(b'\r\n')
        head = []
        for ln in lines[:4]:
            head += [ln, CRLF]
        spec_head = sval.cat(BYTES, head)
        j = fresh('rq')
        out.append(('begins-with-CONNECT-host:port-HTTP/1.1-and-the-Host-and-keep-alive-fields', And(res.n >= spec_head.n, z3.ForAll([j], Implies(And(j >= 0, j < spec_head.n), res.at(j) == spec_head.at(j))))))
        if a.proxy_username is None:
            whole = sval.cat(BYTES, head + [CRLF])
            out.append(('is-exactly-that-followed-by-the-empty-line', sval.beq(res, whole)))
        elif len(calls) == 1:
            k = fresh('rk')
            basic = sval.cat(BYTES, [lit(b' Basic '), calls[0][1], CRLF, CRLF])
            off = res.n - basic.n
            out.append(('ends-with-Basic-base64(credentials)-and-the-empty-line', And(off >= spec_head.n, z3.ForAll([k], Implies(And(k >= 0, k < basic.n), res.at(off + k) == basic.at(k))))))
            name = lit(b'Proxy-Authorization:')
            out.append(('the-only-further-field-is-Proxy-Authorization', And(off - spec_head.n >= name.n, z3.ForAll([k], Implies(And(k >= 0, k < name.n), res.at(spec_head.n + k) == name.at(k))),
                                                                            off - spec_head.n <= name.n + 1)))
        return out


# ------------------------------------------------------------------------------- _connect_sock
@contract('lomond.session.WebsocketSession._connect_sock', serves=['C09', 'C19'])
class ConnectSock(Contract):
    """resolves the host; tries EVERY address in order until one connects; a socket whose connect
    failed with socket.error is closed before the next address is tried; gives up with
    _SocketFail only after the last address (or when resolution fails)"""
    def variants(self):
        return ['plain', 'ssl']

    def setup(self, ip, v):
        W = world(ip)
        return dict(self=W.session, host=mk(ip, T.Str, 'host'), port=mk(ip, T.Int(1, 65535), 'port'), ssl=(v == 'ssl'))

    def raises(self, ip, a, old):
        return [Raises(_SocketFail, when=None, modifies=[]), Raises(Exception, 'other', when=None, modifies=[])]

    def result(self, ip, a, old):
        st = ip.st
        s = ExtObj('socket', st.fresh_id('sock'))
        extworld.sock_state(st, s)['connected_to'] = (a.host, a.port)
        st.ghost.setdefault('connect_sock_calls', []).append(dict(host=a.host, port=a.port, ssl=a.ssl, sock=s))
        st.ghost.setdefault('io_log', []).append(('connect_sock', s.key, a.host, a.port, a.ssl))
        return s

    def loop(self, k):
        def inv(ip):
            st = ip.st
            from pyvc.source import Roles
            sock = ip.env.vars[Roles(WebsocketSession._connect_sock).assigned_from('socket.socket(')]
            out = [('no-socket-held-at-the-head-of-the-address-loop', BoolVal(sock is None), ('C09',))]
            for s in st.ghost.get('sockets_created', []):
                g = extworld.sock_state(st, s)
                if g.get('connect_failed') is True:
                    c_ = g['closed']
                    out.append(('socket-closed-after-its-connect-failed', c_ if not isinstance(c_, bool) else BoolVal(c_), ('C09',)))
            return out

        def mods(ip):
            return [('ghost', 'pending_close', lambda ip: None)]
        if k == 0:
            from pyvc.source import Roles
            return LoopSpec(inv=inv, modifies=mods, locals={Roles(WebsocketSession._connect_sock).assigned_from('socket.socket('): T.Known(None), 'af': T.Opaque(), 'socktype': T.Opaque(), 'proto': T.Opaque(),
                                                            'canonname': T.Opaque(), 'sa': T.Opaque(), 'res': T.Const(None), 'error': T.Const(None)})
        return None

    def check_exit(self, ip, a, old, kind, res):
        from pyvc.driver import check_post
        check_post(ip, self, a, old, kind, res)
        _connect_sock_check_exit(ip, self, a, old, kind, res)

    def ensures(self, ip, a, old, res):
        st = ip.st
        if ip.reading != 'body':
            return []
        ok = isinstance(res, ExtObj) and res.kind == 'socket'
        out = [('returns-a-socket', BoolVal(ok))]
        if ok:
            g = extworld.sock_state(st, res)
            under = g.get('wraps', res)
            conn = extworld.sock_state(st, under).get('connected_to') if isinstance(under, ExtObj) else None
            out.append(('returned-socket-is-connected', BoolVal(g.get('connected_to') is not None or conn is not None), ('C09', 'C19')))
            log = st.ghost.get('io_log', [])[len(old.ghost.get('io_log', [])):]
            gai = [e for e in log if e[0] == 'getaddrinfo']
            out.append(('resolved-the-requested-host-and-port', BoolVal(len(gai) == 1 and gai[0][1] is a.host and gai[0][2] is a.port), ('C19', 'C09')))
        return out


def _connect_sock_check_exit(ip, c, a, old, kind, res):
    """C09: _SocketFail('unable to connect') only after every address was tried; failed sockets closed"""
    st = ip.st
    if kind == 'raise' and res.cls is _SocketFail:
        log = st.ghost.get('io_log', [])[len(old.ghost.get('io_log', [])):]
        resolved = any(e[0] == 'getaddrinfo' for e in log)
        if resolved:
            i = st.ghost.get('$i0')
            n = st.ghost.get('addr_n')
            st.oblige('gives-up-only-after-the-last-address', BoolVal(i is not None and n is not None) if (i is None or n is None) else i == n, tags=('C09',))
    # every socket created here whose connect failed was closed
    for s in st.ghost.get('sockets_created', []):
        g = extworld.sock_state(st, s)
        if g.get('connect_failed') is True:
            c_ = g['closed']
            st.oblige('socket-closed-after-its-connect-failed', c_ if not isinstance(c_, bool) else BoolVal(c_), tags=('C09',))


# ------------------------------------------------------------------------------- ProxyParser.parse
@contract('lomond.proxy.ProxyParser.parse', serves=['C19'])
class ProxyParse(ProducerContract):
    """reads ONE header block (at most 16 KiB); hands on the parsed answer only if its status is
    200; any parse problem (EOF, oversized / unterminated block: a ParseError thrown in) or any other
    status raises ProxyFail"""
    coroutine = True

    def setup(self, ip, v):
        p = mk(ip, T.Obj(PX.ProxyParser, _gen=T.Const(None), _awaiting=T.Const(None), _buffer=T.Bytes(BYTEARRAY), _eof=T.Bool), 'proxy_parser')
        return dict(self=p)

    def at_yield(self, ip, k, v, node):
        st = ip.st
        if k == 0:
            ok = isinstance(v, ORef) and st.obj(v).cls is P._ReadUntil
            st.oblige('yield0:reads-until-CRLFCRLF-with-a-16-KiB-limit', BoolVal(ok) if not ok else And(
                iv(st.get(v, 'max_bytes')) == 16384 if st.get(v, 'max_bytes') is not None else BoolVal(False),
                st.get(v, 'sep').n == 4, *[st.get(v, 'sep').at(IntVal(j)) == x for j, x in enumerate((13, 10, 13, 10))]), tags=('C19',))
            ch = st.choose(['resume', 'close', 'throw'], 'yield0')
            if ch == 'close':
                st.ghost['closing_at'] = (k, None, v, st.snapshot())
                raise PyRaise(ExcVal(GeneratorExit))
            if ch == 'throw':
                st.ghost['thrown_at'] = 0
                raise PyRaise(ExcVal(P.ParseError, tag='thrown-in'))
            b = mk(ip, T.Bytes(BYTEARRAY), 'proxy_headers')
            return b
        if k == 1:
            ok = isinstance(v, ORef) and issubclass(st.obj(v).cls, Response)
            st.oblige('yield1:hands-on-the-parsed-answer', BoolVal(ok), tags=('C19',))
            if ok:
                sn, sc = (st.get(v, 'status_code').is_none, st.get(v, 'status_code').val) if isinstance(st.get(v, 'status_code'), SOpt) else (BoolVal(False), st.get(v, 'status_code'))
                st.oblige('yield1:only-for-status-200', And(Not(sn), iv(sc) == 200), tags=('C19',))
            if st.choose(['resume', 'close'], 'yield1') == 'close':
                st.ghost['closing_at'] = (k, None, v, st.snapshot())
                raise PyRaise(ExcVal(GeneratorExit))
            return None
        st.oblige('yield%d:unexpected-yield' % k, BoolVal(False))
        raise PathEnd('unexpected yield')

    def check_exit(self, ip, a, old, kind, res):
        st = ip.st
        if st.ghost.get('closing_at') is not None:
            return
        if kind == 'return':
            return
        ok = res.cls is PX.ProxyFail
        st.oblige('fails-only-with-ProxyFail:%s' % (res.cls.__name__ if res.cls else 'unknown'), BoolVal(ok), tags=('C19',))


def _proxy_yields(self, ip, a):
    """Parser.feed composed with ProxyParser.parse: the one thing it can hand on is a 200 answer"""
    def make(ip, a, g):
        r = mk(ip, T.Obj(PX.ProxyResponse, status_code=T.Const(200), _rid=T.Const(fresh('resp_id', I))), 'proxy_response')
        ip.st.ghost['answered'] = BoolVal(True)
        return r
    return [YieldSpec('proxy-answer-200', [0], make=make, when=lambda ip, a, g: BoolVal(True),
                      guarantee=lambda ip, a, g, v: [('status-200', BoolVal(True))])]


def _proxy_raises(self, ip, a, old, g):
    return [Raises(PX.ProxyFail, 'proxy-fail', when=None)]


_old_other_yields = CP.ParserFeed.other_yields
_old_other_raises = CP.ParserFeed.other_raises


def _other_yields(self, ip, a):
    if issubclass(ip.st.obj(a.self).cls, PX.ProxyParser):
        return _proxy_yields(self, ip, a)
    return _old_other_yields(self, ip, a)


def _other_raises(self, ip, a, old, g):
    if issubclass(ip.st.obj(a.self).cls, PX.ProxyParser):
        return _proxy_raises(self, ip, a, old, g)
    return _old_other_raises(self, ip, a, old, g)


CP.ParserFeed.other_yields = _other_yields
CP.ParserFeed.other_raises = _other_raises


# ------------------------------------------------------------------------------- _connect_proxy
def proxy_response_name():
    """the variable of _connect_proxy that holds the proxy's parsed answer: the one its read loop tests"""
    from pyvc.source import Roles
    r = Roles(WebsocketSession._connect_proxy)
    names = r.while_test_names(0)
    if not names:
        r._fail('the parsed proxy response')
    return names[0]


@contract('lomond.session.WebsocketSession._connect_proxy', serves=['C19', 'C09'])
class ConnectProxy(Contract):
    """connects to the PROXY's host and port (default 80 / 443 by the proxy URL's scheme), sends
    exactly one CONNECT request for the TARGET host and port, and then only reads until the proxy
    has answered; returns (TLS-wrapped for wss) only after a complete 200 answer"""
    def variants(self):
        return ['ws', 'wss']

    def setup(self, ip, v):
        W = world(ip)
        st = ip.st
        st.heap[W.ws.oid].f['scheme'] = SStr.lit('wss' if v == 'wss' else 'ws')
        return dict(self=W.session, proxy_url=mk(ip, T.Str, 'proxy_url'))

    def raises(self, ip, a, old):
        return [Raises(_SocketFail, when=None, modifies=[]), Raises(Exception, 'other(ProxyFail, socket error ...)', when=None, modifies=[])]

    def result(self, ip, a, old):
        st = ip.st
        s = ExtObj('socket', st.fresh_id('sock'))
        extworld.sock_state(st, s)
        st.ghost.setdefault('connect_proxy_calls', []).append(dict(url=a.proxy_url, sock=s))
        return s

    def loop(self, k):
        def inv(ip):
            st = ip.st
            r = ip.env.vars[proxy_response_name()]
            is_none = r.is_none if isinstance(r, SOpt) else BoolVal(r is None)
            ans = st.ghost.setdefault('answered', BoolVal(False))
            return [('a-response-object-means-the-proxy-answered-200', Or(is_none, ans), ('C19',))]

        def mods(ip):
            return [('ghost', 'answered', lambda ip: fresh('answered', B))]
        if k == 0:
            return LoopSpec(inv=inv, modifies=mods, locals={proxy_response_name(): T.Opt(T.Const(Opaque('response'))), 'data': T.Const(None)})
        if k == 1:
            return LoopSpec(inv=inv, modifies=mods, locals={proxy_response_name(): T.Opt(T.Const(Opaque('response')))})
        return None

    def ensures(self, ip, a, old, res):
        st = ip.st
        if ip.reading != 'body':
            return []
        W = st.ghost['W']
        log = st.ghost.get('io_log', [])[len(old.ghost.get('io_log', [])):]
        out = []
        cs = st.ghost.get('connect_sock_calls', [])[len(old.ghost.get('connect_sock_calls', [])):]
        out.append(('exactly-one-connection-and-it-is-to-the-proxy', BoolVal(len(cs) == 1), ('C19',)))
        if len(cs) == 1:
            u = st.ghost[st.ghost['last_url']]
            hn = u['hostname']
            out.append(('connects-to-the-proxys-host', BoolVal(cs[0]['host'] is hn), ('C19',)))
            pn, pv = u['port'].is_none, u['port'].val
            https = u['scheme'].t == SStr.lit('https').t
            out.append(('proxy-port-explicit-or-default-by-proxy-scheme', iv(cs[0]['port']) == If(And(Not(pn), pv != 0), pv, If(https, IntVal(443), IntVal(80))), ('C19',)))
            psock = cs[0]['sock']
            ops = [e for e in log if len(e) > 1 and e[1] == psock.key and e[0] in ('sendall', 'recv', 'recv_into')]
            sends = [e for e in ops if e[0] == 'sendall']
            out.append(('exactly-one-write-to-the-proxy-before-it-answered', BoolVal(len(sends) == 1 and ops and ops[0][0] == 'sendall'), ('C19',)))
            reqs = st.ghost.get('proxy_requests', [])
            out.append(('that-write-is-the-CONNECT-request-for-the-target-host-and-port',
                        BoolVal(len(sends) == 1 and len(reqs) >= 1 and sends[0][3] is not None and reqs[-1]['bytes'].n is sends[0][3].n
                                and reqs[-1]['host'] is st.get(W.ws, 'host') and reqs[-1]['port'] is st.get(W.ws, 'port')), ('C19',)))
            out.append(('returns-only-after-a-complete-200-answer', st.ghost.get('answered', BoolVal(False)), ('C19',)))
            wraps = [w for w in st.ghost.get('wraps', []) if w[0] == psock]
            if st.get(W.ws, 'scheme').text == 'wss':
                out.append(('tunnel-is-TLS-wrapped-for-wss-with-the-target-host', BoolVal(len(wraps) == 1 and res == wraps[0][1] and wraps[0][2] is st.get(W.ws, 'host')), ('C19',)))
            else:
                out.append(('plain-tunnel-for-ws', BoolVal(res == psock and not wraps), ('C19',)))
        return out


# ------------------------------------------------------------------------------- _connect
Connect.external = False
Connect.serves = ('C19', 'C09')


def _c_setup(self, ip, v):
    W = world(ip)
    st = ip.st
    st.heap[W.ws.oid].f['scheme'] = SStr.lit('wss' if v == 'wss' else 'ws')
    return dict(self=W.session)


def _c_ensures(self, ip, a, old, res):
    st = ip.st
    if ip.reading != 'body':
        return []
    W = st.ghost['W']
    out = [('returns-socket-and-proxy-url', BoolVal(isinstance(res, tuple) and len(res) == 2 and isinstance(res[0], ExtObj)))]
    if not (isinstance(res, tuple) and len(res) == 2):
        return out
    sock, purl = res
    px = st.get(W.ws, 'proxies')
    key = SStr.lit('https' if st.get(W.ws, 'scheme').text == 'wss' else 'http')
    has = px.has(key)
    val = px.value(key)
    configured = And(has, sval.strlen(val.t) > 0)
    pc = st.ghost.get('connect_proxy_calls', [])[len(old.ghost.get('connect_proxy_calls', [])):]
    cs = st.ghost.get('connect_sock_calls', [])[len(old.ghost.get('connect_sock_calls', [])):]
    out.append(('proxy-used-iff-configured-for-the-URLs-scheme', configured == BoolVal(len(pc) == 1), ('C19',)))
    if len(pc) == 1:
        out.append(('proxy-entry-of-the-right-scheme', pc[0]['url'].t == val.t, ('C19',)))
        out.append(('reports-the-proxy', BoolVal(isinstance(purl, SStr)) if not isinstance(purl, SStr) else purl.t == val.t, ('C19',)))
        out.append(('no-direct-connection-when-a-proxy-is-configured', BoolVal(len(cs) == 0 and sock == pc[0]['sock']), ('C19',)))
    else:
        out.append(('direct-connection-to-the-target', BoolVal(len(cs) == 1 and cs[0]['host'] is st.get(W.ws, 'host') and cs[0]['port'] is st.get(W.ws, 'port')
                                                                and cs[0]['ssl'] is (st.get(W.ws, 'scheme').text == 'wss') and sock == cs[0]['sock']), ('C19', 'C09')))
        out.append(('no-proxy-reported', BoolVal(purl is None), ('C19',)))
    return out


Connect.variants = lambda self: ['ws', 'wss']
Connect.setup = _c_setup
Connect.ensures = _c_ensures
