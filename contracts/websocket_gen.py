"""Contracts for the receive side of lomond.websocket: on_response (C10), process_extensions (C06),
_on_close (C08, C04), feed (C01, C04, C07, C08, C13, C14), on_disconnect."""
import z3
from z3 import And, Or, Not, If, Implies, IntVal, BoolVal, RealVal, ForAll, Function

from lomond import errors, events, message as M, constants
from lomond.response import Response
from lomond.websocket import WebSocket
from lomond.status import Status
from lomond.session import _ForceDisconnect

from pyvc.contracts import contract, Contract, ProducerContract, YieldSpec, T, mk, Raises, REG, A
from pyvc.loops import LoopSpec
from pyvc.sval import SBytes, SStr, SOpt, ExtObj, ORef, MRef, Rec, fresh, iv, to_real, BYTES, R, B, I, Str
from pyvc import sval, extworld
from contracts.world import world, sock_is_none, wire_since, install_flag_monitor
from contracts.session_misc import opt
from contracts.session_gen import event_obj, is_event
from contracts.session_send import close_frame_facts, close_payload
from spec import rfc6455

REG.transparent('lomond.websocket.WebSocket.force_disconnect')

hdr_has = Function('hdr_has', I, Str, B)
hdr_val = Function('hdr_val', I, Str, Str)


def response_obj(ip, name='response'):
    rid = fresh('resp_id', I)
    return mk(ip, T.Obj(Response, raw=T.Bytes(BYTES), http_ver=T.Str, status_code=T.Opt(T.Int), status=T.Str,
                        headers=T.Const(None), _rid=T.Const(rid)), name)


class _ResponseGet(Contract):
    """ASSUMED here (string code; decided only by the bounded stand-in bounded/response.py):
    get(name, default) returns the value of the header whose lower-cased name equals name.lower(),
    else default"""
    def result(self, ip, a, old):
        st = ip.st
        rid = st.get(a.self, '_rid')
        name = SStr(sval.str_lower(a.name.t)) if a.name.text is None else SStr.lit(a.name.text.lower())
        if st.decide(hdr_has(rid, name.t), 'header-present:%s' % (a.name.text,)):
            return SStr(hdr_val(rid, name.t))
        return a.default


@contract('lomond.response.Response.get', serves=[], external=True)
class ResponseGet(_ResponseGet):
    pass


@contract('lomond.response.Response.get_list', serves=[], external=True)
class ResponseGetList(Contract):
    """ASSUMED (bounded stand-in): the comma-separated items of the header, stripped; [] if absent"""
    def result(self, ip, a, old):
        st = ip.st
        n = fresh('nitems', I)
        st.assume(n >= 0)
        items = Function('hdr_item_%s' % st.fresh_id('l'), I, Str)
        from pyvc.sval import SList
        return st.alloc(SList(n, lambda i: SStr(items(iv(i)))), 'l')


def challenge_of(ip, key):
    """text of base64(sha1(key ++ GUID)) (RFC 6455 4.2.2), with sha1/base64 uninterpreted"""
    from pyvc.externals import digest_text
    k = ip.bytes_of(key)
    return digest_text(b'258EAFA5-E914-47DA-95CA-C5AB0DC85B11')(k.as_array(), k.n)


@contract('lomond.websocket.WebSocket.on_response', serves=['C10', 'C06'])
class OnResponse(Contract):
    """from the property (RFC 6455 4.1/4.2.2): accepts iff status == 101, Upgrade is 'websocket'
    (case-insensitively) and Sec-WebSocket-Accept EQUALS base64(sha1(key ++ GUID)) for this
    connection's key; otherwise HandshakeError.  sha1/base64 are uninterpreted."""
    def setup(self, ip, v):
        W = world(ip, session='some', compression='none')
        return dict(self=W.ws, response=response_obj(ip))

    def accepted(self, ip, a, old):
        st = ip.st
        W = st.ghost['W']
        rid = st.get(a.response, '_rid')
        sn, sc = opt(old.get(a.response, 'status_code'))
        up = SStr.lit('upgrade').t
        acc = SStr.lit('sec-websocket-accept').t
        ch = challenge_of(ip, old.get(W.state, 'key'))
        base = And(Not(sn), sc == 101, hdr_has(rid, up), sval.str_lower(hdr_val(rid, up)) == SStr.lit('websocket').t,
                   hdr_has(rid, acc))
        from pyvc.contracts import KNOWN
        if 'C10-accept-case' in KNOWN:
            # known finding: an Accept that differs from the digest only in letter case is accepted;
            # that class (and only that class) is carved out of the obligation
            return And(base, sval.str_lower(hdr_val(rid, acc)) == sval.str_lower(ch))
        return And(base, hdr_val(rid, acc) == ch)

    def axioms(self, ip, a):
        # the digest text is computed by b64encode(sha1(key + WS_KEY).digest()).decode('ascii'):
        # linked to the uninterpreted accept_digest by the ground check websocket.accept-digest
        return [BoolVal(constants.WS_KEY == b'258EAFA5-E914-47DA-95CA-C5AB0DC85B11')]

    def modifies(self, ip, a):
        W = ip.st.ghost['W']
        return [('heap', W.state, 'compression', T.Const(None)), ('heap', W.stream, '_decompress', T.Const(None))]

    def raises(self, ip, a, old):
        acc = self.accepted(ip, a, old)
        when = Not(acc)
        return [Raises(errors.HandshakeError, 'bad-upgrade-reply', when=when, iff=True, modifies=[], tags=('C10',)),
                Raises(errors.HandshakeError, 'bad-extension-parameters', when=acc, iff=False, modifies=None)]

    def result(self, ip, a, old):
        st = ip.st
        return (mk(ip, T.Opt(T.Str), 'protocol'), set())

    def ensures(self, ip, a, old, res):
        st = ip.st
        out = [('returns-protocol-and-extensions', BoolVal(isinstance(res, tuple) and len(res) == 2))]
        if isinstance(res, tuple) and len(res) == 2 and ip.reading == 'body':
            rid = st.get(a.response, '_rid')
            p = SStr.lit('sec-websocket-protocol').t
            proto = res[0]
            if isinstance(proto, SStr):
                out.append(('protocol-is-the-reply-header', And(hdr_has(rid, p), proto.t == hdr_val(rid, p))))
            elif proto is None:
                out.append(('protocol-is-the-reply-header', Not(hdr_has(rid, p))))
        return out


@contract('lomond.extension.parse_extension', serves=[], external=True)
class ParseExtension(Contract):
    """ASSUMED here (string code; bounded stand-in bounded/extension.py): returns the extension
    token and a dict of its parameters"""
    def result(self, ip, a, old):
        st = ip.st
        from pyvc.engine import SDictV
        tok = mk(ip, T.Str, 'ext_token')
        opts = SDictV(st.fresh_id('extopts'))
        st.ghost.setdefault('parsed_extensions', []).append((a.extension, tok, opts))
        return (tok, opts)


REG.transparent('lomond.stream.WebsocketStream.set_compression', 'lomond.frame_parser.FrameParser.enable_compression')


@contract('lomond.websocket.WebSocket.process_extensions', serves=[], external=True)
class ProcessExtensions(Contract):
    """call-site summary (the body is verified by contracts/extensions.py): may switch compression
    on, may raise CompressionParameterError, returns the set of enabled extensions"""
    def modifies(self, ip, a):
        st = ip.st
        W = st.ghost['W']
        return []

    def raises(self, ip, a, old):
        return [Raises(errors.CompressionParameterError, when=None, modifies=None)]

    def result(self, ip, a, old):
        st = ip.st
        W = st.ghost['W']
        from contracts.compression import deflate_obj
        if st.choose(['no-compression', 'compression'], 'negotiated') == 'compression':
            ref, zc, zd = deflate_obj(ip, 'negotiated')
            st.heap[W.state.oid].f['compression'] = ref
            st.writes.append((W.state.oid, 'compression'))
        return set()


# ------------------------------------------------------------------------------- on_disconnect
@contract('lomond.websocket.WebSocket.on_disconnect', serves=['C13', 'C08', 'C10', 'C12'])
class OnDisconnect(Contract):
    """the session's socket is released (closed under the lock, session._sock cleared) and the
    websocket is marked closed, not closing; never raises"""
    def setup(self, ip, v):
        W = world(ip, session='opt')
        install_flag_monitor(ip, W)
        return dict(self=W.ws)

    def requires(self, ip, a):
        W = ip.st.ghost['W']
        g = ip.st.ghost[W.lock.key]
        return [('lock-free-or-reentrant', BoolVal(g['held'] == 0 or g['reentrant']))]

    def modifies(self, ip, a):
        W = ip.st.ghost['W']
        return [('heap', W.session, '_sock', T.Const(None)), ('heap', W.state, 'closing', T.Const(False)),
                ('heap', W.state, 'closed', T.Const(True))]

    def result(self, ip, a, old):
        st = ip.st
        W = st.ghost['W']
        sess = old.get(W.state, 'session')
        if isinstance(sess, SOpt):
            # no session: the socket field keeps its value
            if st.decide(sess.is_none, 'no-session'):
                st.heap[W.session.oid].f['_sock'] = old.get(W.session, '_sock')
        return None

    def ensures(self, ip, a, old, res):
        st = ip.st
        W = st.ghost['W']
        sess = old.get(W.state, 'session')
        has_session = Not(sess.is_none) if isinstance(sess, SOpt) else BoolVal(sess is not None)
        c, cg = st.get(W.state, 'closed'), st.get(W.state, 'closing')
        out = [('closed-set', c if not isinstance(c, bool) else BoolVal(c)),
               ('closing-cleared', Not(cg) if not isinstance(cg, bool) else BoolVal(not cg)),
               ('session-has-no-socket', Implies(has_session, sock_is_none(st.get(W.session, '_sock'))), ('C13',))]
        if ip.reading == 'body':
            # "released" means closed, not merely forgotten: the socket goes through _close_socket (C13, C10)
            from pyvc.contracts import calls_since
            n = len(calls_since(ip, old, 'WebsocketSession._close_socket'))
            out.append(('the-socket-is-closed-not-just-forgotten', Implies(has_session, BoolVal(n >= 1)), ('C13', 'C10', 'C08')))
        return out


# ------------------------------------------------------------------------------- _on_close
def close_msg(ip, code_kind='int'):
    code = None if code_kind == 'none' else mk(ip, T.Int(0, 65535), 'close_code')
    reason = SStr.lit('') if code_kind == 'none' else mk(ip, T.Str, 'close_reason')
    return mk(ip, T.Obj(M.Close, opcode=T.Const(8), code=T.Const(code), reason=T.Const(reason)), 'close_message')


def reason_fits(ip, reason):
    """the reason came out of a control frame: its UTF-8 form is at most 123 bytes"""
    for f in sval.str_encode_facts(reason):
        ip.st.assume(f)
    return sval.utf8_len(reason.t) <= 123


@contract('lomond.websocket.WebSocket._on_close', serves=['C08', 'C04', 'C12', 'C14'])
class OnClose(ProducerContract):
    """server Close received.  Reserved code -> ProtocolError before anything is yielded.  Already
    closed -> nothing.  We were closing -> Closed(code, reason), then closed and not closing.
    Otherwise -> Closing(code, reason); the application may send or close() during that event;
    afterwards at most one Close is echoed, with the same code and reason (none if the
    application already closed), and the websocket is closing."""
    def variants(self):
        return ['code', 'nocode']

    def site_keys(self, sites):
        return [0 if src.startswith('events.Closed(') else 1 if src.startswith('events.Closing(') else k for k, src, stmt, handler in sites]

    def setup(self, ip, v):
        W = world(ip, session='some')
        install_flag_monitor(ip, W)
        return dict(self=W.ws, message=close_msg(ip, 'int' if v == 'code' else 'none'))

    def requires(self, ip, a):
        st = ip.st
        W = st.ghost['W']
        g = st.ghost[W.lock.key]
        code, reason = st.get(a.message, 'code'), st.get(a.message, 'reason')
        r = [('lock-free-or-reentrant', BoolVal(g['held'] == 0 or g['reentrant'])),
             ('reason-fits-a-control-frame', reason_fits(ip, reason))]
        if code is not None:
            r.append(('code-16-bit', And(iv(code) >= 0, iv(code) < 65536)))
        return r

    def invalid(self, ip, a):
        code = ip.st.get(a.message, 'code')
        if code is None:
            return BoolVal(False)
        from pyvc.engine import _int_set_membership
        return _int_set_membership(iv(code), list(Status.invalid_codes))

    def p_modifies(self, ip, a):
        W = ip.st.ghost['W']
        return [('heap', W.state, 'closing', T.Bool), ('heap', W.state, 'closed', T.Bool),
                ('heap', W.state, 'sent_close_time', T.Opt(T.Real))]

    def gen_ghost(self, ip, a):
        return dict(stage=IntVal(0))

    def ghost_types(self):
        return dict(stage=T.Int(0, 2))

    def yields(self, ip, a):
        st = ip.st
        W = st.ghost['W']

        def same_payload(ip, v, cls):
            ok = is_event(ip, v, cls)
            out = [('is-%s' % cls.__name__, BoolVal(ok))]
            if ok:
                code, reason = ip.st.get(a.message, 'code'), ip.st.get(a.message, 'reason')
                vc, vr = ip.st.get(v, 'code'), ip.st.get(v, 'reason')
                out.append(('same-code', BoolVal(vc is None and code is None) if (vc is None or code is None) else iv(vc) == iv(code)))
                out.append(('same-reason', vr.t == reason.t if isinstance(vr, SStr) else BoolVal(False)))
            return out

        def mk_ev(cls):
            def make(ip, a, g):
                return event_obj(ip, cls, code=T.Const(ip.st.get(a.message, 'code')), reason=T.Const(ip.st.get(a.message, 'reason')))
            return make

        def after(k):
            def f(ip, a, g, v):
                g['stage'] = IntVal(k)
                g['snap'] = ip.st.snapshot()
            return f
        return [
            YieldSpec('Closed', [0], make=mk_ev(events.Closed),
                      when=lambda ip, a, g: And(g['stage'] == 0, Not(self.invalid(ip, a))),
                      guarantee=lambda ip, a, g, v: same_payload(ip, v, events.Closed) + [
                          ('only-when-we-were-closing', And(ip.st.get(W.state, 'closing'), Not(ip.st.get(W.state, 'closed'))))],
                      after=after(1)),
            YieldSpec('Closing', [1], make=mk_ev(events.Closing),
                      when=lambda ip, a, g: And(g['stage'] == 0, Not(self.invalid(ip, a))),
                      guarantee=lambda ip, a, g, v: same_payload(ip, v, events.Closing) + [
                          ('only-when-open', And(Not(ip.st.get(W.state, 'closing')), Not(ip.st.get(W.state, 'closed'))))],
                      after=after(2)),
        ]

    def step_effects(self, ip, a, gen, label):
        st = ip.st
        W = st.ghost['W']
        old = gen.g.get('snap')
        if label == 'done' and old is not None:
            # the step that follows the Closing event may echo one Close
            if st.choose(['no-echo', 'echo'], 'close-echo') == 'echo':
                st.assume(gen.g['stage'] == 2)
                w = mk(ip, T.Bytes(BYTES), 'wire_close_echo')
                st.ghost.setdefault('wire_log', []).append(w)
                d = rfc6455.decode_one(w)
                st.assume(d.opcode == 8, d.fin == 1, d.mask == 1, d.total == w.n, d.plen <= 125)

    def p_raises(self, ip, a, old, g):
        return [Raises(errors.ProtocolError, 'reserved-close-code', when=And(g['stage'] == 0, self.invalid(ip, a)), iff=False)]

    def p_done(self, ip, a, old, g):
        st = ip.st
        W = st.ghost['W']
        return [('valid-code', Not(self.invalid(ip, a))),
                ('after-Closed:closed-and-not-closing', Implies(g['stage'] == 1, And(st.get(W.state, 'closed'), Not(st.get(W.state, 'closing'))))),
                ('after-Closing:closing', Implies(g['stage'] == 2, st.get(W.state, 'closing'))),
                ('nothing-yielded-only-if-already-closed', Implies(g['stage'] == 0, st.get(W.state, 'closed')))]

    def resume_havoc(self, ip, a, k):
        W = ip.st.ghost['W']
        if k == 1:      # during Closing the application may send or close()
            return [('heap', W.state, 'closing', T.Bool), ('heap', W.state, 'sent_close_time', T.Opt(T.Real))]
        return []

    def resume_rely(self, ip, a, k, pre):
        st = ip.st
        W = st.ghost['W']
        st.ghost['resume_snap'] = st.snapshot()
        st.ghost['resume_wire'] = len(st.ghost.get('wire_log', []))
        return [('closing-only-set-by-application', Implies(pre.get(W.state, 'closing'), st.get(W.state, 'closing')))]

    def check_exit(self, ip, a, old, kind, res):
        st = ip.st
        W = st.ghost['W']
        g = st.ghost['self_gen']
        if kind == 'return':
            trace = [n for _, n in st.ghost.get('yield_trace', [])]
            st.oblige('exhausted:reserved-code-never-accepted', Not(self.invalid(ip, a)), tags=('C04',))
            if 'Closing' in trace:
                # from the property (C08): echo exactly one Close with the same code, unless the
                # application already closed during the Closing event; nothing else is written
                snap = st.ghost['resume_snap']
                w = st.ghost.get('wire_log', [])[st.ghost['resume_wire']:]
                app_closed = snap.get(W.state, 'closing')
                st.oblige('exhausted:at-most-one-echo', BoolVal(len(w) <= 1), tags=('C08', 'C12'))
                st.oblige('exhausted:no-echo-if-application-already-closed', Implies(app_closed, BoolVal(len(w) == 0)), tags=('C08', 'C12'))
                if len(w) == 1:
                    code, reason = st.get(a.message, 'code'), st.get(a.message, 'reason')
                    if code is not None:
                        rb = close_payload(ip, code, reason)
                        for n, f, *t in close_frame_facts(ip, w[0], iv(code), rb):
                            st.oblige('exhausted:echo:' + n, f, tags=('C08',))
            else:
                w = wire_since(ip, old)
                st.oblige('exhausted:nothing-written-without-Closing', BoolVal(len(w) == 0), tags=('C08',))
        return ProducerContract.check_exit(self, ip, a, old, kind, res)


# ------------------------------------------------------------------------------- stream.feed (interface)
def hs(st):
    """ghost: the stream has handed on the HTTP response of this connection"""
    if 'hs' not in st.ghost:
        st.ghost['hs'] = fresh('hs0', B)
    return st.ghost['hs']


def hsw(st):
    """ghost: the websocket has turned that response into Ready or Rejected"""
    if 'hsw' not in st.ghost:
        st.ghost['hsw'] = fresh('hsw0', B)
    return st.ghost['hsw']


def rej(st):
    """ghost: ... and it was Rejected"""
    if 'rej' not in st.ghost:
        st.ghost['rej'] = fresh('rej0', B)
    return st.ghost['rej']


MSG_KINDS = ('Binary', 'Text', 'Ping', 'Pong', 'Close-code', 'Close-nocode')


def make_message(ip, kind):
    if kind == 'Binary':
        return mk(ip, T.Obj(M.Binary, opcode=T.Const(2), data=T.Bytes(BYTES)), 'msg')
    if kind == 'Text':
        return mk(ip, T.Obj(M.Text, opcode=T.Const(1), text=T.Str), 'msg')
    if kind == 'Ping':
        return mk(ip, T.Obj(M.Ping, opcode=T.Const(9), data=T.Bytes(BYTES, maxlen=125)), 'msg')
    if kind == 'Pong':
        return mk(ip, T.Obj(M.Pong, opcode=T.Const(10), data=T.Bytes(BYTES, maxlen=125)), 'msg')
    m = close_msg(ip, 'int' if kind == 'Close-code' else 'none')
    ip.st.assume(reason_fits(ip, ip.st.get(m, 'reason')))
    return m


def message_guarantee(ip, v):
    """what every message handed on by the stream satisfies (C01/C04): it is one of the five
    message classes with an immutable payload; control payloads are at most 125 bytes, so a close
    reason is at most 123 bytes of UTF-8 and a close code is a 16-bit number"""
    st = ip.st
    if not isinstance(v, ORef):
        return [('is-a-message', BoolVal(False))]
    cls = st.obj(v).cls
    out = [('is-a-message', BoolVal(cls in (M.Binary, M.Text, M.Ping, M.Pong, M.Close)))]
    f = st.obj(v).f
    if cls in (M.Binary, M.Ping, M.Pong):
        d = f.get('data')
        out.append(('payload-is-immutable-bytes', BoolVal(isinstance(d, SBytes) and d.kind == BYTES), ('C01',)))
        if cls in (M.Ping, M.Pong) and isinstance(d, SBytes):
            out.append(('control-payload-at-most-125', d.n <= 125, ('C04', 'C14')))
    if cls is M.Text:
        out.append(('text-is-str', BoolVal(isinstance(f.get('text'), SStr)), ('C01',)))
    if cls is M.Close:
        code, reason = f.get('code'), f.get('reason')
        if code is not None:
            out.append(('close-code-16-bit', And(iv(code) >= 0, iv(code) < 65536)))
        out.append(('close-reason-fits-control-frame', reason_fits(ip, reason) if isinstance(reason, SStr) else BoolVal(False), ('C04',)))
    return out


@contract('lomond.stream.WebsocketStream.feed', serves=[], external=True)   # TODO body: contracts/stream.py
class StreamFeed(ProducerContract):
    """bytes -> the HTTP response (exactly once, first) followed by one message per completed
    message; protocol violations surface as ProtocolError / CriticalProtocolError and nothing else
    escapes.  (Body verified in contracts/stream.py; this class is the interface.)"""
    body_in = 'contracts.stream'

    def p_modifies(self, ip, a):
        return []

    def yields(self, ip, a):
        def after_resp(ip, a, g, v):
            ip.st.ghost['hs'] = BoolVal(True)

        def make_msg(ip, a, g):
            kind = ip.st.choose(MSG_KINDS, 'message-kind')
            return make_message(ip, kind)
        return [
            YieldSpec('Response', [0], make=lambda ip, a, g: response_obj(ip),
                      when=lambda ip, a, g: Not(hs(ip.st)),
                      guarantee=lambda ip, a, g, v: [('is-Response', BoolVal(isinstance(v, ORef) and ip.st.obj(v).cls is Response))],
                      after=after_resp, tags=('C07', 'C10')),
            YieldSpec('Message', [1, 2], make=make_msg,
                      when=lambda ip, a, g: hs(ip.st),
                      guarantee=lambda ip, a, g, v: message_guarantee(ip, v)),
        ]

    def p_raises(self, ip, a, old, g):
        return [Raises(errors.CriticalProtocolError, 'critical', when=None), Raises(errors.ProtocolError, 'protocol-error', when=None)]


# ------------------------------------------------------------------------------- WebSocket.feed
EVENT_OF = {M.Ping: events.Ping, M.Pong: events.Pong, M.Binary: events.Binary, M.Text: events.Text}


@contract('lomond.websocket.WebSocket.feed', serves=['C01', 'C04', 'C07', 'C08', 'C10', 'C13', 'C14'])
class WsFeed(ProducerContract):
    """events for one read.  The Response becomes exactly one Ready or Rejected (Rejected: socket
    released, closed, nothing more).  Every message becomes exactly one event of the matching
    class carrying the identical payload object (Close: Closing or Closed via _on_close).  A
    protocol violation becomes exactly one ProtocolError event, after which the generator only
    raises _ForceDisconnect - writing at most one Close (1002) first for non-critical errors.
    Abandoning the generator at an event yielded from the try body releases the socket."""
    def variants(self):
        return ['bytes']

    def site_keys(self, sites):
        """the yields of feed by what they yield (the arms of the dispatch chain may come in any order)"""
        names = {'events.Rejected(': 0, 'events.Ready(': 1, 'events.Ping(': 3, 'events.Pong(': 4, 'events.Binary(': 5, 'events.Text(': 6}
        out = []
        for k, src, stmt, handler in sites:
            n = next((v for p, v in names.items() if src.startswith(p)), None)
            if n is None and src.startswith('events.ProtocolError('):
                # by the handler it sits in, not by its `critical` argument (that argument is what the clause checks)
                n = 7 if 'CriticalProtocolError' in handler else 8
            if n is None and src.isidentifier():
                n = 2
            out.append(k if n is None else n)
        return out

    def setup(self, ip, v):
        W = world(ip, session='some')
        hs(ip.st)
        hsw(ip.st)
        rej(ip.st)
        return dict(self=W.ws, data=mk(ip, T.Bytes(BYTES), 'data'))

    def requires(self, ip, a):
        W = ip.st.ghost['W']
        g = ip.st.ghost[W.lock.key]
        return [('lock-free-or-reentrant', BoolVal(g['held'] == 0 or g['reentrant'])),
                ('response-handed-on-iff-turned-into-an-event', hs(ip.st) == hsw(ip.st)),
                ('a-rejected-websocket-is-closed', Implies(rej(ip.st), ip.st.get(W.state, 'closed')))]

    def gen_ghost(self, ip, a):
        ip.st.ghost.setdefault('feed_args', []).append(a.data)
        return dict(stage=IntVal(0))     # 0 running, 1 after Rejected, 2 after ProtocolError

    def ghost_types(self):
        return dict(stage=T.Int(0, 2))

    def p_modifies(self, ip, a):
        W = ip.st.ghost['W']
        return [('heap', W.state, 'closing', T.Bool), ('heap', W.state, 'closed', T.Bool),
                ('heap', W.state, 'sent_close_time', T.Opt(T.Real)),
                ('heap', W.session, '_sock', T.Opt(T.Const(W.sock)))]

    # ---- yields
    def yields(self, ip, a):
        st = ip.st
        W = st.ghost['W']

        def stage(k):
            def f(ip, a, g, v):
                g['stage'] = IntVal(k)
                if k == 0:
                    pass
            return f

        def after_hs(k):
            def f(ip, a, g, v):
                g['stage'] = IntVal(k)
                ip.st.ghost['hsw'] = BoolVal(True)
                if k == 1:
                    ip.st.ghost['rej'] = BoolVal(True)
                if ip.reading == 'call':
                    ip.st.ghost['hs'] = BoolVal(True)
            return f

        def ev(cls, **fields):
            return lambda ip, a, g: event_obj(ip, cls, **fields)

        def running(ip, a, g):
            return And(g['stage'] == 0, hsw(ip.st), Not(rej(ip.st)))

        def msg_event(cls, field, ord_):
            def guarantee(ip, a, g, v):
                ok = is_event(ip, v, cls)
                out = [('is-%s' % cls.__name__, BoolVal(ok))]
                if ok and ip.reading == 'body':
                    src = ip.st.ghost.get('current_message')
                    out.append(('carries-the-message-payload-object', BoolVal(src is not None and ip.st.get(v, field) is ip.st.obj(src).f.get(field)), ('C01',)))
                if ok and cls is events.Ping:
                    d = ip.st.get(v, 'data')
                    out.append(('ping-payload-bytes-at-most-125', BoolVal(isinstance(d, SBytes) and d.kind == BYTES) if not isinstance(d, SBytes) else d.n <= 125, ('C14',)))
                return out
            t = T.Bytes(BYTES, maxlen=125) if cls in (events.Ping, events.Pong) else (T.Str if cls is events.Text else T.Bytes(BYTES))
            return YieldSpec(cls.__name__, [ord_], make=ev(cls, **{field: t}), when=running, guarantee=guarantee, after=stage(0))

        def close_event_guarantee(ip, a, g, v):
            return [('is-Closing-or-Closed', BoolVal(is_event(ip, v, events.Closing) or is_event(ip, v, events.Closed)))]

        def make_close_event(ip, a, g):
            cls = ip.st.choose([events.Closing, events.Closed], 'close-event')
            return event_obj(ip, cls, code=T.Opt(T.Int(0, 65535)), reason=T.Str)
        return [
            YieldSpec('Rejected', [0], make=ev(events.Rejected, response=T.Const(None), reason=T.Str),
                      when=lambda ip, a, g: And(g['stage'] == 0, Not(hsw(ip.st))),
                      guarantee=lambda ip, a, g, v: [('is-Rejected', BoolVal(is_event(ip, v, events.Rejected))),
                                                      ('socket-released', sock_is_none(ip.st.get(W.session, '_sock')), ('C10', 'C13')),
                                                      ('closed', ip.st.get(W.state, 'closed'), ('C10',))],
                      after=after_hs(1), tags=('C07', 'C10')),
            YieldSpec('Ready', [1], make=ev(events.Ready, response=T.Const(None), protocol=T.Opt(T.Str), extensions=T.Const(set())),
                      when=lambda ip, a, g: And(g['stage'] == 0, Not(hsw(ip.st))),
                      guarantee=lambda ip, a, g, v: [('is-Ready', BoolVal(is_event(ip, v, events.Ready)))],
                      after=after_hs(0), tags=('C07', 'C10')),
            YieldSpec('CloseEvent', [2], make=make_close_event, when=running, guarantee=close_event_guarantee, after=stage(0)),
            msg_event(events.Ping, 'data', 3), msg_event(events.Pong, 'data', 4),
            msg_event(events.Binary, 'data', 5), msg_event(events.Text, 'text', 6),
            YieldSpec('ProtocolError', [7, 8], make=ev(events.ProtocolError, error=T.Str, critical=T.Bool),
                      when=lambda ip, a, g: g['stage'] == 0,
                      guarantee=lambda ip, a, g, v: [('is-ProtocolError', BoolVal(is_event(ip, v, events.ProtocolError)))],
                      after=stage(2), site='handler', tags=('C04',)),
        ]

    def suspend_inv(self, ip, a, g):
        st = ip.st
        W = st.ghost['W']
        closed = st.get(W.state, 'closed')
        closed = BoolVal(closed) if isinstance(closed, bool) else closed
        return [('response-handed-on-iff-turned-into-an-event', hs(st) == hsw(st)),
                ('a-rejected-websocket-is-closed', Implies(rej(st), closed))]

    def step_effects(self, ip, a, gen, label):
        st = ip.st
        # a step may have written: a Close echo (after Closing), or the 1002 Close that follows a
        # non-critical ProtocolError - always at most one Close frame, never a data frame
        if st.choose(['no-close-written', 'close-written'], 'feed-step-close') == 'close-written':
            w = mk(ip, T.Bytes(BYTES), 'wire_close')
            st.ghost.setdefault('wire_log', []).append(w)
            d = rfc6455.decode_one(w)
            st.assume(d.opcode == 8, d.fin == 1, d.mask == 1, d.total == w.n, d.plen <= 125)
            st.assume(st.get(st.ghost['W'].state, 'closing'))

    def p_raises(self, ip, a, old, g):
        # after a ProtocolError event the generator ends by an exception: _ForceDisconnect, or the
        # ValueError of close() if the error text did not fit a control frame - either way the
        # session loop ends with a non-graceful Disconnected
        return [Raises(_ForceDisconnect, 'force-disconnect-after-protocol-error', when=g['stage'] == 2, iff=False, tags=('C04',)),
                Raises(ValueError, 'close-reason-too-long-after-protocol-error', when=g['stage'] == 2, iff=False, tags=('C04',))]

    def p_done(self, ip, a, old, g):
        return [('never-exhausted-after-a-protocol-error', g['stage'] != 2, ('C04',)),
                ('response-handed-on-iff-turned-into-an-event', Or(hs(ip.st) == hsw(ip.st), ip.st.get(ip.st.ghost['W'].state, 'closed'))),
                ('a-rejected-websocket-is-closed', Implies(rej(ip.st), ip.st.get(ip.st.ghost['W'].state, 'closed')))]

    # ---- while suspended the application may send / close()
    def resume_havoc(self, ip, a, k):
        W = ip.st.ghost['W']
        return [('heap', W.state, 'closing', T.Bool), ('heap', W.state, 'sent_close_time', T.Opt(T.Real))]

    def resume_rely(self, ip, a, k, pre):
        st = ip.st
        W = st.ghost['W']
        return [('closing-only-set-by-application', Implies(pre.get(W.state, 'closing'), st.get(W.state, 'closing')))]

    # ---- abandonment (C13)
    def drop_modifies(self, ip, a, spec):
        W = ip.st.ghost['W']
        if spec.site == 'body':
            return [('heap', W.session, '_sock', T.Const(None)), ('heap', W.state, 'closing', T.Const(False)),
                    ('heap', W.state, 'closed', T.Const(True))]
        return []

    def drop_ensures(self, ip, a, old, spec, v):
        st = ip.st
        W = st.ghost['W']
        if spec.site == 'body':
            return [('socket-released', sock_is_none(st.get(W.session, '_sock')), ('C13',)),
                    ('closed', st.get(W.state, 'closed') if not isinstance(st.get(W.state, 'closed'), bool) else BoolVal(st.get(W.state, 'closed')))]
        return []

    # ---- loops of the body
    def loop(self, k):
        def common_mods(ip):
            W = ip.st.ghost['W']
            return [('heap', W.state, 'closing', T.Bool), ('heap', W.state, 'closed', T.Bool),
                    ('heap', W.state, 'sent_close_time', T.Opt(T.Real)),
                    ('heap', W.state, 'compression', T.Opt(T.Const(W.deflate))),
                    ('heap', W.session, '_sock', T.Opt(T.Const(W.sock))),
                    ('ghost', 'hs', lambda ip: fresh('hs', B)), ('ghost', 'hsw', lambda ip: fresh('hsw', B))]

        def inv1(ip):
            g = ip.st.ghost['self_gen']
            return [('still-running', g['stage'] == 0), ('response-handed-on-iff-turned-into-an-event', hs(ip.st) == hsw(ip.st)),
                    ('not-rejected', Not(rej(ip.st)))]

        def inv0(ip):
            W = ip.st.ghost['W']
            return inv1(ip) + [('not-closed-at-the-head-of-the-message-loop', Not(ip.st.get(W.state, 'closed')))]
        def mods0(ip):
            W = ip.st.ghost['W']
            return common_mods(ip) + [('heap', W.stream, '_decompress', T.Const(None))]

        def mods1(ip):
            W = ip.st.ghost['W']
            return [('heap', W.state, 'closing', T.Bool), ('heap', W.state, 'closed', T.Bool),
                    ('heap', W.state, 'sent_close_time', T.Opt(T.Real))]
        if k == 0:
            return LoopSpec(inv=inv0, modifies=mods0)
        if k == 1:
            return LoopSpec(inv=inv1, modifies=mods1, locals={'event': T.Const(None)})
        return None

    def received(self, ip, a, k, v):
        return None

    def check_exit(self, ip, a, old, kind, res):
        st = ip.st
        W = st.ghost['W']
        g = st.ghost['self_gen']
        trace = [n for _, n in st.ghost.get('yield_trace', [])]
        if 'ProtocolError' in trace and st.ghost.get('closing_at') is None:
            # from the property (C04): exactly one ProtocolError event, then no further yield, at
            # most one Close frame and no other frame, and the generator ends by _ForceDisconnect
            st.oblige('after-ProtocolError:exactly-one-and-nothing-yielded-after', BoolVal(trace.count('ProtocolError') == 1 and trace[-1] == 'ProtocolError'), tags=('C04',))
            st.oblige('after-ProtocolError:ends-by-an-exception', BoolVal(kind == 'raise'), tags=('C04',))
            w = st.ghost.get('wire_log', [])[st.ghost.get('wire_at_pe', 0):]
            st.oblige('after-ProtocolError:at-most-one-frame', BoolVal(len(w) <= 1), tags=('C04',))
            for x in w:
                d = rfc6455.decode_one(x)
                st.oblige('after-ProtocolError:the-frame-is-a-Close', d.opcode == 8, tags=('C04',))
        return ProducerContract.check_exit(self, ip, a, old, kind, res)

    def at_yield(self, ip, k, v, node):
        st = ip.st
        if k in (7, 8):
            st.ghost['wire_at_pe'] = len(st.ghost.get('wire_log', []))
        if k in (3, 4, 5, 6):
            # which message is being dispatched (for the identical-payload obligation)
            from pyvc.source import Roles
            st.ghost['current_message'] = ip.env.vars.get(Roles(WebSocket.feed).for_target('stream.feed('))
        return ProducerContract.at_yield(self, ip, k, v, node)


@contract('lomond.websocket.WebSocket.__exit__', serves=['C13'])
class WsExit(Contract):
    """leaving a `with websocket:` block releases the session's socket, whatever the event"""
    def setup(self, ip, v):
        W = world(ip, session='opt')
        from pyvc.sval import Opaque
        return dict(self=W.ws, exc_type=Opaque('exc_type'), exc_value=Opaque('exc'), traceback=Opaque('tb'))

    def requires(self, ip, a):
        W = ip.st.ghost['W']
        g = ip.st.ghost[W.lock.key]
        return [('lock-free-or-reentrant', BoolVal(g['held'] == 0 or g['reentrant']))]

    def modifies(self, ip, a):
        W = ip.st.ghost['W']
        return [('heap', W.session, '_sock', T.Const(None))]

    def ensures(self, ip, a, old, res):
        st = ip.st
        W = st.ghost['W']
        sess = old.get(W.state, 'session')
        has_session = Not(sess.is_none) if isinstance(sess, SOpt) else BoolVal(sess is not None)
        out = [('socket-released', Implies(has_session, sock_is_none(st.get(W.session, '_sock')))),
               ('exception-not-swallowed', BoolVal(res is None or res is False))]
        if ip.reading == 'body':
            from pyvc.contracts import calls_since
            n = len(calls_since(ip, old, 'WebsocketSession._close_socket'))
            out.append(('the-socket-is-closed-not-just-forgotten', Implies(has_session, BoolVal(n >= 1)), ('C13',)))
        return out
