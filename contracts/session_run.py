"""WebsocketSession.run - the event loop (C07, C09, C13, C14, C15, C18, C19) - and the contracts of
the helpers it calls directly."""
import inspect

import z3
from z3 import And, Or, Not, If, Implies, IntVal, BoolVal, RealVal, ForAll, ToReal

from lomond import errors, events
from lomond.session import WebsocketSession, _SocketFail, _ForceDisconnect
from lomond.selectors import SelectorBase, PollSelector
import lomond.selectors as SEL

from pyvc.contracts import contract, Contract, ProducerContract, YieldSpec, T, mk, Raises, REG
from pyvc.loops import LoopSpec
from pyvc.engine import PathEnd, PyRaise
from pyvc.sval import SBytes, SStr, SOpt, ExtObj, ORef, MRef, Rec, ExcVal, fresh, iv, to_real, BYTES, R, B, I
from pyvc import extworld
from contracts.world import world, sock_is_none, wire_since
from contracts.session_misc import opt
from contracts.session_send import write_raises, payload_facts
from contracts.session_gen import event_obj, is_event
from contracts.websocket_gen import hs, hsw, rej
from spec import rfc6455
from spec.monitor import PHASE, allowed_next, EVENT_CLASSES

START, CONNECTING, CONNECTED, READY, DONE = PHASE


# ------------------------------------------------------------------------------- helpers of run
@contract('lomond.session.WebsocketSession._on_event', serves=['C07', 'C14', 'C15', 'C18'])
class OnEvent(Contract):
    """ready -> timers initialised and _ready set; ping and auto_pong -> exactly one Pong with the
    ping's payload is attempted (dropped silently if the connection is closing/closed/failed);
    pong -> last-pong time recorded; anything else -> nothing.  Never raises."""
    KINDS = ('Ready', 'Ping', 'Pong', 'Text', 'Binary', 'Closing', 'Closed', 'Rejected', 'ProtocolError')

    def variants(self):
        return ['%s-%s' % (k, p) for k in self.KINDS for p in ('pong', 'nopong')]

    def make_event(self, ip, kind):
        cls = getattr(events, kind)
        fields = {}
        if kind in ('Ping', 'Pong'):
            fields['data'] = T.Bytes(BYTES, maxlen=125)
        return event_obj(ip, cls, **fields)

    def setup(self, ip, v):
        kind, p = v.split('-')
        W = world(ip, session='some')
        return dict(self=W.session, event=self.make_event(ip, kind), auto_pong=(p == 'pong'))

    def requires(self, ip, a):
        st = ip.st
        W = st.ghost['W']
        g = st.ghost[W.lock.key]
        r = [('lock-free-or-reentrant', BoolVal(g['held'] == 0 or g['reentrant']))]
        if is_event(ip, a.event, events.Ping):
            d = st.get(a.event, 'data')
            r.append(('ping-payload-bytes-at-most-125', BoolVal(False) if not isinstance(d, SBytes) else And(BoolVal(d.kind == BYTES), d.n <= 125)))
        if is_event(ip, a.event, events.Pong):
            r.append(('timers-initialised(pong only after ready)', Implies(BoolVal(True), Not(opt(st.get(a.self, '_start_time'))[0]))))
        return r

    def modifies(self, ip, a):
        W = ip.st.ghost['W']
        if is_event(ip, a.event, events.Ready):
            return [('heap', a.self, f, T.Real) for f in ('_last_pong', '_next_ping', '_start_time')] + \
                [('heap', a.self, '_ready', T.Bool)]
        if is_event(ip, a.event, events.Pong):
            return [('heap', a.self, '_last_pong', T.Real)]
        if is_event(ip, a.event, events.Ping):
            return [('heap', W.state, 'closing', T.Bool)]
        return []

    def can_write(self, ip, old):
        W = ip.st.ghost['W']
        return And(Not(sock_is_none(old.get(W.session, '_sock'))), Not(old.get(W.state, 'closed')), Not(old.get(W.state, 'closing')))

    def result(self, ip, a, old):
        st = ip.st
        W = st.ghost['W']
        st.ghost.setdefault('on_event_log', []).append((a.event.oid if isinstance(a.event, ORef) else None, a.auto_pong))
        if is_event(ip, a.event, events.Ping):
            st.heap[W.state.oid].f['closing'] = old.get(W.state, 'closing')
            truthy = ip.truth(a.auto_pong)
            if (truthy if isinstance(truthy, bool) else st.decide(truthy, 'auto-pong')):
                if st.decide(self.can_write(ip, old), 'open'):
                    if st.choose(['sent', 'transport-failed'], 'auto-pong') == 'sent':
                        w = mk(ip, T.Bytes(BYTES), 'wire_pong')
                        st.ghost.setdefault('wire_log', []).append(w)
        return None

    def ensures(self, ip, a, old, res):
        st = ip.st
        W = st.ghost['W']
        w = wire_since(ip, old)
        out = []
        if is_event(ip, a.event, events.Ready):
            out += [('ready-set', st.get(a.self, '_ready') if not isinstance(st.get(a.self, '_ready'), bool) else BoolVal(st.get(a.self, '_ready'))),
                    ('timers-initialised', And(*[Not(opt(st.get(a.self, f))[0]) for f in ('_last_pong', '_next_ping', '_start_time')])),
                    ('last-pong-and-next-ping-zero', And(opt(st.get(a.self, '_last_pong'))[1] == 0, opt(st.get(a.self, '_next_ping'))[1] == 0), ('C15',)),
                    ('session-clock-starts-now', opt(st.get(a.self, '_start_time'))[1] == st.ghost.get('clock', RealVal(0)), ('C15',))
                    if ip.reading == 'body' else ('session-clock-starts', BoolVal(True)),
                    ('nothing-written', BoolVal(len(w) == 0))]
        elif is_event(ip, a.event, events.Ping):
            truthy = ip.truth(a.auto_pong)
            ap = BoolVal(truthy) if isinstance(truthy, bool) else truthy
            out += [('at-most-one-frame', BoolVal(len(w) <= 1), ('C14',)),
                    ('no-pong-without-auto_pong', Implies(Not(ap), BoolVal(len(w) == 0)), ('C14',)),
                    ('no-pong-unless-open', Implies(Not(self.can_write(ip, old)), BoolVal(len(w) == 0)), ('C14',)),
                    ('closing-flag-untouched', st.get(W.state, 'closing') == old.get(W.state, 'closing'))]
            if len(w) == 1:
                d = rfc6455.decode_one(w[0])
                out += [(n, f, ('C14',)) for n, f in payload_facts(w[0], d, 10, 0, st.get(a.event, 'data'))]
            if ip.reading == 'body':
                from pyvc.contracts import calls_since
                cs = calls_since(ip, old, 'WebsocketSession._send_pong')
                if truthy is True:
                    out.append(('the-pong-is-attempted-exactly-once-for-this-ping', BoolVal(len(cs) == 1 and cs[0].event == a.event), ('C14',)))
                elif truthy is False:
                    out.append(('no-pong-attempt-without-auto_pong', BoolVal(len(cs) == 0), ('C14',)))
        else:
            out.append(('nothing-written', BoolVal(len(w) == 0)))
            if is_event(ip, a.event, events.Pong) and ip.reading == 'body':
                n, lp = opt(st.get(a.self, '_last_pong'))
                sn, s0 = opt(old.get(a.self, '_start_time'))
                out.append(('last-pong-is-now', And(Not(n), lp == st.ghost.get('clock', RealVal(0)) - s0), ('C15',)))
        if not is_event(ip, a.event, events.Ready):
            out.append(('ready-flag-untouched', st.get(a.self, '_ready') == old.get(a.self, '_ready')))
        return out


@contract('lomond.session.WebsocketSession._connect', serves=[], external=True)   # body: contracts/connect.py
class Connect(Contract):
    """interface: a connected socket and the proxy URL used (or None); or _SocketFail / any other
    exception, in which case the session holds no socket"""
    def raises(self, ip, a, old):
        return [Raises(_SocketFail, when=None, modifies=[]), Raises(Exception, 'other', when=None, modifies=[])]

    def result(self, ip, a, old):
        st = ip.st
        W = st.ghost['W']
        st.ghost['sock_created'] = True
        return (W.sock, mk(ip, T.Opt(T.Str), 'proxy_url'))


@contract('lomond.session.WebsocketSession._send_request', serves=['C09', 'C10', 'C19'])
class SendRequest(Contract):
    """exactly one write, of the websocket's request; a refused or failed write surfaces as a
    WebSocketError subclass and writes nothing"""
    def setup(self, ip, v):
        W = world(ip, session='some')
        return dict(self=W.session)

    def requires(self, ip, a):
        W = ip.st.ghost['W']
        g = ip.st.ghost[W.lock.key]
        return [('lock-free-or-reentrant', BoolVal(g['held'] == 0 or g['reentrant']))]

    def raises(self, ip, a, old):
        return write_raises(ip, ip.st.ghost['W'], old)

    def result(self, ip, a, old):
        st = ip.st
        w = mk(ip, T.Bytes(BYTES), 'wire_request')
        st.ghost.setdefault('wire_log', []).append(w)
        st.ghost['request_bytes'] = w
        return None

    def ensures(self, ip, a, old, res):
        w = wire_since(ip, old)
        return [('exactly-one-write', BoolVal(len(w) == 1))]


@contract('lomond.selectors.PollSelector.__init__', serves=[], external=True)
class PollSelectorInit(Contract):
    """ASSUMED: constructing the OS poll object on a just-connected socket does not raise
    (DESIGN C09: the one call of run() outside its try; recorded as an assumption)"""
    def modifies(self, ip, a):
        return []

    def result(self, ip, a, old):
        st = ip.st
        st.heap[a.self.oid].f['_socket'] = a.socket
        st.heap[a.self.oid].f['$closed'] = False
        st.ghost['selector'] = a.self
        ip.st.ghost.setdefault('assumed', set()).add('selector construction (select.poll(), register) does not raise')
        return None


class _SelectorClose(Contract):
    def modifies(self, ip, a):
        return [('heap', a.self, '$closed', T.Const(True))]

    def result(self, ip, a, old):
        return None


@contract('lomond.selectors.SelectorBase.close', serves=[], external=True)
class SelectorClose(_SelectorClose):
    """ASSUMED: closing the selector does not raise; ghost flag $closed records it"""


REG.inline.discard('lomond.selectors.SelectorBase.close')


# ------------------------------------------------------------------------------- run
def phase(st):
    return st.ghost['self_gen']['phase']


def event_class(ip, v):
    if isinstance(v, ORef):
        return ip.st.obj(v).cls
    return None


@contract('lomond.session.WebsocketSession.run', serves=['C01', 'C04', 'C07', 'C08', 'C09', 'C13', 'C14', 'C15', 'C18', 'C19'])
class Run(ProducerContract):
    """the connection's event iterator.  Ghost monitor $phase (spec/monitor.py, transcribed from
    C07) is advanced at EVERY yield; no exception other than GeneratorExit leaves the generator;
    every normal exit is in phase Done with the socket released; closing the generator at ANY
    yield releases the socket and the selector (C13)."""
    def variants(self):
        return ['T-real', 'T-none']

    # ---- loops and yield sites of run() by ROLE: the cycle loop (while), the loop over websocket.feed(data), a loop
    # over _regular() nested in the feed loop ("after every event"), a loop over _regular() outside it ("once per
    # cycle") - so that moving or re-ordering them neither mis-attributes a clause nor hides a missing evaluation
    @staticmethod
    def _structure(node):
        import ast
        par = {}
        for n in ast.walk(node):
            for ch in ast.iter_child_nodes(n):
                par[id(ch)] = n

        def fors_above(n):
            out = []
            while id(n) in par:
                n = par[id(n)]
                if isinstance(n, (ast.FunctionDef, ast.Lambda)) and n is not node:
                    return None
                if isinstance(n, ast.For):
                    out.append(ast.unparse(n.iter))
            return out

        def role(n, own=None):
            chain = ([own] if own is not None else []) + (fors_above(n) or [])
            if not chain:
                return None
            if '_regular()' in chain[0]:
                return 'regular-after-event' if any('.feed(' in x for x in chain[1:]) else 'regular-per-cycle'
            if '.feed(' in chain[0]:
                return 'feed'
            return None
        return role

    def loop_keys(self, node, llist):
        import ast
        role = self._structure(node)
        want = {'regular-per-cycle': 1, 'feed': 2, 'regular-after-event': 3}
        ks, rest = [], iter([0] + list(range(4, 4 + len(llist))))
        for l in llist:
            r = role(l, ast.unparse(l.iter)) if isinstance(l, ast.For) else None
            ks.append(want[r] if r in want else next(rest))
        return ks

    def site_keys_ast(self, node, ylist):
        role = self._structure(node)
        want = {'regular-per-cycle': 5, 'feed': 6, 'regular-after-event': 7}
        n_other = len([y for y in ylist if role(y) not in want])
        rest = iter(list(range(0, 5)) + list(range(8, 8 + max(0, n_other - 5))))
        return [want[role(y)] if role(y) in want else next(rest) for y in ylist]

    def _loop_var(self, k):
        import ast
        from pyvc import source
        node, _ms = source.node_of(WebsocketSession.run)
        role = self._structure(node)
        want = {5: 'regular-per-cycle', 6: 'feed', 7: 'regular-after-event'}[k]
        for l in ast.walk(node):
            if isinstance(l, ast.For) and isinstance(l.target, ast.Name) and role(l, ast.unparse(l.iter)) == want:
                return l.target.id
        return None

    def setup(self, ip, v):
        W = world(ip, session='some', sock='none')
        st = ip.st
        hs(st), hsw(st), rej(st)
        st.assume(Not(hs(st)), Not(hsw(st)), Not(rej(st)))
        st.heap[W.session.oid].f['_ready'] = False
        st.heap[W.state.oid].f['closed'] = BoolVal(False)
        st.heap[W.state.oid].f['closing'] = BoolVal(False)
        st.ghost['clock'] = fresh('clock0', R)
        return dict(self=W.session, poll=mk(ip, T.Real(0), 'poll'), ping_rate=mk(ip, T.Real(0), 'ping_rate'),
                    ping_timeout=mk(ip, T.Real, 'ping_timeout') if v == 'T-real' else None,
                    auto_pong=mk(ip, T.Bool, 'auto_pong'), close_timeout=mk(ip, T.Opt(T.Real), 'close_timeout'))

    def requires(self, ip, a):
        W = ip.st.ghost['W']
        g = ip.st.ghost[W.lock.key]
        return [('lock-free', BoolVal(g['held'] == 0))]

    def gen_ghost(self, ip, a):
        return dict(phase=IntVal(START))

    def ghost_types(self):
        return dict(phase=T.Int(0, 4))

    # ---- the monitor, at every yield of the body
    def at_yield(self, ip, k, v, node):
        st = ip.st
        W = st.ghost['W']
        g = st.ghost['self_gen']
        cls = event_class(ip, v)
        name = cls.__name__ if cls is not None else repr(v)
        nxt = allowed_next(g['phase'], cls)
        if nxt is None:
            st.oblige('yield%d:yields-an-event-object' % k, BoolVal(False), tags=('C07',))
            raise PathEnd('not an event')
        ok, newphase = nxt
        st.oblige('yield%d(%s):allowed-in-current-phase' % (k, name), ok, tags=('C07',))
        if cls is events.Disconnected:
            gr = st.get(v, 'graceful')
            graceful = BoolVal(gr) if isinstance(gr, bool) else gr
            started = Or(st.get(W.state, 'closing'), st.get(W.state, 'closed'))
            st.oblige('yield%d(Disconnected):graceful-only-if-closing-handshake-started' % k, Implies(graceful, started), tags=('C09', 'C08'))
            st.oblige('yield%d(Disconnected):socket-released' % k, sock_is_none(st.get(W.session, '_sock')), tags=('C09', 'C08', 'C04'))
        if cls is events.ConnectFail:
            st.oblige('yield%d(ConnectFail):no-socket-kept' % k, sock_is_none(st.get(W.session, '_sock')), tags=('C09', 'C19'))
            st.oblige('yield%d(ConnectFail):nothing-of-the-handshake-written' % k, BoolVal(st.ghost.get('request_bytes') is None), tags=('C19',))
        if cls is events.Connected:
            st.oblige('yield%d(Connected):request-written-exactly-once' % k, BoolVal(st.ghost.get('request_bytes') is not None), tags=('C10', 'C19'))
        g['phase'] = newphase
        # ---- every event obtained from a producer is handed on itself, exactly once (C01), and the
        # library's own reaction to it (auto-pong, timers) happened BEFORE the application sees it (C14)
        if k in (5, 6, 7):
            cur = ip.env.vars.get(self._loop_var(k))
            st.oblige('yield%d(%s):hands-on-the-very-event-object-it-got' % (k, name), BoolVal(isinstance(cur, ORef) and cur == v), tags=('C01', 'C07'))
            seen = st.ghost.setdefault('handed_on', [])
            st.oblige('yield%d(%s):each-event-handed-on-once' % (k, name), BoolVal(isinstance(v, ORef) and v.oid not in seen), tags=('C01',))
            if isinstance(v, ORef):
                seen.append(v.oid)
        if k == 6:
            log = st.ghost.get('on_event_log', [])
            st.oblige('yield6(%s):library-reaction(auto-pong, timers)-precedes-the-application' % name,
                      BoolVal(bool(log) and isinstance(v, ORef) and log[-1][0] == v.oid and log[-1][1] is ip.args.auto_pong), tags=('C14', 'C15', 'C18'))
        st.ghost.setdefault('yield_trace', []).append((k, name))
        if st.choose(['resume', 'close'], 'yield%d' % k) == 'close':
            st.ghost['closing_at'] = (k, name, v, st.snapshot())
            raise PyRaise(ExcVal(GeneratorExit, tag='closed-at-yield%d' % k))
        pre = st.snapshot()
        # the application reacts: it may send, ping or close() - closing / sent_close_time / $wire
        self.havoc(ip, ip.args, [('heap', W.state, 'closing', T.Bool), ('heap', W.state, 'sent_close_time', T.Opt(T.Real))])
        st.assume(Implies(pre.get(W.state, 'closing'), st.get(W.state, 'closing')))
        return None

    def check_exit(self, ip, a, old, kind, res):
        st = ip.st
        W = st.ghost['W']
        g = st.ghost['self_gen']
        closing = st.ghost.get('closing_at')
        if closing is not None:
            k, name, v, snap = closing
            if kind == 'raise' and res.cls is not GeneratorExit:
                st.oblige('yield%d(%s):on-close:no-other-exception(%s)' % (k, name, res.cls.__name__ if res.cls else 'unknown'), BoolVal(False), tags=('C13',))
                return
            # C13: the socket and the selector are released whichever event the consumer stopped at
            st.oblige('yield%d(%s):on-close:socket-released' % (k, name), sock_is_none(st.get(W.session, '_sock')), tags=('C13',))
            # ... and it is THIS session that releases its own socket (self._close_socket() / self.close()), not whatever
            # session the websocket object refers to by the time the generator is finalised (the object may have been
            # given its next connection in between: `events = ws.connect()` twice)
            if snap.get(W.session, '_sock') is not None:
                own = [q for q, args in st.ghost.get('calls', []) if q.endswith(('WebsocketSession._close_socket', 'WebsocketSession.close'))
                       and getattr(args, 'self', None) == a.self]
                st.oblige('yield%d(%s):on-close:released-by-this-session-itself' % (k, name), BoolVal(bool(own)), tags=('C13',))
            sel = st.ghost.get('selector')
            if sel is not None:
                c = st.get(sel, '$closed')
                st.oblige('yield%d(%s):on-close:selector-closed' % (k, name), BoolVal(c) if isinstance(c, bool) else c, tags=('C13',))
            return
        if kind == 'raise':
            exc = res
            st.oblige('no-exception-escapes-the-iterator:%s%s' % (exc.cls.__name__ if exc.cls else 'unknown-' + exc.base.__name__,
                                                                 ('[' + exc.tag + ']') if exc.tag else ''), BoolVal(False), tags=('C09', 'C07'))
            return
        st.oblige('exhausted:phase-is-Done(exactly one terminal event was yielded, last)', g['phase'] == DONE, tags=('C07', 'C09'))
        st.oblige('exhausted:socket-released', sock_is_none(st.get(W.session, '_sock')), tags=('C09',))
        sel = st.ghost.get('selector')
        if sel is not None:
            c = st.get(sel, '$closed')
            st.oblige('exhausted:selector-closed', BoolVal(c) if isinstance(c, bool) else c, tags=('C09', 'C13'))

    def on_loop_break(self, ip, k):
        if k == 2:
            ip.st.oblige('loop2:events-of-a-read-are-all-delivered(no break out of the feed loop)', BoolVal(False), tags=('C18', 'C01'))

    # ---- loop invariants
    def loop(self, k):
        contract_self = self

        def inv(ip):
            st = ip.st
            W = st.ghost['W']
            g = st.ghost['self_gen']
            ready = st.get(W.session, '_ready')
            ready = BoolVal(ready) if isinstance(ready, bool) else ready
            closed = st.get(W.state, 'closed')
            ph = g['phase']
            timers = And(*[Not(opt(st.get(W.session, f))[0]) for f in ('_last_pong', '_next_ping', '_start_time')])
            sel = st.ghost.get('selector')
            closed = BoolVal(closed) if isinstance(closed, bool) else closed
            out = [('phase-connected-or-ready', Or(ph == CONNECTED, ph == READY), ('C07',)),
                   ('ready-flag-iff-phase-Ready', ready == (ph == READY), ('C07',)),
                   ('timers-initialised-once-ready', Implies(ready, timers)),
                   ('phase-Ready-only-after-the-response-was-accepted', Implies(ph == READY, hsw(st)), ('C07',)),
                   ('response-consumed-means-Ready-or-Rejected', Implies(hsw(st), Or(ph == READY, rej(st))), ('C07',)),
                   ('a-rejected-websocket-is-closed', Implies(rej(st), closed)),
                   ('response-handed-on-iff-turned-into-an-event', hs(st) == hsw(st)),
                   ('selector-open', BoolVal(sel is not None and st.get(sel, '$closed') is False))]
            return out

        def mods(ip):
            st = ip.st
            W = st.ghost['W']
            return [('heap', W.session, '_sock', T.Opt(T.Const(W.sock))),
                    ('heap', W.session, '_poll_start', T.Opt(T.Real)), ('heap', W.session, '_next_ping', T.Opt(T.Real)),
                    ('heap', W.session, '_last_pong', T.Opt(T.Real)), ('heap', W.session, '_start_time', T.Opt(T.Real)),
                    ('heap', W.session, '_ready', T.Bool),
                    ('heap', W.state, 'closing', T.Bool), ('heap', W.state, 'closed', T.Bool),
                    ('heap', W.state, 'sent_close_time', T.Opt(T.Real)),
                    ('heap', W.state, 'compression', T.Opt(T.Const(W.deflate))),
                    ('heap', W.stream, '_decompress', T.Const(None)),
                    ('mem', W.buffer),
                    ('ghost', 'hs', lambda ip: fresh('hs', B)), ('ghost', 'hsw', lambda ip: fresh('hsw', B)),
                    ('ghost', 'rej', lambda ip: fresh('rej', B)),
                    ('ghost', 'clock', lambda ip: fresh('clock', R)),
                    ('ghost', 'self_gen', lambda ip: dict(phase=mk(ip, T.Int(0, 4), 'phase')))]
        def mods_regular(ip):
            # `for event in _regular(): yield event`: the producer touches the poll / ping timers, the
            # application (during the event) may close() or send
            st = ip.st
            W = st.ghost['W']
            return [('heap', W.session, '_poll_start', T.Opt(T.Real)), ('heap', W.session, '_next_ping', T.Opt(T.Real)),
                    ('heap', W.state, 'closing', T.Bool), ('heap', W.state, 'sent_close_time', T.Opt(T.Real)),
                    ('ghost', 'self_gen', lambda ip: dict(phase=mk(ip, T.Int(0, 4), 'phase')))]

        def mods_feed(ip):
            return [m for m in mods(ip) if not (m[0] == 'mem' or (m[0] == 'ghost' and m[1] == 'clock'))]
        locs = {'event': T.Const(None), 'data': T.Const(None), 'readable': T.Bool, 'max_bytes': T.Int(1)}
        def checks_cycle(ip, when):
            # C15 / C07: between two blocking waits the housekeeping (Poll, automatic ping, ping timeout, close timeout) is
            # evaluated at least once WHATEVER the wait returned - otherwise a peer that keeps the socket readable without
            # completing a message (a frame trickled byte by byte) postpones every timer for ever
            if when != 'preserved':
                return []
            vis = ip.st.ghost.get('loops_visited', [])
            last0 = len(vis) - 1 - vis[::-1].index(0) if 0 in vis else -1
            return [('housekeeping-evaluated-in-every-cycle(between two waits, whatever the wait returned)',
                     BoolVal(any(x in (1, 3) for x in vis[last0 + 1:])), ('C15', 'C07'))]
        if k == 0:
            return LoopSpec(inv=inv, modifies=mods, locals=locs, checks=checks_cycle)
        if k in (1, 3):
            return LoopSpec(inv=inv, modifies=mods_regular, locals={'event': T.Const(None)})
        def checks_feed(ip, when):
            st = ip.st
            rl, fl = st.ghost.get('recv_values', []), st.ghost.get('feed_args', [])
            if when == 'entry':
                # the whole result of this cycle's single read is what is fed (C18)
                return [('everything-received-is-fed(the whole read, once)', BoolVal(bool(rl) and bool(fl) and fl[-1] is rl[-1]), ('C18', 'C01'))]
            vis = st.ghost.get('loops_visited', [])
            return [('housekeeping-evaluated-after-every-event', BoolVal(2 in vis and 3 in vis[len(vis) - 1 - vis[::-1].index(2) + 1:]), ('C15', 'C18'))]
        if k == 2:
            return LoopSpec(inv=inv, modifies=mods_feed, locals={'event': T.Const(None)}, checks=checks_feed)
        return None
