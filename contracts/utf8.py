"""Contracts for lomond.utf8validator (C05, C02, C04).  The table itself is checked against the
RFC 3629 automaton by the ground check utf8validator.UTF8VALIDATOR_DFA; here the loop is shown to
run that table over the chunk, starting from the state left by the previous chunk."""
import z3
from z3 import And, Or, Not, If, Implies, IntVal, BoolVal, ForAll, Function, Select

from lomond import utf8validator
from lomond.utf8validator import Utf8Validator

from pyvc.contracts import contract, Contract, T, mk, Raises, REG
from pyvc.loops import LoopSpec
from pyvc.engine import table_array
from pyvc.sval import SBytes, fresh, iv, I, BYTES
from pyvc import sval

REJECT, ACCEPT = 1, 0
# dfa_run(arr, s0, k): state after the first k bytes of arr, starting in s0 (spec-level recursion)
dfa_run = Function('dfa_run', z3.ArraySort(I, I), I, I, I)


def dfa_step(ip, s, b):
    tbl = table_array(ip, utf8validator.UTF8VALIDATOR_DFA)
    return Select(tbl, 256 + 16 * s + Select(tbl, b))


def run_axioms(ip, arr, s0, k):
    """instances of the defining equations of dfa_run at index k"""
    return [dfa_run(arr, s0, IntVal(0)) == s0,
            Implies(k >= 0, dfa_run(arr, s0, k + 1) == dfa_step(ip, dfa_run(arr, s0, k), Select(arr, k)))]


def absorb_lemma(ip, arr, s0, k, m):
    """REJECT is absorbing along a run: run(k) == REJECT and k <= m  =>  run(m) == REJECT.
    One step is the ground check `reject-is-absorbing` (all 256 bytes); lifting it to m - k steps is
    induction on m, a pen-and-paper meta-lemma (listed in the evidence when used)."""
    ip.st.ghost.setdefault('assumed', set()).add('lemma: REJECT absorbing along dfa_run (ground one-step fact lifted by induction)')
    return Implies(And(k >= 0, k <= m, dfa_run(arr, s0, k) == REJECT), dfa_run(arr, s0, m) == REJECT)


def validator_obj(ip, name='validator'):
    return mk(ip, T.Obj(Utf8Validator, _codepoint=T.Int, _state=T.Int(0, 8), _index=T.Int(0)), name)


@contract('lomond.utf8validator.Utf8Validator.reset', serves=['C05', 'C17'])
class Reset(Contract):
    inline_at_calls = True

    def setup(self, ip, v):
        return dict(self=validator_obj(ip))

    def modifies(self, ip, a):
        return [('heap', a.self, '_state', T.Int), ('heap', a.self, '_codepoint', T.Int), ('heap', a.self, '_index', T.Int)]

    def ensures(self, ip, a, old, res):
        st = ip.st
        return [('state-is-ACCEPT', iv(st.get(a.self, '_state')) == ACCEPT), ('index-zero', iv(st.get(a.self, '_index')) == 0)]


REG.transparent('lomond.utf8validator.Utf8Validator.__init__')


def validate_roles():
    """(index, length, running state) of Utf8Validator.validate by role: the loop test compares index < length,
    the running state is the local initialised from self._state"""
    from pyvc.source import Roles
    r = Roles(Utf8Validator.validate)
    names = r.while_test_names(0)
    if len(names) != 2:
        r._fail('index and length of the scan loop')
    return names[0], names[1], r.assigned_from('self._state')


@contract('lomond.utf8validator.Utf8Validator.validate', serves=['C05', 'C02', 'C04'])
class Validate(Contract):
    """valid == the table DFA, run over `ba` from the state left by earlier chunks, never reaches
    REJECT; the state is stored for the next chunk; when invalid the returned index is the first
    byte at which the run rejects (fail-fast), and the validator stays in REJECT"""
    def setup(self, ip, v):
        return dict(self=validator_obj(ip), ba=mk(ip, T.Bytes(BYTES), 'ba'))

    def requires(self, ip, a):
        s0 = iv(ip.st.get(a.self, '_state'))
        return [('state-in-range', And(s0 >= 0, s0 <= 8)), ('ba-is-bytes', BoolVal(isinstance(a.ba, SBytes)))]

    def modifies(self, ip, a):
        return [('heap', a.self, '_state', T.Int(0, 8)), ('heap', a.self, '_index', T.Int)]

    def result(self, ip, a, old):
        return (mk(ip, T.Bool, 'valid'), mk(ip, T.Bool, 'ends_on_cp'), mk(ip, T.Int, 'cur_index'), mk(ip, T.Int, 'total_index'))

    def _run(self, ip, a, old, k):
        arr = a.ba.as_array()
        s0 = iv(old.get(a.self, '_state'))
        for f in run_axioms(ip, arr, s0, k):
            ip.st.assume(f)
        return dfa_run(arr, s0, k)

    def loop(self, k):
        if k != 0:
            return None

        def inv(ip):
            a, old = ip.args, ip.old
            i, l, state = (ip.env.vars[x] for x in validate_roles())
            arr = a.ba.as_array()
            s0 = iv(old.get(a.self, '_state'))
            for f in run_axioms(ip, arr, s0, iv(i)):
                ip.st.assume(f)
            return [('index-bounds', And(iv(i) >= 0, iv(i) <= iv(l))), ('l-is-len', iv(l) == a.ba.n),
                    ('state-is-run-of-prefix', iv(state) == dfa_run(arr, s0, iv(i))),
                    ('state-in-range', And(iv(state) >= 0, iv(state) <= 8)),
                    ('no-reject-after-first-byte', Implies(iv(i) > 0, iv(state) != REJECT)),
                    ('fields-untouched', And(iv(ip.st.get(a.self, '_state')) == s0,
                                             iv(ip.st.get(a.self, '_index')) == iv(old.get(a.self, '_index'))))]
        return LoopSpec(inv=inv, decreases=lambda ip: iv(ip.env.vars[validate_roles()[1]]) - iv(ip.env.vars[validate_roles()[0]]))

    def ensures(self, ip, a, old, res):
        st = ip.st
        if not (isinstance(res, tuple) and len(res) == 4):
            return [('returns-a-quad', BoolVal(False))]
        valid, ends, cur, total = res
        arr = a.ba.as_array()
        s0 = iv(old.get(a.self, '_state'))
        n = a.ba.n
        valid = valid if not isinstance(valid, bool) else BoolVal(valid)
        ends = ends if not isinstance(ends, bool) else BoolVal(ends)
        final = dfa_run(arr, s0, n)
        s1 = iv(st.get(a.self, '_state'))
        st.assume(absorb_lemma(ip, arr, s0, iv(cur) + 1, n))
        return [
            ('invalid-means-the-whole-chunk-ends-in-REJECT', Implies(Not(valid), final == REJECT)),
            ('valid-implies-whole-chunk-accepted-so-far', Implies(valid, And(iv(cur) == n, s1 == final, Or(n == 0, final != REJECT)))),
            ('valid-ends-on-code-point-iff-ACCEPT', Implies(valid, ends == (final == ACCEPT))),
            ('invalid-names-first-rejecting-byte', Implies(Not(valid), And(iv(cur) >= 0, iv(cur) < n,
                                                                           dfa_run(arr, s0, iv(cur) + 1) == REJECT,
                                                                           Or(iv(cur) == 0, dfa_run(arr, s0, iv(cur)) != REJECT)))),
            ('invalid-leaves-REJECT', Implies(Not(valid), s1 == REJECT)),
            ('state-stays-in-range', And(s1 >= 0, s1 <= 8)),
        ]
