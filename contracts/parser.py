"""Parser.feed - the byte-stream side of the coroutine protocol (C01, C02, C05, C10, C19).

Verified against an ABSTRACT coroutine (any parse() that only ever asks for read / read_utf8 /
read_until and yields outputs): every value sent into the coroutine is exactly the bytes it asked
for - a fresh copy, in stream order, nothing skipped, duplicated or reordered across calls - and
every output of the coroutine is yielded once, in order.  The postcondition is stated over the
ghost equation

        buffered-before ++ data  ==  delivered ++ buffered-after ++ not-yet-consumed

and never over read boundaries, which is what makes the result independent of segmentation (C02).
"""
import z3
from z3 import And, Or, Not, If, Implies, IntVal, BoolVal, ForAll

from lomond import parser as P
from lomond.utf8validator import Utf8Validator

from pyvc.contracts import contract, Contract, ProducerContract, YieldSpec, T, mk, Raises, REG
from pyvc.loops import LoopSpec
from pyvc.engine import PathEnd, PyRaise, Unsupported
from pyvc.sval import (SBytes, SStr, SOpt, ExtObj, ORef, MRef, Rec, Opaque, ExcVal, fresh, iv, cat, beq, bslice,
                       BYTES, BYTEARRAY, MEMVIEW, B, I)
from pyvc import sval, extworld
from contracts.utf8 import validator_obj, dfa_run, run_axioms, absorb_lemma

REG.transparent('lomond.parser._ReadUntil.check_length', 'lomond.parser._Awaitable.validate')

SEP = [13, 10, 13, 10]


# ------------------------------------------------------------------------------- _ReadUtf8.validate
@contract('lomond.parser._ReadUtf8.validate', serves=['C05', 'C02', 'C04'])
class ReadUtf8Validate(Contract):
    """raises ParseError iff the validator, continuing from the state earlier chunks left, rejects
    within this chunk; otherwise the validator has advanced over exactly this chunk"""
    def setup(self, ip, v):
        val = validator_obj(ip)
        aw = mk(ip, T.Obj(P._ReadUtf8, remaining=T.Int(0), utf8_validator=T.Const(val)), 'awaiting')
        return dict(self=aw, data=mk(ip, T.Bytes(BYTES), 'chunk'))

    def requires(self, ip, a):
        val = ip.st.get(a.self, 'utf8_validator')
        s0 = iv(ip.st.get(val, '_state'))
        return [('validator-state-in-range-and-not-rejected', And(s0 >= 0, s0 <= 8, s0 != 1))]

    def modifies(self, ip, a):
        val = ip.st.get(a.self, 'utf8_validator')
        return [('heap', val, '_state', T.Int(0, 8)), ('heap', val, '_index', T.Int)]

    def axioms(self, ip, a):
        val = ip.st.get(a.self, 'utf8_validator')
        b = ip.bytes_of(a.data)
        b = SBytes(BYTES, b.n, b.at, b.arr)
        return run_axioms(ip, b.as_array(), iv(ip.st.get(val, '_state')), IntVal(0))[:1]

    def _final(self, ip, a, old):
        val = ip.st.get(a.self, 'utf8_validator')
        b = SBytes(BYTES, ip.bytes_of(a.data).n, ip.bytes_of(a.data).at, ip.bytes_of(a.data).arr)
        return dfa_run(b.as_array(), iv(old.get(val, '_state')), b.n)

    def raises(self, ip, a, old):
        def rejected(ip2):
            return iv(ip2.st.get(ip2.st.get(a.self, 'utf8_validator'), '_state')) == 1
        return [Raises(P.ParseError, 'invalid-utf8', when=self._final(ip, a, old) == 1, iff=True, modifies=None, tags=('C05', 'C04', 'C01'),
                       ensures=[('validator-left-in-REJECT', rejected, ('C05', 'C04'))])]

    def ensures(self, ip, a, old, res):
        st = ip.st
        val = st.get(a.self, 'utf8_validator')
        return [('validator-advanced-over-the-chunk', iv(st.get(val, '_state')) == self._final(ip, a, old), ('C05', 'C02'))]


# ------------------------------------------------------------------------------- abstract coroutine
def new_awaiting(ip, label):
    """what a coroutine step hands back: a fresh awaitable or an output object"""
    st = ip.st
    kind = st.choose(['read', 'read_utf8', 'read_until', 'output'], 'coroutine-answer:' + label)
    if kind == 'read':
        c = mk(ip, T.Int(0), 'count')
        o = mk(ip, T.Obj(P._ReadBytes, remaining=T.Const(c)), 'awaiting')
        st.heap[o.oid].f['$count'] = c
    elif kind == 'read_utf8':
        c = mk(ip, T.Int(0), 'count')
        val = validator_obj(ip)
        # receives-clause of the coroutine side (checked on FrameParser.parse, yield 6): a validated
        # read is only requested with a validator that has not rejected
        st.assume(iv(st.get(val, '_state')) != 1)
        o = mk(ip, T.Obj(P._ReadUtf8, remaining=T.Const(c), utf8_validator=T.Const(val)), 'awaiting')
        st.heap[o.oid].f['$count'] = c
    elif kind == 'read_until':
        o = mk(ip, T.Obj(P._ReadUntil, sep=T.Const(SBytes.lit(SEP)), max_bytes=T.Opt(T.Int(1))), 'awaiting')
    else:
        o = Opaque(st.fresh_id('output'))
        st.ghost.setdefault('outputs', []).append(o)
    return o


def _coroutine_send(ip, cor, args, kw):
    st = ip.st
    (v,) = args
    b = ip.bytes_of(v)
    aw = st.ghost['awaiting_at_send'] = st.get(st.ghost['parser'], '_awaiting')
    st.ghost.setdefault('sends', []).append(dict(value=v, bytes=SBytes(BYTES, b.n, b.at, b.arr), awaiting=aw,
                                                  buffer_ident=st.get(st.ghost['parser'], '_buffer').ident))
    st.ghost['sends'][-1]['cpos'] = st.ghost['cpos']
    st.ghost['cpos'] = st.ghost['cpos'] + b.n
    extworld.may_raise(ip, 'coroutine.send')
    return new_awaiting(ip, 'send')


def _coroutine_throw(ip, cor, args, kw):
    # coroutines under this parser never resume after a thrown ParseError (checked for
    # FrameParser.parse and ProxyParser.parse): the call always raises
    st = ip.st
    st.ghost.setdefault('throws', []).append(args[0])
    parser = st.ghost.get('parser')
    if parser is not None and getattr(ip, 'args', None) is not None and 'data' in ip.args:
        # the three legitimate reasons to abort the coroutine with a ParseError (C02/C10/C19: in particular the length
        # limit of read_until concerns the bytes UP TO the separator, not whatever else arrived in the same read)
        aw = st.get(parser, '_awaiting')
        reasons = [ip.bytes_of(ip.args.data).n == 0]
        if isinstance(aw, ORef) and st.obj(aw).cls is P._ReadUtf8:
            reasons.append(iv(st.get(st.get(aw, 'utf8_validator'), '_state')) == 1)
        if isinstance(aw, ORef) and st.obj(aw).cls is P._ReadUntil:
            mb = st.get(aw, 'max_bytes')
            buf = ip.bytes_of(st.get(parser, '_buffer'))
            if isinstance(mb, SOpt):
                reasons.append(And(Not(mb.is_none), buf.n > iv(mb.val), no_sep_in(buf, iv(mb.val))))
        st.oblige('throw:only-at-EOF,-on-rejected-UTF-8,-or-when-no-separator-ends-within-max_bytes', Or(*reasons),
                  tags=('C01', 'C02', 'C04', 'C10', 'C19'))
    ip.st.ghost.setdefault('assumed', set()).add('a ParseError thrown into parse() is not swallowed (checked on FrameParser.parse and ProxyParser.parse)')
    raise PyRaise(ExcVal(None, base=Exception, tag='coroutine.throw'))


def _coroutine___next__(ip, cor, args, kw):
    extworld.may_raise(ip, 'coroutine.next')
    return new_awaiting(ip, 'next')


extworld._coroutine_send = _coroutine_send
extworld._coroutine_throw = _coroutine_throw
extworld._coroutine___next__ = _coroutine___next__


def no_sep_in(b, upto=None):
    """no complete CRLFCRLF inside b"""
    p = fresh('np')
    n = b.n if upto is None else upto
    return ForAll([p], Implies(And(p >= 0, p + 4 <= n), Not(And(*[b.at(p + j) == SEP[j] for j in range(4)]))),
                  patterns=[b.at(p)] if b.arr is not None else [])


def RI(ip, parser, aw=None):
    """representation invariant of the parser between coroutine steps"""
    st = ip.st
    aw = aw if aw is not None else st.get(parser, '_awaiting')
    buf = ip.bytes_of(st.get(parser, '_buffer'))
    out = []
    if isinstance(aw, ORef):
        cls = st.obj(aw).cls
        if issubclass(cls, P._ReadBytes):
            rem, cnt = iv(st.get(aw, 'remaining')), iv(st.obj(aw).f['$count'])
            out.append(('read:buffered+remaining==requested', And(buf.n + rem == cnt, rem >= 0)))
            out.append(('read:remaining-positive-while-waiting', Or(rem > 0, cnt == 0)))
            if cls is P._ReadUtf8:
                s = iv(st.get(st.get(aw, 'utf8_validator'), '_state'))
                out.append(('read_utf8:validator-live-and-not-rejected', And(s >= 0, s <= 8, s != 1)))
        elif cls is P._ReadUntil:
            out.append(('read_until:no-complete-separator-buffered', no_sep_in(buf)))
    return out


AW_KINDS = ('read', 'read_utf8', 'read_until')


def make_awaiting(ip, kind, buf_n):
    st = ip.st
    if kind in ('read', 'read_utf8'):
        c = mk(ip, T.Int(0), 'count')
        rem = mk(ip, T.Int(0), 'remaining')
        fields = dict(remaining=T.Const(rem))
        if kind == 'read_utf8':
            val = validator_obj(ip)
            fields['utf8_validator'] = T.Const(val)
        o = mk(ip, T.Obj(P._ReadUtf8 if kind == 'read_utf8' else P._ReadBytes, **fields), 'awaiting')
        st.heap[o.oid].f['$count'] = c
        return o
    return mk(ip, T.Obj(P._ReadUntil, sep=T.Const(SBytes.lit(SEP)), max_bytes=T.Opt(T.Int(1))), 'awaiting')


def feed_roles():
    """(read position, local alias of the parser's buffer) of Parser.feed, by role"""
    from pyvc.source import Roles
    r = Roles(P.Parser.feed)
    pos = [x for x in r.while_test_names(0) if x not in ('len', 'data')]
    if not pos:
        r._fail('the read position')
    return pos[0], r.assigned_from('self._buffer')


@contract('lomond.parser.Parser.feed', serves=['C01', 'C02', 'C05', 'C10', 'C19'])
class ParserFeed(ProducerContract):
    body_only = True

    def variants(self):
        return list(AW_KINDS)

    def setup(self, ip, v):
        st = ip.st
        cor = ExtObj('coroutine', st.fresh_id('cor'))
        # S: everything this parser holds or is given in this call, in stream order - ONE base
        # symbol; the receive buffer and `data` are its two consecutive slices
        S = mk(ip, T.Bytes(BYTES), 'S')
        b0n = mk(ip, T.Int(0), 'buffered')
        st.assume(b0n <= S.n)
        buf = st.alloc(SBytes(BYTEARRAY, b0n, lambda i: S.at(iv(i))), 'ba')
        data = SBytes(BYTES, S.n - b0n, lambda i: S.at(b0n + iv(i)))
        parser = mk(ip, T.Obj(P.Parser, _gen=T.Const(cor), _awaiting=T.Const(None), _buffer=T.Const(buf), _eof=T.Bool), 'parser')
        st.heap[parser.oid].f['_awaiting'] = make_awaiting(ip, v, b0n)
        st.ghost['parser'] = parser
        st.ghost['S'] = S
        st.ghost['cpos'] = IntVal(0)          # bytes of S already delivered to the coroutine
        return dict(self=parser, data=data)

    def requires(self, ip, a):
        return [(n, f) for n, f in RI(ip, a.self)]

    def gen_ghost(self, ip, a):
        return {}

    # ---- the tile equations: _buffer and the unconsumed rest of `data` are consecutive slices of S
    def tile(self, ip, data, pos):
        st = ip.st
        a = ip.args
        S, c = st.ghost['S'], st.ghost['cpos']
        buf = ip.bytes_of(st.get(a.self, '_buffer'))
        d = ip.bytes_of(data)
        pos = iv(pos)
        x = fresh('tx')
        pat_b = [buf.at(x)] if buf.arr is not None else []
        pat_d = [d.at(x)] if d.arr is not None else []
        return [('tile:lengths-add-up(nothing-lost)', And(c >= 0, c + buf.n + (d.n - pos) == S.n)),
                ('tile:buffer-is-the-next-slice-of-the-stream',
                 ForAll([x], Implies(And(x >= 0, x < buf.n), buf.at(x) == S.at(c + x)), patterns=pat_b)),
                ('tile:unconsumed-data-follows-the-buffer',
                 ForAll([x], Implies(And(x >= pos, x < d.n), d.at(x) == S.at(c + buf.n + x - pos)), patterns=pat_d))]

    def at_yield(self, ip, k, v, node):
        st = ip.st
        outs = st.ghost.get('outputs', [])
        st.oblige('yield0:yields-the-coroutines-latest-output-object', BoolVal(bool(outs) and v is outs[-1]), tags=('C01',))
        ys = st.ghost.setdefault('yielded', [])
        st.oblige('yield0:each-output-yielded-once', BoolVal(all(v is not y for y in ys)), tags=('C01',))
        ys.append(v)
        if st.choose(['resume', 'close'], 'yield0') == 'close':
            st.ghost['closing_at'] = (k, None, v, st.snapshot())
            raise PyRaise(ExcVal(GeneratorExit, tag='closed-at-yield0'))
        return None

    def check_sends(self, ip):
        """every value handed to the coroutine in this path segment"""
        st = ip.st
        a = ip.args
        for i, s in enumerate(st.ghost.get('sends', [])):
            if s.get('checked'):
                continue
            s['checked'] = True
            aw = s['awaiting']
            v = s['value']
            st.oblige('send:value-is-a-fresh-copy-not-the-receive-buffer', BoolVal(isinstance(v, MRef) and v.ident != s['buffer_ident']), tags=('C01', 'C02'))
            j = fresh('sj')
            S = st.ghost['S']
            st.oblige('send:value-is-exactly-the-next-bytes-of-the-stream(no gap, no overlap, in order)',
                      ForAll([j], Implies(And(j >= 0, j < s['bytes'].n), s['bytes'].at(j) == S.at(s['cpos'] + j))), tags=('C01', 'C02'))
            if isinstance(aw, ORef) and issubclass(st.obj(aw).cls, P._ReadBytes):
                st.oblige('send:read(n)-gets-exactly-n-bytes', s['bytes'].n == iv(st.obj(aw).f['$count']), tags=('C01', 'C02'))
            elif isinstance(aw, ORef) and st.obj(aw).cls is P._ReadUntil:
                b = s['bytes']
                st.oblige('send:read_until-gets-bytes-ending-with-the-separator',
                          And(b.n >= 4, *[b.at(b.n - 4 + j) == SEP[j] for j in range(4)]), tags=('C02', 'C10'))
                st.oblige('send:read_until-stops-at-the-FIRST-separator', no_sep_in(b, b.n - 1), tags=('C02', 'C10'))
                mb = st.get(aw, 'max_bytes')
                if isinstance(mb, SOpt):
                    st.oblige('send:read_until-result-within-max_bytes', Implies(Not(mb.is_none), b.n <= iv(mb.val)), tags=('C02', 'C10', 'C19'))
            else:
                st.oblige('send:only-while-an-awaitable-is-pending', BoolVal(False))

    def check_exit(self, ip, a, old, kind, res):
        st = ip.st
        self.check_sends(ip)
        if st.ghost.get('closing_at') is not None:
            return
        if kind == 'return':
            if st.ghost.get('loop0_entered') is None and False:
                return
            data = ip.env.vars.get('data', a.data)
            pos = ip.env.vars.get(feed_roles()[0], 0)
            for n, f in self.tile(ip, data, pos):
                st.oblige('exhausted:' + n, f, tags=('C01', 'C02'))
            st.oblige('exhausted:all-of-data-was-consumed', iv(pos) == ip.bytes_of(data).n, tags=('C01', 'C18'))
            for n, f in RI(ip, a.self):
                st.oblige('exhausted:' + n, f, tags=('C01', 'C02'))
            aw = st.get(a.self, '_awaiting')
            st.oblige('exhausted:an-awaitable-is-pending', BoolVal(isinstance(aw, ORef) and issubclass(st.obj(aw).cls, P._Awaitable)))
            return
        # exceptions: the coroutine's own (any), or ParseError from EOF / length check / utf-8 check
        return

    def loop(self, k):
        contract_self = self

        def inv0(ip):
            st = ip.st
            a = ip.args
            pos_name, buf_name = feed_roles()
            data, pos = ip.env.vars['data'], ip.env.vars[pos_name]
            d = ip.bytes_of(data)
            out = [('position-in-range', And(iv(pos) >= 0, iv(pos) <= d.n), ('C01',))] + \
                [(n, f, ('C01', 'C02')) for n, f in contract_self.tile(ip, data, pos)] + [
                   ('local-buffer-is-the-parsers-buffer', BoolVal(isinstance(ip.env.vars[buf_name], MRef) and ip.env.vars[buf_name].ident == st.get(a.self, '_buffer').ident))]
            out += [(n, f, ('C01', 'C02')) for n, f in RI(ip, a.self)]
            aw = st.get(a.self, '_awaiting')
            out.append(('an-awaitable-is-pending', BoolVal(isinstance(aw, ORef) and issubclass(st.obj(aw).cls, P._Awaitable))))
            return out

        def mods0(ip):
            st = ip.st
            a = ip.args

            def new_aw(ip):
                kind = ip.st.choose(AW_KINDS, 'loop-head-awaiting')
                o = make_awaiting(ip, kind, None)
                ip.st.heap[a.self.oid].f['_awaiting'] = o
                return True

            def new_cpos(ip):
                return mk(ip, T.Int(0), 'cpos')
            return [('mem', st.get(a.self, '_buffer')), ('heap', a.self, '_awaiting', T.Const(None)),
                    ('heapcls', P._ReadBytes, 'remaining'), ('heapcls', Utf8Validator, '_state'), ('heapcls', Utf8Validator, '_index'),
                    ('ghost', 'cpos', new_cpos),
                    ('ghost', 'aw_havoc', new_aw), ('ghost', 'sends', lambda ip: []), ('ghost', 'outputs', lambda ip: []),
                    ('ghost', 'yielded', lambda ip: [])]

        def inv1(ip):
            st = ip.st
            a = ip.args
            aw = st.get(a.self, '_awaiting')
            out = []
            if isinstance(aw, ORef):
                out += [(n, f) for n, f in RI(ip, a.self)]
            else:
                outs = st.ghost.get('outputs', [])
                out.append(('pending-output-is-the-coroutines-latest', BoolVal(bool(outs) and aw is outs[-1])))
                buf = ip.bytes_of(st.get(a.self, '_buffer'))
                out.append(('buffer-empty-while-an-output-is-pending', buf.n == 0))
            return out

        def mods1(ip):
            st = ip.st
            a = ip.args

            def new_aw(ip):
                o = new_awaiting(ip, 'loop1-head')
                ip.st.heap[a.self.oid].f['_awaiting'] = o
                return True
            return [('heap', a.self, '_awaiting', T.Const(None)), ('ghost', 'aw_havoc', new_aw)]
        if k == 0:
            return LoopSpec(inv=inv0, modifies=mods0, locals={'data': T.Bytes(BYTES), feed_roles()[0]: T.Int(0), 'remaining': T.Int,
                                                              'chunk': T.Const(None), 'chunk_size': T.Int, 'sep': T.Const(None),
                                                              'sep_index': T.Int, 'error': T.Const(None)})
        if k == 1:
            return LoopSpec(inv=inv1, modifies=mods1)
        return None


# ------------------------------------------------------------------------------- consumer view
# Parser.feed composed with a concrete parse(): the coroutine protocol was verified from both
# sides against the same receives-clause (here: Parser.feed delivers exactly the requested bytes;
# contracts/frame_parser.py: given exactly those bytes, parse yields the RFC decoding of them), so
# what a caller of frame_parser.feed(data) sees is the product of the two step machines.  The
# composition itself is the generator meta-rule of DESIGN 2.2 / 4 E (listed as an assumption).
from lomond.frame_parser import FrameParser, ClientFrameParser          # noqa: E402
from lomond.frame import Frame, CompressedFrame                           # noqa: E402
from lomond import errors                                                  # noqa: E402
from spec import rfc6455                                                   # noqa: E402


def hp(st):
    """ghost: the parser has handed on the HTTP header block"""
    if 'hp' not in st.ghost:
        st.ghost['hp'] = fresh('hp0', B)
    return st.ghost['hp']


def frame_guarantee(ip, parser, f):
    """what every frame handed on by a (Client)FrameParser satisfies - the yield-8 obligations of
    FrameParser.parse"""
    st = ip.st
    g = lambda n: iv(st.get(f, n))
    comp = st.get(parser, '_compression')
    comp = BoolVal(comp) if isinstance(comp, bool) else comp
    p = ip.bytes_of(st.get(f, 'payload'))
    m = st.get(f, 'mask')
    client = issubclass(st.obj(parser).cls, ClientFrameParser)
    return [('acceptable-header', rfc6455.valid_server_header(g('fin'), g('rsv1'), g('rsv2'), g('rsv3'), g('opcode'),
                                                               If(BoolVal(m) if isinstance(m, bool) else m, IntVal(1), IntVal(0)) if client else IntVal(0),
                                                               p.n, comp)),
            ('flag-bits', And(*[Or(g(n) == 0, g(n) == 1) for n in ('fin', 'rsv1', 'rsv2', 'rsv3')])),
            ('opcode-4-bits', And(g('opcode') >= 0, g('opcode') < 16))]


def ParserFeed_yields(self, ip, a):
    st = ip.st
    cls = st.obj(a.self).cls
    if not issubclass(cls, FrameParser):
        return self.other_yields(ip, a)

    def make_header(ip, a, g):
        b = mk(ip, T.Bytes(BYTEARRAY), 'header_block')
        n = ip.bytes_of(b).n
        st.assume(n >= 4, n <= 16 * 1024)
        return b

    def after_header(ip, a, g, v):
        ip.st.ghost['hp'] = BoolVal(True)

    def make_frame(ip, a, g):
        fc = ip.st.get(a.self, '_frame_class')
        f = mk(ip, T.Obj(fc, opcode=T.Int(0, 15), payload=T.Bytes(BYTEARRAY), fin=T.Int(0, 1), rsv1=T.Int(0, 1), rsv2=T.Int(0, 1),
                         rsv3=T.Int(0, 1), mask=T.Const(False), masking_key=T.Const(None)), 'frame')
        return f
    ph = st.get(a.self, 'parse_headers')
    ph = BoolVal(ph) if isinstance(ph, bool) else ph
    return [
        YieldSpec('header-block', [0], make=make_header, when=lambda ip, a, g: And(ph, Not(hp(ip.st))), after=after_header,
                  guarantee=lambda ip, a, g, v: [('is-bytearray', BoolVal(isinstance(v, MRef)))]),
        YieldSpec('frame', [0], make=make_frame, when=lambda ip, a, g: Or(Not(ph), hp(ip.st)),
                  guarantee=lambda ip, a, g, v: frame_guarantee(ip, a.self, v)),
    ]


def ParserFeed_p_raises(self, ip, a, old, g):
    cls = ip.st.obj(a.self).cls
    if issubclass(cls, FrameParser):
        return [Raises(P.ParseError, 'parse-error(eof / header too long / invalid utf-8)', when=None),
                Raises(errors.ProtocolError, 'protocol-error(unacceptable frame header)', when=None)]
    return self.other_raises(ip, a, old, g)


def ParserFeed_other_yields(self, ip, a):
    raise Unsupported('Parser.feed on %s: no composed contract' % ip.st.obj(a.self).cls.__name__)


def ParserFeed_other_raises(self, ip, a, old, g):
    return []


ParserFeed.yields = ParserFeed_yields
ParserFeed.p_raises = ParserFeed_p_raises
ParserFeed.other_yields = ParserFeed_other_yields
ParserFeed.other_raises = ParserFeed_other_raises
ParserFeed.start_requires = lambda self, ip, a: []
ParserFeed.p_modifies = lambda self, ip, a: []
