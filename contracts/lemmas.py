"""Lemmas OVER the contracts (C15): the step from the per-evaluation contracts of the housekeeping checks to the
statements about whole histories - "consecutive Polls are at least p and less than 2p apart", "never two automatic
pings within one period", "Unresponsive within p after the timeout expired", "forced disconnect in [c, c + p)".

Each lemma is a straight-line ghost program: build the symbolic world of the contract, assume the inductive
hypothesis about the previous evaluation, CALL the contract (its call-site reading: requires obliged, modifies
havocked, ensures assumed - the body is not looked at, it is verified separately), state the conclusion as an
obligation, discharge with the same back ends as everything else.  A change of the code that breaks the contract
fails the body obligations of that function; a change of the CONTRACT that no longer carries the property fails here.

Hypothesis shared by all four (H-cycle): successive evaluations of the housekeeping checks are at most `poll`
seconds apart.  It rests on (a) the structural obligations discharged on run(): the checks are evaluated before
each read and after every event, with exactly one blocking call per cycle, whose timeout is `poll`;
(b) ASSUMED of the OS selector: wait_readable(timeout) blocks at most `timeout`; (c) ASSUMED: the computation
between two clock readings takes no time (virtual time)."""
import z3
from z3 import And, Or, Not, Implies, BoolVal, RealVal, ToReal

from pyvc.ground import ground
from pyvc.contracts import REG, A
from pyvc.engine import State, Interp, PyRaise, PathEnd, Unsupported
from pyvc.sval import fresh, to_real, R
from pyvc import driver

import contracts.session_misc as M
from contracts.session_misc import opt


def _run(build):
    """explore every path of the ghost program `build(ip)`; returns discharged obligations"""
    obls = []

    def task(st):
        ip = Interp(st, REG, fcontract=None)
        ip.reading = 'body'
        try:
            build(ip)
        except PathEnd:
            return None
        if st.feasible_without_goals():
            obls.extend(st.obls)
        return None
    driver.explore(task)
    out, seen = [], set()
    for o in obls:
        key = (o.name, tuple(x.get_id() for x in o.pc), o.goal.get_id())
        if key in seen:
            continue
        seen.add(key)
        driver.discharge(o, 20000)
        out.append(o)
    return out


def _report(obls, must):
    """one line per lemma name: proved only if every path instance is proved (and at least one exists)"""
    by = {}
    for o in obls:
        by.setdefault(o.name, []).append(o)
    for name in must:
        ls = by.get(name, [])
        if not ls:
            yield (name, None, dict(reason='no path reached this conclusion (vacuous lemma)'), 'z3 (lemma over contracts)')
            continue
        bad = [o for o in ls if o.verdict == 'refuted']
        unk = [o for o in ls if o.verdict not in ('proved', 'refuted')]
        if bad:
            yield (name, False, bad[0].model, bad[0].backend or 'z3')
        elif unk:
            yield (name, None, dict(reason='solver %s' % unk[0].verdict), unk[0].backend or 'z3')
        else:
            yield (name, True, None, '%s (lemma over contracts, %d path%s)' % (ls[0].backend or 'z3', len(ls), '' if len(ls) == 1 else 's'))
    for name in by:
        if name not in must:
            ls = by[name]
            ok = all(o.verdict == 'proved' for o in ls)
            yield (name, True if ok else (False if any(o.verdict == 'refuted' for o in ls) else None), None if ok else ls[0].model, ls[0].backend or 'z3')


@ground('lemmas.C15.poll-spacing', serves=['C15'])
def poll_spacing():
    c = REG.contracts['lomond.session.WebsocketSession._check_poll']
    names = ['first-Poll-at-the-first-evaluation-after-Ready', 'consecutive-Polls-at-least-p-and-less-than-2p-apart',
             'a-Poll-records-its-own-time', 'inductive:no-Poll-keeps-the-last-Poll-time-and-less-than-p-has-passed']

    def build(ip):
        st = ip.st
        bound = c.setup(ip, None)
        a = A(bound)
        p, t = to_real(a.poll), to_real(a.session_time)
        n0, v0 = opt(st.get(a.self, '_poll_start'))
        s, ti = fresh('last_poll', R), fresh('prev_eval', R)
        first = st.choose(['first', 'later'], 'lemma-case') == 'first'
        if first:
            st.assume(p > 0, n0)                      # _on_ready has not run a poll yet: _poll_start is None
        else:
            # inductive hypothesis: the last Poll was at s; the previous evaluation (at ti) did not fire; H-cycle
            st.assume(p > 0, Not(n0), v0 == s, ti >= s, ti - s < p, t >= ti, t - ti <= p)
        r = c.apply(ip, bound)
        r = BoolVal(r) if isinstance(r, bool) else r
        n1, v1 = opt(st.get(a.self, '_poll_start'))
        if first:
            st.oblige(names[0], r)
        else:
            st.oblige(names[1], Implies(r, And(t - s >= p, t - s < 2 * p)))
            st.oblige(names[3], Implies(Not(r), And(Not(n1), v1 == s, t - s < p)))
        st.oblige(names[2], Implies(r, And(Not(n1), v1 == t)))
    for x in _report(_run(build), names):
        yield x


@ground('lemmas.C15.auto-ping-grid', serves=['C15'])
def auto_ping_grid():
    c = REG.contracts['lomond.session.WebsocketSession._check_auto_ping']
    names = ['after-a-ping-the-next-one-is-due-at-the-next-grid-point(less-than-one-period-away)',
             'never-two-pings-without-a-grid-point-between-them', 'no-ping-unless-the-grid-point-has-passed',
             'rate-0-never-pings']

    def build(ip):
        st = ip.st
        bound = c.setup(ip, None)
        a = A(bound)
        r, t1 = to_real(a.ping_rate), to_real(a.session_time)
        n0, np0 = opt(st.get(a.self, '_next_ping'))
        zero = st.choose(['rate>0', 'rate==0'], 'lemma-case') == 'rate==0'
        st.assume(Not(n0), np0 >= 0, t1 >= 0)
        st.assume(r == 0 if zero else r > 0)
        w0 = len(st.ghost.get('wire_log', []))
        c.apply(ip, bound)
        w1 = len(st.ghost.get('wire_log', []))
        n1, np1 = opt(st.get(a.self, '_next_ping'))
        if zero:
            st.oblige(names[3], BoolVal(w1 == w0))
            return
        due1 = t1 > np0
        st.oblige(names[2], Implies(Not(due1), BoolVal(w1 == w0)))
        st.oblige(names[0], Implies(due1, And(Not(n1), np1 >= t1, np1 - t1 < r)))
        # second evaluation, later
        t2 = fresh('t2', R)
        st.assume(t2 >= t1)
        bound2 = dict(bound, session_time=t2)
        c.apply(ip, bound2)
        w2 = len(st.ghost.get('wire_log', []))
        # a second ping (w2 > w1) after a first one at t1 needs t2 > np1 >= t1, and np1 is a multiple of r
        st.oblige(names[1], Implies(And(due1, BoolVal(w2 > w1)), And(np1 >= t1, np1 < t2)))
    for x in _report(_run(build), names):
        yield x


@ground('lemmas.C15.ping-timeout', serves=['C15', 'C07'])
def ping_timeout():
    c = REG.contracts['lomond.session.WebsocketSession._check_ping_timeout']
    names = ['Unresponsive-only-after-more-than-T-of-silence-and-at-most-p-later', 'no-timeout-configured-never-Unresponsive']

    def build(ip):
        st = ip.st
        v = st.choose(['real', 'none'], 'lemma-variant')
        bound = c.setup(ip, v)
        a = A(bound)
        t = to_real(a.session_time)
        if v == 'none':
            r = c.apply(ip, bound)
            st.oblige(names[1], Not(BoolVal(r) if isinstance(r, bool) else r))
            return
        n, lp = opt(st.get(a.self, '_last_pong'))
        tn, T_ = opt(a.ping_timeout)
        T_ = to_real(T_)
        p, ti = fresh('poll', R), fresh('prev_eval', R)
        # inductive hypothesis: at the previous evaluation the timeout had not expired; H-cycle
        st.assume(Not(n), Not(tn), T_ > 0, p > 0, ti >= lp, ti - lp <= T_, t >= ti, t - ti <= p)
        r = c.apply(ip, bound)
        r = BoolVal(r) if isinstance(r, bool) else r
        st.oblige(names[0], And(r == (t - lp > T_), Implies(r, t - lp <= T_ + p)))
    for x in _report(_run(build), names):
        yield x


@ground('lemmas.C15.close-timeout', serves=['C15', 'C07'])
def close_timeout():
    c = REG.contracts['lomond.session.WebsocketSession._check_close_timeout']
    names = ['forced-disconnect-in-[sent+c,sent+c+p)', 'no-forced-disconnect-before-sent+c', 'no-close-timeout-or-no-Close-sent:never-forced']

    def build(ip):
        st = ip.st
        v = st.choose(['real', 'none'], 'lemma-variant')
        bound = c.setup(ip, v)
        a = A(bound)
        W = st.ghost['W']
        t = to_real(a.session_time)
        n, sc = opt(st.get(W.state, 'sent_close_time'))
        if v == 'none':
            try:
                c.apply(ip, bound)
                st.oblige(names[2], BoolVal(True))
            except PyRaise:
                st.oblige(names[2], BoolVal(False))
            return
        cn, cc = opt(a.close_timeout)
        cc = to_real(cc)
        case = st.choose(['sent', 'not-sent'], 'lemma-case')
        p, ti = fresh('poll', R), fresh('prev_eval', R)
        if case == 'not-sent':
            st.assume(n)
            try:
                c.apply(ip, bound)
                st.oblige(names[2], BoolVal(True))
            except PyRaise:
                st.oblige(names[2], BoolVal(False))
            return
        # a Close was sent at session time sc >= 0 (0.0 included: sent before / at Ready); the previous evaluation
        # (at ti) was before the deadline; H-cycle
        st.assume(Not(n), Not(cn), cc > 0, sc >= 0, p > 0, ti >= sc, ti < sc + cc, t >= ti, t - ti <= p)
        try:
            c.apply(ip, bound)
            st.oblige(names[1], t < sc + cc)
        except PyRaise:
            st.oblige(names[0], And(t >= sc + cc, t < sc + cc + p))
    for x in _report(_run(build), names):
        yield x
