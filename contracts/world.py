"""The symbolic pre-state shared by the contracts: one WebSocket -> State -> (stream, session) graph
with every field symbolic.  FIELDS is the field inventory (sorts) of the per-connection and
configuration state; C17's scan checks that every attribute assigned anywhere in the package
appears here."""
import z3
from z3 import And, Or, Not, Implies, IntVal, BoolVal, RealVal

from lomond.websocket import WebSocket
from lomond.session import WebsocketSession
from lomond.stream import WebsocketStream
from lomond.frame_parser import ClientFrameParser, FrameParser
from lomond.frame import Frame, CompressedFrame
from lomond.utf8validator import Utf8Validator
from lomond.compression import Deflate

from pyvc.contracts import T, mk
from pyvc.sval import SOpt, ExtObj, SBytes, SList, fresh, B, BYTES, BYTEARRAY
from pyvc.engine import SDictV

CONFIG_FIELDS = ('url', 'proxies', 'protocols', 'agent', 'compress', '_headers', 'scheme', 'host', 'port',
                 '_host_port', 'resource')

FIELDS = {
    'WebSocket': dict(url=T.Str, proxies='proxies', protocols='opaque', agent=T.Str, compress=T.Bool,
                      _headers='opaque', scheme=T.Str, host=T.Str, port=T.Int(1, 65535), _host_port=T.Str,
                      resource=T.Str, state='State'),
    'State': dict(stream='WebsocketStream', session='opt WebsocketSession', key=T.Bytes(BYTES),
                  sent_request=T.Bool, closing=T.Bool, closed=T.Bool, sent_close_time=T.Opt(T.Real),
                  compression='opt Deflate'),
    'WebsocketSession': dict(websocket='WebSocket', _address='opaque', _lock='lock', _sock='opt socket',
                             _poll_start=T.Opt(T.Real), _next_ping=T.Opt(T.Real), _last_pong=T.Opt(T.Real),
                             _start_time=T.Opt(T.Real), _ready=T.Bool, _buffer='buffer'),
    'WebsocketStream': dict(frame_parser='ClientFrameParser', _parsed_response=T.Bool, _frames='frames',
                            _decompress='opt decompress'),
    'ClientFrameParser': dict(parse_headers=T.Bool, validate=T.Bool, _is_text=T.Bool,
                              _utf8_validator='Utf8Validator', _frame_class='frame class', _compression=T.Bool,
                              _gen='coroutine', _awaiting='awaitable', _buffer='bytearray', _eof=T.Bool),
    'Utf8Validator': dict(_codepoint=T.Int, _state=T.Int(0, 8), _index=T.Int(0)),
    'Deflate': dict(decompress_wbits=T.Int, compress_wbits=T.Int, reset_decompress=T.Bool, reset_compress=T.Bool,
                    _compressobj='zlib compressobj', _decompressobj='zlib decompressobj'),
}


class World:
    """handles to the symbolic objects"""
    pass


def world(ip, sock='opt', session='some', compression='opt', lock_held=False, reentrant=False):
    """build the graph in ip.st; `sock`: 'opt' (symbolic None-or-socket), 'some', 'none';
    `session`: 'some' | 'opt'; `compression`: 'opt' | 'none' | 'some'"""
    st = ip.st
    W = World()
    W.ws = st.new_obj(WebSocket)
    W.state = st.new_obj(WebSocket.State)
    W.session = st.new_obj(WebsocketSession)
    W.stream = st.new_obj(WebsocketStream)
    W.lock = ExtObj('lock', st.fresh_id('lock'))
    st.ghost[W.lock.key] = dict(held=1 if lock_held else 0, reentrant=reentrant)
    W.sock = ExtObj('socket', st.fresh_id('sock'))
    st.ghost[('lock_of', W.sock.key)] = W.lock
    W.deflate = st.new_obj(Deflate)
    d = st.heap[W.deflate.oid].f
    d.update(decompress_wbits=mk(ip, T.Int(8, 15), 'dwbits'), compress_wbits=mk(ip, T.Int(8, 15), 'cwbits'),
             reset_decompress=mk(ip, T.Bool, 'reset_d'), reset_compress=mk(ip, T.Bool, 'reset_c'),
             _compressobj=ExtObj('zcompress', st.fresh_id('zc')), _decompressobj=ExtObj('zdecompress', st.fresh_id('zd')))

    w = st.heap[W.ws.oid].f
    w.update(url=mk(ip, T.Str, 'url'), proxies=SDictV('proxies'), protocols=None, agent=mk(ip, T.Str, 'agent'),
             compress=mk(ip, T.Bool, 'ws_compress'), _headers=None, scheme=mk(ip, T.Str, 'scheme'),
             host=mk(ip, T.Str, 'host'), port=mk(ip, T.Int(1, 65535), 'port'), _host_port=mk(ip, T.Str, 'host_port'),
             resource=mk(ip, T.Str, 'resource'), state=W.state)
    s = st.heap[W.state.oid].f
    sess_val = W.session if session == 'some' else SOpt(fresh('session_isnone', B), W.session)
    comp_val = None if compression == 'none' else (W.deflate if compression == 'some'
                                                   else SOpt(fresh('compression_isnone', B), W.deflate))
    s.update(stream=W.stream, session=sess_val, key=mk(ip, T.Bytes(BYTES), 'wskey'),
             sent_request=mk(ip, T.Bool, 'sent_request'), closing=mk(ip, T.Bool, 'closing'),
             closed=mk(ip, T.Bool, 'closed'), sent_close_time=mk(ip, T.Opt(T.Real), 'sent_close_time'),
             compression=comp_val)
    W.buffer = st.alloc(SBytes(BYTEARRAY, IntVal(65536), lambda i: IntVal(0)), 'ba')
    se = st.heap[W.session.oid].f
    sock_val = None if sock == 'none' else (W.sock if sock == 'some' else SOpt(fresh('sock_isnone', B), W.sock))
    se.update(websocket=W.ws, _address=None, _lock=W.lock, _sock=sock_val,
              _poll_start=mk(ip, T.Opt(T.Real), 'poll_start'), _next_ping=mk(ip, T.Opt(T.Real), 'next_ping'),
              _last_pong=mk(ip, T.Opt(T.Real), 'last_pong'), _start_time=mk(ip, T.Opt(T.Real), 'start_time'),
              _ready=mk(ip, T.Bool, 'ready'), _buffer=W.buffer)
    stf = st.heap[W.stream.oid].f
    stf.update(frame_parser=None, _parsed_response=mk(ip, T.Bool, 'parsed_response'), _frames=None, _decompress=None)
    st.ghost['wire_log'] = []
    st.ghost['W'] = W
    return W


def closing(st, W):
    return st.get(W.state, 'closing')


def closed(st, W):
    return st.get(W.state, 'closed')


def sock_is_none(v):
    if v is None:
        return BoolVal(True)
    if isinstance(v, SOpt):
        return v.is_none
    return BoolVal(False)


def wire_since(ip, old):
    """byte strings handed to sendall since the snapshot `old`"""
    n0 = len(old.ghost.get('wire_log', []))
    return ip.st.ghost.get('wire_log', [])[n0:]


# ------------------------------------------------------------------------------- C11 / C12 monitors
def wire_has_close(st):
    """ghost $closes > 0: a Close frame of this connection is on the wire"""
    if 'wc' not in st.ghost:
        st.ghost['wc'] = fresh('wire_has_close0', B)
    return st.ghost['wc']


def I12(st, W, snap=None):
    """monitor invariant protected by the session lock (C12): a Close on the wire implies the
    websocket is closing or closed - so that every later write is refused"""
    s = snap or st
    return Implies(wire_has_close(st), Or(s.get(W.state, 'closing'), s.get(W.state, 'closed')))


def rely_other_threads(ip, W, base):
    """Owicki-Gries rely at a point where this thread may have had to wait for the session lock: starting from the
    flags in `base` (a snapshot), other threads may have closed the websocket - the flags only move forward
    (open -> closing -> closed), the socket may have been released, a Close may have reached the wire - and I12 holds
    whenever the lock is free.  Installs the new values in the heap."""
    st = ip.st
    c0, d0 = base.get(W.state, 'closing'), base.get(W.state, 'closed')
    s0 = base.get(W.session, '_sock')
    c1, d1 = fresh('closing_rely', B), fresh('closed_rely', B)
    st.heap[W.state.oid].f['closing'] = c1
    st.heap[W.state.oid].f['closed'] = d1
    st.assume(Implies(d0, d1), Implies(c0, Or(c1, d1)))
    if isinstance(s0, SOpt):
        st.heap[W.session.oid].f['_sock'] = SOpt(Or(s0.is_none, fresh('sock_gone_rely', B)), s0.val)
    st.ghost['wc'] = Or(wire_has_close(st), fresh('wc_rely', B))
    st.assume(I12(st, W))


def install_flag_monitor(ip, W):
    """interference freedom (Owicki-Gries): every assignment to state.closing / state.closed made
    OUTSIDE the lock must preserve I12, at the granularity of single attribute stores"""
    st = ip.st
    st.assume(I12(st, W))
    base_wire, base_calls = len(st.ghost.get('wire_log', [])), len(st.ghost.get('calls', []))

    def hook(st, ref, field):
        if ref.oid == W.state.oid and field in ('closing', 'closed'):
            locked = st.ghost[W.lock.key]['held'] > 0
            st.oblige('C12:store-to-%s-preserves(Close on the wire => closing or closed)' % field, I12(st, W), tags=('C12',))
        if ref.oid == W.state.oid and field == 'closing':
            # C14 ("while ... the client has not yet sent a Close frame, every Ping is answered"): the flag that makes the
            # library drop Pongs is raised only once the Close frame has been written, or its write has at least been
            # attempted, by this very call - never ahead of it, where another thread's Ping would find it set
            v = st.get(W.state, 'closing')
            raised = v is True or (z3.is_expr(v) and z3.is_true(z3.simplify(v)))
            if raised:
                sends = [q for q, _a in st.ghost.get('calls', [])[base_calls:]
                         if q.endswith(('._send_close', 'WebSocket.close', 'WebsocketSession.send', 'WebsocketSession.write'))]
                attempted = bool(sends) or len(st.ghost.get('wire_log', [])) > base_wire
                st.oblige('C14:closing-flag-raised-only-after-the-Close-write-was-made-or-attempted(never ahead of it)',
                          Or(wire_has_close(st), BoolVal(attempted)), tags=('C14', 'C12'))
    st.ghost['write_hook'] = hook
