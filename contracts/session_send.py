"""Contracts for the sending side: WebsocketSession.write/send/send_compressed and the WebSocket
send API (C03, C08, C09, C11, C12, C14)."""
import inspect

from z3 import And, Or, Not, If, Implies, IntVal, BoolVal, ForAll

from lomond import errors
from lomond.frame import Frame
from lomond.opcode import Opcode
from lomond.session import WebsocketSession
from lomond.websocket import WebSocket

from pyvc.contracts import contract, Contract, T, mk, Raises, REG
from pyvc.sval import SBytes, MRef, SOpt, SStr, Opaque, fresh, iv, BYTES, BYTEARRAY, beq, B
from pyvc import sval
from pyvc.externals import xor8
from spec import rfc6455
from contracts.world import world, sock_is_none, wire_since, wire_has_close, I12, install_flag_monitor, rely_other_threads
from contracts.frame import build_post

REG.transparent(
    'lomond.websocket.WebSocket.is_secure', 'lomond.websocket.WebSocket.is_closing',
    'lomond.websocket.WebSocket.is_active', 'lomond.websocket.WebSocket.sent_close_time',
    'lomond.websocket.WebSocket.is_closed', 'lomond.websocket.WebSocket.supports_compression',
    'lomond.websocket.WebSocket.stream', 'lomond.websocket.WebSocket.session',
    'lomond.websocket.WebSocket.key', 'lomond.session.WebsocketSession.session_time',
)


def write_params():
    return list(inspect.signature(WebsocketSession.write).parameters)


def write_raises(ip, W, old, extra_when=None):
    """the four ways a write is refused; all leave $wire unchanged (C03/C08/C09)"""
    st = ip.st
    sn = sock_is_none(old.get(W.session, '_sock'))
    cl, cg = old.get(W.state, 'closed'), old.get(W.state, 'closing')
    nothing = lambda: [('writes-nothing', BoolVal(len(wire_since(ip, old)) == 0))]
    return [
        Raises(errors.WebSocketClosed, when=And(Not(sn), cl), iff=True, ensures=nothing(), modifies=[]),
        Raises(errors.WebSocketClosing, when=And(Not(sn), Not(cl), cg), iff=True, ensures=nothing(), modifies=[]),
        Raises(errors.WebSocketUnavailable, when=sn, iff=True, ensures=nothing(), modifies=[]),
        Raises(errors.TransportFail, when=And(Not(sn), Not(cl), Not(cg)), iff=False, ensures=nothing(), modifies=[]),
    ]


@contract('lomond.session.WebsocketSession.write', serves=['C03', 'C08', 'C09', 'C11', 'C12', 'C14'])
class Write(Contract):
    """under the session lock: either refuses (WebSocketError subclass, nothing written) or hands
    exactly `data`, once, to sendall"""
    def variants(self):
        return ['plain', 'closing-flag'] if 'closing' in write_params() else ['plain']

    def setup(self, ip, v):
        W = world(ip)
        st = ip.st
        data = mk(ip, T.Bytes(BYTES), 'data')
        st.assume(data.n >= 1, data.at(IntVal(0)) >= 0, data.at(IntVal(0)) < 256)
        d = dict(self=W.session, data=data)
        if 'closing' in write_params():
            d['closing'] = (v == 'closing-flag')
        st.assume(I12(st, W))

        def on_sendall(ip, sock, b):
            # C12: the flags are tested under the lock, so a frame is only sent while open
            ip.st.oblige('C12:sendall-only-while-neither-closing-nor-closed(tested under the lock)',
                         And(Not(ip.st.get(W.state, 'closing')), Not(ip.st.get(W.state, 'closed'))), tags=('C12', 'C08'))
            ip.st.oblige('C11:sendall-under-the-session-lock', BoolVal(ip.st.ghost[W.lock.key]['held'] > 0), tags=('C11',))

        def on_sent(ip, sock, b):
            ip.st.ghost['wc'] = Or(wire_has_close(ip.st), b.at(IntVal(0)) % 16 == 8)

        def on_release(ip, lock):
            # C12 monitor invariant at every release of the session lock
            ip.st.oblige('C12:monitor@release(Close on the wire => closing or closed)', I12(ip.st, W), tags=('C12',))
        def on_acquire(ip, lock):
            # interference (Owicki-Gries rely): before this thread got the lock, other threads may have
            # closed the websocket - the flags only move forward (open -> closing -> closed), the
            # socket may have been released, and I12 holds whenever the lock is free
            st2 = ip.st
            c0, d0 = st2.get(W.state, 'closing'), st2.get(W.state, 'closed')
            s0 = st2.get(W.session, '_sock')
            c1, d1 = fresh('closing_rely', B), fresh('closed_rely', B)
            st2.heap[W.state.oid].f['closing'] = c1
            st2.heap[W.state.oid].f['closed'] = d1
            st2.assume(Implies(d0, d1), Implies(c0, Or(c1, d1)))
            if isinstance(s0, SOpt):
                gone = fresh('sock_gone_rely', B)
                st2.heap[W.session.oid].f['_sock'] = SOpt(Or(s0.is_none, gone), s0.val)
            st2.ghost['wc'] = Or(wire_has_close(st2), fresh('wc_rely', B))
            st2.assume(I12(st2, W))
            st2.ghost['locked_snap'] = st2.snapshot()      # the state as this critical section sees it
        st.ghost['on_acquire'] = on_acquire
        st.ghost['sendall_hook'] = on_sendall
        st.ghost['sent_hook'] = on_sent
        st.ghost['on_release'] = on_release
        return d

    def requires(self, ip, a):
        W = ip.st.ghost['W']
        g = ip.st.ghost[W.lock.key]
        r = [('lock-free-or-reentrant', BoolVal(g['held'] == 0 or g['reentrant'])),
             ('data-is-bytes', BoolVal(ip.is_byteslike(a.data)))]
        if 'closing' in a and ip.is_byteslike(a.data):
            b = ip.bytes_of(a.data)
            flag = BoolVal(a.closing) if isinstance(a.closing, bool) else a.closing
            r.append(('closing-requested-iff-the-frame-is-a-Close', Implies(b.n >= 1, flag == (b.at(IntVal(0)) % 16 == 8)), ('C12',)))
        return r

    def modifies(self, ip, a):
        W = ip.st.ghost['W']
        if 'closing' in a and a.closing is not False:
            return [('heap', W.state, 'closing', T.Bool)]
        return []

    def raises(self, ip, a, old):
        # under concurrency the refusal conditions are those seen inside the critical section
        seen = ip.st.ghost.get('locked_snap') if ip.reading == 'body' else None
        specs = write_raises(ip, ip.st.ghost['W'], seen or old)
        if seen is not None:
            for r in specs:
                r.ensures = [('writes-nothing', BoolVal(len(wire_since(ip, old)) == 0))]
        return specs

    def result(self, ip, a, old):
        ip.st.ghost.setdefault('wire_log', []).append(ip.bytes_of(a.data))
        return None

    def ensures(self, ip, a, old, res):
        st = ip.st
        W = st.ghost['W']
        w = wire_since(ip, old)
        out = [('exactly-one-sendall', BoolVal(len(w) == 1))]
        if len(w) == 1:
            out.append(('sends-data-verbatim', beq(w[0], ip.bytes_of(a.data))))
        if 'closing' in a:
            c1 = st.get(W.state, 'closing')
            c0 = old.get(W.state, 'closing')
            flag = a.closing if isinstance(a.closing, bool) else a.closing
            seen = st.ghost.get('locked_snap') if ip.reading == 'body' else None
            if seen is not None:
                c0 = seen.get(W.state, 'closing')
            out.append(('closing-set-iff-asked', c1 == (Or(c0, flag) if not isinstance(flag, bool) else (BoolVal(True) if flag else c0))))
        g = st.ghost[W.lock.key]
        out.append(('lock-released', BoolVal(g['held'] == old.ghost[W.lock.key]['held'])))
        return out


class _Send(Contract):
    rsv1 = 0

    def variants(self):
        return ['bytes', 'bytearray']

    def setup(self, ip, v):
        W = world(ip)
        return dict(self=W.session, opcode=mk(ip, T.Int(0, 15), 'opcode'),
                    data=mk(ip, T.Bytes(BYTES if v == 'bytes' else BYTEARRAY), 'data'))

    def requires(self, ip, a):
        W = ip.st.ghost['W']
        g = ip.st.ghost[W.lock.key]
        return [('lock-free-or-reentrant', BoolVal(g['held'] == 0 or g['reentrant'])),
                ('opcode-4-bits', And(iv(a.opcode) >= 0, iv(a.opcode) < 16)),
                ('data-is-bytes', BoolVal(ip.is_byteslike(a.data)))]

    def modifies(self, ip, a):
        W = ip.st.ghost['W']
        return [('heap', W.state, 'closing', T.Bool)]

    def raises(self, ip, a, old):
        d = ip.bytes_of(a.data)
        return write_raises(ip, ip.st.ghost['W'], old) + [
            Raises(errors.FrameBuildError, when=d.n >= 2 ** 63, iff=True, modifies=[],
                   ensures=[('writes-nothing', BoolVal(len(wire_since(ip, old)) == 0))])]

    def result(self, ip, a, old):
        w = mk(ip, T.Bytes(BYTES), 'wire_frame')
        ip.st.ghost.setdefault('wire_log', []).append(w)
        return None

    def frame_facts(self, ip, a, old, w):
        d = rfc6455.decode_one(w)
        data0 = old.bytes(a.data) if isinstance(a.data, MRef) else a.data
        return build_post(ip, d, w.n, iv(a.opcode), 1, self.rsv1, 0, 0, True, data0, None)

    def ensures(self, ip, a, old, res):
        st = ip.st
        W = st.ghost['W']
        w = wire_since(ip, old)
        out = [('exactly-one-frame-written', BoolVal(len(w) == 1))]
        if len(w) == 1:
            out += self.frame_facts(ip, a, old, w[0])
        if isinstance(a.data, MRef):
            out.append(('callers-buffer-untouched', beq(ip.bytes_of(a.data), old.bytes(a.data))))
        c0, c1 = old.get(W.state, 'closing'), st.get(W.state, 'closing')
        out.append(('closing-flag', Or(c1 == c0, And(iv(a.opcode) == 8, c1))))
        # C12: the websocket is closing as soon as the lock that ordered the Close frame is released
        out.append(('closing-once-a-Close-frame-is-on-the-wire', Implies(iv(a.opcode) == 8, c1), ('C12',)))
        return out


@contract('lomond.session.WebsocketSession.send', serves=['C03', 'C08', 'C09', 'C11', 'C12', 'C14'])
class Send(_Send):
    rsv1 = 0


# ------------------------------------------------------------------------------- WebSocket API
class _Api(Contract):
    """shared shape of the send_* API contracts, taken from the property statement (C03):
    accepted call -> exactly one frame appended to $wire, which decodes to FIN=1, masked, shortest
    length form, rsv2=rsv3=0, the opcode of the call, payload XOR key == caller's payload;
    unacceptable argument -> TypeError / ValueError and $wire unchanged; transport trouble -> only
    WebSocketError subclasses, $wire unchanged."""
    opcode = None
    control = False
    arg = 'data'

    def world(self, ip):
        return world(ip, session='some')

    def modifies(self, ip, a):
        W = ip.st.ghost['W']
        return [('heap', W.state, 'closing', T.Bool)]

    def result(self, ip, a, old):
        w = mk(ip, T.Bytes(BYTES), 'wire_frame')
        ip.st.ghost.setdefault('wire_log', []).append(w)
        return None

    def nothing(self, ip, old):
        return [('writes-nothing', BoolVal(len(wire_since(ip, old)) == 0))]

    def requires(self, ip, a):
        W = ip.st.ghost['W']
        g = ip.st.ghost[W.lock.key]
        return [('lock-free-or-reentrant', BoolVal(g['held'] == 0 or g['reentrant']))]


def payload_facts(w, d, opcode, rsv1, payload):
    j = fresh('j')
    return [('fin-set', d.fin == 1), ('masked', d.mask == 1), ('rsv1', d.rsv1 == rsv1), ('rsv2-clear', d.rsv2 == 0),
            ('rsv3-clear', d.rsv3 == 0), ('opcode', d.opcode == opcode), ('minimal-length-form', d.minimal),
            ('declared-length', d.plen == payload.n), ('whole-write-is-one-frame', d.total == w.n),
            ('payload-is-xor-with-key-in-frame',
             ForAll([j], Implies(And(j >= 0, j < payload.n), d.payload.at(j) == xor8(payload.at(j), d.key.at(j % 4)))))]


class _ControlApi(_Api):
    """send_ping / send_pong: bytes of at most 125 -> one control frame; else TypeError/ValueError"""
    control = True

    def variants(self):
        return ['bytes', 'bytearray', 'str', 'int', 'none', 'other']

    def setup(self, ip, v):
        W = self.world(ip)
        val = {'bytes': lambda: mk(ip, T.Bytes(BYTES), 'data'), 'bytearray': lambda: mk(ip, T.Bytes(BYTEARRAY), 'data'),
               'str': lambda: mk(ip, T.Str, 'data'), 'int': lambda: mk(ip, T.Int, 'data'), 'none': lambda: None,
               'other': lambda: Opaque('other')}[v]()
        return dict(self=W.ws, data=val)

    def is_bytes(self, a):
        return isinstance(a.data, SBytes) and a.data.kind == BYTES

    def raises(self, ip, a, old):
        W = ip.st.ghost['W']
        if not self.is_bytes(a):
            return [Raises(TypeError, when=BoolVal(True), iff=True, ensures=self.nothing(ip, old), modifies=[])]
        return [Raises(ValueError, when=a.data.n > 125, iff=True, ensures=self.nothing(ip, old), modifies=[])] + \
            write_raises(ip, W, old)

    def ensures(self, ip, a, old, res):
        if not self.is_bytes(a):
            return [('never-returns-normally-for-non-bytes', BoolVal(False))]
        w = wire_since(ip, old)
        out = [('exactly-one-frame-written', BoolVal(len(w) == 1))]
        if len(w) == 1:
            d = rfc6455.decode_one(w[0])
            out += payload_facts(w[0], d, self.opcode, 0, a.data)
            out.append(('control-payload-at-most-125', d.plen <= 125))
        W = ip.st.ghost['W']
        out.append(('closing-flag-untouched', ip.st.get(W.state, 'closing') == old.get(W.state, 'closing')))
        return out


@contract('lomond.websocket.WebSocket.send_ping', serves=['C03', 'C15'])
class SendPing(_ControlApi):
    opcode = Opcode.PING


@contract('lomond.websocket.WebSocket.send_pong', serves=['C03', 'C14'])
class SendPong(_ControlApi):
    opcode = Opcode.PONG


# ------------------------------------------------------------------------------- compressed sends
def sc_params():
    return list(inspect.signature(WebsocketSession.send_compressed).parameters)


@contract('lomond.session.WebsocketSession.send_compressed', serves=['C03', 'C06', 'C11'])
class SendCompressed(_Send):
    """one frame with RSV1 set.  Two shapes are supported: (opcode, data) with data already
    deflated (pinned tree), and (opcode, data, compress) where the session deflates under its own
    lock (repaired tree); in the second shape the frame's payload is compress(data)."""
    rsv1 = 1

    def variants(self):
        if 'compress' in sc_params():
            return ['bytes-nocompress', 'bytes-compress']
        return ['bytes', 'bytearray']

    def setup(self, ip, v):
        from contracts.compression import deflate_obj
        W = world(ip, compression='some', reentrant='compress' in sc_params())
        kind = v.split('-')[0]
        d = dict(self=W.session, opcode=mk(ip, T.Int(0, 15), 'opcode'),
                 data=mk(ip, T.Bytes(BYTES if kind == 'bytes' else BYTEARRAY), 'data'))
        if 'compress' in sc_params():
            d['compress'] = None
            if v.endswith('-compress'):
                from pyvc.engine import BoundMethod
                from lomond.compression import Deflate
                ref, zc, zd = deflate_obj(ip)
                ip.st.heap[W.state.oid].f['compression'] = ref
                d['compress'] = BoundMethod(ref, Deflate.compress, 'compress')
        return d

    def modifies(self, ip, a):
        locs = _Send.modifies(self, ip, a)
        if 'compress' in a and a.compress is not None:
            locs = locs + [('heap', a.compress.recv, '_compressobj', T.Ext('zcompress'))]
        return locs

    def raises(self, ip, a, old):
        specs = _Send.raises(self, ip, a, old)
        if 'compress' in a and a.compress is not None:
            for r in specs:
                # the deflater may already have advanced when the write is refused; the size of
                # the deflated payload (not of the caller's data) decides FrameBuildError
                r.modifies = [('heap', a.compress.recv, '_compressobj', T.Ext('zcompress'))]
                if r.cls is errors.FrameBuildError:
                    r.when, r.iff = None, False
        return specs

    def result(self, ip, a, old):
        st = ip.st
        if 'compress' in a and a.compress is not None:
            W = st.ghost['W']
            held = st.ghost[W.lock.key]
            held['held'] += 1
            try:
                ip.call(a.compress, [a.data], {})
            finally:
                held['held'] -= 1
        w = mk(ip, T.Bytes(BYTES), 'wire_frame')
        st.ghost.setdefault('wire_log', []).append(w)
        return None

    def frame_facts(self, ip, a, old, w):
        d = rfc6455.decode_one(w)
        if 'compress' in a and a.compress is not None:
            log = ip.st.ghost.get('deflate_log', [])[len(old.ghost.get('deflate_log', [])):]
            # C03 / C06 do not oblige the client to compress: a frame that goes out uncompressed (RSV1 clear, the caller's
            # bytes) is fine PROVIDED the shared deflate context was not advanced for it - a message the deflater has seen
            # but the peer never inflates desynchronises every later message under context takeover
            out = [('deflate-context-advanced-at-most-once-and-only-for-what-is-sent', BoolVal(len(log) <= 1))]
            if len(log) == 0:
                data0 = old.bytes(a.data) if isinstance(a.data, MRef) else a.data
                out += build_post(ip, d, w.n, iv(a.opcode), 1, 0, 0, 0, True, data0, None)
            if len(log) == 1:
                zkey, src, deflated, locked = log[0]
                out.append(('deflater-input-is-callers-data', beq(src, ip.bytes_of(a.data))))
                out.append(('deflated-under-the-lock-that-orders-the-wire', BoolVal(bool(locked)), ('C11',)))
                out += build_post(ip, d, w.n, iv(a.opcode), 1, 1, 0, 0, True, deflated, None)
            return out
        data0 = old.bytes(a.data) if isinstance(a.data, MRef) else a.data
        return build_post(ip, d, w.n, iv(a.opcode), 1, 1, 0, 0, True, data0, None)


class _DataApi(_Api):
    """send_text / send_binary"""
    def variants(self):
        return ['%s-%s' % (k, c) for k in ('str', 'bytes', 'bytearray', 'int', 'none', 'other')
                for c in ('compressTrue', 'compressFalse')]

    def setup(self, ip, v):
        kind, c = v.split('-')
        W = world(ip, session='some', reentrant='compress' in sc_params())
        val = {'bytes': lambda: mk(ip, T.Bytes(BYTES), 'data'), 'bytearray': lambda: mk(ip, T.Bytes(BYTEARRAY), 'data'),
               'str': lambda: mk(ip, T.Str, 'data'), 'int': lambda: mk(ip, T.Int, 'data'), 'none': lambda: None,
               'other': lambda: Opaque('other')}[kind]()
        return {'self': W.ws, self.arg: val, 'compress': c == 'compressTrue'}

    def accepted(self, a):
        raise NotImplementedError

    def payload(self, ip, a):
        raise NotImplementedError

    def raises(self, ip, a, old):
        W = ip.st.ghost['W']
        if not self.accepted(a):
            return [Raises(TypeError, when=BoolVal(True), iff=True, ensures=self.nothing(ip, old), modifies=[])]
        out = write_raises(ip, W, old) + [
            Raises(errors.FrameBuildError, when=None, iff=False, modifies=[], ensures=self.nothing(ip, old))]
        for r in out:
            # a refused / failed compressed send may already have advanced the deflater
            r.modifies = [l for l in self.modifies(ip, a) if l[2] == '_compressobj']
        return out

    def modifies(self, ip, a):
        W = ip.st.ghost['W']
        locs = [('heap', W.state, 'closing', T.Bool)]
        comp = ip.st.get(W.state, 'compression')
        if comp is not None:
            ref = comp.val if isinstance(comp, SOpt) else comp
            locs.append(('heap', ref, '_compressobj', T.Ext('zcompress')))
        return locs

    def ensures(self, ip, a, old, res):
        st = ip.st
        W = st.ghost['W']
        if not self.accepted(a):
            return [('never-returns-normally-for-wrong-type', BoolVal(False))]
        w = wire_since(ip, old)
        out = [('exactly-one-frame-written', BoolVal(len(w) == 1)),
               ('closing-flag-untouched', st.get(W.state, 'closing') == old.get(W.state, 'closing'))]
        if len(w) != 1:
            return out
        d = rfc6455.decode_one(w[0])
        p = self.payload(ip, a)
        comp = old.get(W.state, 'compression')
        negotiated = BoolVal(False) if comp is None else (Not(comp.is_none) if isinstance(comp, SOpt) else BoolVal(True))
        use = And(BoolVal(bool(a.compress)), negotiated)
        log = st.ghost.get('deflate_log', [])[len(old.ghost.get('deflate_log', [])):]
        out.append(('rsv1-iff-compression-negotiated-and-requested', (d.rsv1 == 1) == use, ('C03', 'C06')))
        if ip.reading == 'call':
            return out + [(n, f) for n, f in payload_facts(w[0], d, self.opcode, d.rsv1, p) if n not in ('rsv1', 'declared-length', 'payload-is-xor-with-key-in-frame')]
        out.append(('deflater-used-iff-rsv1', BoolVal(len(log) <= 1)))
        if len(log) == 1:
            zkey, src, deflated, locked = log[0]
            out.append(('compressed-only-when-negotiated-and-requested', use, ('C06',)))
            out.append(('deflater-input-is-the-payload', beq(src, p), ('C06',)))
            out.append(('deflated-under-the-lock-that-orders-the-wire', BoolVal(bool(locked)), ('C11',)))
            out += [(n, f, ('C03', 'C06')) for n, f in payload_facts(w[0], d, self.opcode, 1, deflated)]
        else:
            out.append(('uncompressed-when-not-negotiated-or-not-requested', Not(use), ('C06',)))
            out += payload_facts(w[0], d, self.opcode, 0, p)
        return out


@contract('lomond.websocket.WebSocket.send_binary', serves=['C03', 'C06', 'C11'])
class SendBinary(_DataApi):
    opcode = Opcode.BINARY
    arg = 'data'

    def accepted(self, a):
        return isinstance(a.data, SBytes) and a.data.kind == BYTES

    def payload(self, ip, a):
        return a.data


@contract('lomond.websocket.WebSocket.send_text', serves=['C03', 'C06', 'C11'])
class SendText(_DataApi):
    opcode = Opcode.TEXT
    arg = 'text'

    def accepted(self, a):
        return isinstance(a.text, SStr)

    def payload(self, ip, a):
        for f in sval.str_encode_facts(a.text):
            ip.st.assume(f)
        return sval.str_encode(a.text)


@contract('lomond.websocket.WebSocket.send_json', serves=['C03'])
class SendJson(_Api):
    """send_text(json.dumps(obj)): one TEXT frame, or TypeError/ValueError from json and nothing
    written (json.dumps is assumed to return str)"""
    opcode = Opcode.TEXT

    def variants(self):
        return ['obj', 'kwargs', 'both']

    def setup(self, ip, v):
        W = world(ip, session='some', reentrant='compress' in sc_params())
        return dict(self=W.ws, _obj=Opaque('jsonobj') if v != 'kwargs' else Ellipsis,
                    kwargs={} if v == 'obj' else {'k': Opaque('v')})

    modifies = _DataApi.modifies

    def raises(self, ip, a, old):
        W = ip.st.ghost['W']
        both = bool(a.kwargs) and a._obj is not Ellipsis
        if both:
            return [Raises(ValueError, when=BoolVal(True), iff=True, ensures=self.nothing(ip, old), modifies=[])]
        out = [Raises(TypeError, when=None, ensures=self.nothing(ip, old), modifies=[]),
               Raises(ValueError, when=None, ensures=self.nothing(ip, old), modifies=[])] + write_raises(ip, W, old) + \
            [Raises(errors.FrameBuildError, when=None, ensures=self.nothing(ip, old), modifies=[])]
        for r in out[2:]:
            r.modifies = [l for l in self.modifies(ip, a) if l[2] == '_compressobj']
        return out

    def ensures(self, ip, a, old, res):
        w = wire_since(ip, old)
        out = [('exactly-one-frame-written', BoolVal(len(w) == 1))]
        if len(w) == 1:
            d = rfc6455.decode_one(w[0])
            out += [('text-frame', d.opcode == 1), ('fin-set', d.fin == 1), ('masked', d.mask == 1),
                    ('rsv2-rsv3-clear', And(d.rsv2 == 0, d.rsv3 == 0)), ('minimal-length-form', d.minimal),
                    ('whole-write-is-one-frame', d.total == w[0].n)]
        return out


# ------------------------------------------------------------------------------- close (C03, C08)
def close_payload(ip, code, reason):
    """2-byte code followed by the reason (UTF-8 when text)"""
    if isinstance(reason, SStr):
        for f in sval.str_encode_facts(reason):
            ip.st.assume(f)
        rb = sval.str_encode(reason)
    else:
        rb = ip.bytes_of(reason)
    return rb


def close_frame_facts(ip, w, code, rb):
    d = rfc6455.decode_one(w)
    if code is None:
        # build_close_payload(None, reason) is the empty payload (RFC 6455 5.5.1: the body is optional)
        return [('fin-set', d.fin == 1), ('masked', d.mask == 1), ('rsv-clear', And(d.rsv1 == 0, d.rsv2 == 0, d.rsv3 == 0)),
                ('close-opcode', d.opcode == 8), ('minimal-length-form', d.minimal), ('declared-length', d.plen == 0),
                ('whole-write-is-one-frame', d.total == w.n), ('control-payload-at-most-125', d.plen <= 125, ('C03',))]
    j = fresh('j')
    k0, k1 = d.key.at(IntVal(0)), d.key.at(IntVal(1))
    return [('fin-set', d.fin == 1), ('masked', d.mask == 1), ('rsv-clear', And(d.rsv1 == 0, d.rsv2 == 0, d.rsv3 == 0)),
            ('close-opcode', d.opcode == 8), ('minimal-length-form', d.minimal),
            ('declared-length', d.plen == 2 + rb.n), ('whole-write-is-one-frame', d.total == w.n),
            ('control-payload-at-most-125', d.plen <= 125, ('C03',)),
            ('payload-is-code-then-reason',
             ForAll([j], Implies(And(j >= 0, j < rb.n), d.payload.at(j + 2) == xor8(rb.at(j), d.key.at((j + 2) % 4))))),
            ('code-is-first-two-bytes', code_masked(d, code))]


def code_masked(d, code):
    """the first two payload bytes are the big-endian code XOR key[0], key[1]: stated through the
    unmasked bytes c0, c1 with c0*256 + c1 == code"""
    from z3 import Exists, Int
    c0, c1 = Int('c0!close'), Int('c1!close')
    return Exists([c0, c1], And(c0 >= 0, c0 < 256, c1 >= 0, c1 < 256, c0 * 256 + c1 == code,
                                d.payload.at(IntVal(0)) == xor8(c0, d.key.at(IntVal(0))),
                                d.payload.at(IntVal(1)) == xor8(c1, d.key.at(IntVal(1)))))


class _CloseBase(_Api):
    def variants(self):
        return ['bytes', 'str', 'nocode']

    def close_args(self, ip, v):
        if v == 'nocode':
            return dict(code=None, reason=mk(ip, T.Str, 'reason'))
        return dict(code=mk(ip, T.Int(0, 65535), 'code'), reason=mk(ip, T.Bytes(BYTES) if v == 'bytes' else T.Str, 'reason'))


@contract('lomond.websocket.WebSocket._send_close', serves=['C03', 'C08', 'C12'])
class SendCloseInternal(_CloseBase):
    """one Close frame (code, reason), or False when the write is refused / the transport fails
    (nothing written); a payload that cannot fit a control frame raises ValueError, nothing written"""
    def setup(self, ip, v):
        W = world(ip, session='some')
        install_flag_monitor(ip, W)
        return dict(self=W.ws, **self.close_args(ip, v))

    def raises(self, ip, a, old):
        rb = close_payload(ip, a.code, a.reason)
        too_long = rb.n > 123 if a.code is not None else BoolVal(False)
        return [Raises(ValueError, when=too_long, iff=True, ensures=self.nothing(ip, old), modifies=[], tags=('C03', 'C08'))]

    def result(self, ip, a, old):
        st = ip.st
        W = st.ghost['W']
        if st.ghost.get('mt'):
            # concurrent reading (C12): the Close goes through session.write, i.e. through the session lock; what
            # write sees under the lock is the state AFTER the other threads' steps (write's verified contract)
            rely_other_threads(ip, W, old)
            seen = st.snapshot()
            refused = Or(sock_is_none(seen.get(W.session, '_sock')), seen.get(W.state, 'closed'), seen.get(W.state, 'closing'))
            if st.decide(fresh('close_sent', B), 'close-sent'):
                st.assume(Not(refused))
                st.ghost.setdefault('wire_log', []).append(mk(ip, T.Bytes(BYTES), 'wire_close'))
                st.ghost['wc'] = BoolVal(True)
                st.heap[W.state.oid].f['closing'] = BoolVal(True)      # set by write inside the critical section
                return True
            return False
        ok = fresh('close_sent', BoolVal(True).sort())
        if st.decide(ok, 'close-sent'):
            w = mk(ip, T.Bytes(BYTES), 'wire_close')
            st.ghost.setdefault('wire_log', []).append(w)
            st.ghost['wc'] = BoolVal(True)
            return True
        st.heap[W.state.oid].f['closing'] = old.get(W.state, 'closing')
        return False

    def ensures(self, ip, a, old, res):
        st = ip.st
        W = st.ghost['W']
        w = wire_since(ip, old)
        rb = close_payload(ip, a.code, a.reason)
        sn = sock_is_none(old.get(W.session, '_sock'))
        refused = Or(sn, old.get(W.state, 'closed'), old.get(W.state, 'closing'))
        if st.ghost.get('mt') and ip.reading == 'call':
            return [('one-frame-iff-sent', BoolVal(len(w) == (1 if res is True else 0)))]
        if res is True:
            out = [('exactly-one-frame-written', BoolVal(len(w) == 1)), ('only-when-open', Not(refused)),
                   ('closing-once-the-Close-frame-is-on-the-wire', st.get(W.state, 'closing'), ('C12',))]
            if len(w) == 1:
                out += close_frame_facts(ip, w[0], None if a.code is None else iv(a.code), rb)
            return out
        if res is False:
            return [('writes-nothing-when-refused', BoolVal(len(w) == 0)),
                    ('closing-flag-unchanged-when-refused', st.get(W.state, 'closing') == old.get(W.state, 'closing'))]
        return [('returns-bool', BoolVal(False))]


@contract('lomond.websocket.WebSocket.close', serves=['C03', 'C08', 'C12', 'C09', 'C07', 'C15', 'C14'])
class Close(_CloseBase):
    """from C08/C03: open -> exactly one Close frame (code, reason) - or nothing if the transport
    refused it - then closing is set and sent_close_time recorded; already closing/closed -> nothing
    written, nothing changed; oversize reason -> ValueError, nothing written, state unchanged"""
    def variants(self):
        # 'mt': the concurrent reading (C12) - other threads run wherever this one may wait for the session lock
        return _CloseBase.variants(self) + ['mt-bytes']

    def setup(self, ip, v):
        W = world(ip, session='some')
        install_flag_monitor(ip, W)
        if v.startswith('mt-'):
            ip.st.ghost['mt'] = True
            v = v[3:]
        return dict(self=W.ws, **self.close_args(ip, v))

    def modifies(self, ip, a):
        W = ip.st.ghost['W']
        return [('heap', W.state, 'closing', T.Bool), ('heap', W.state, 'sent_close_time', T.Opt(T.Real))]

    def was_open(self, ip, old):
        W = ip.st.ghost['W']
        return And(Not(old.get(W.state, 'closed')), Not(old.get(W.state, 'closing')))

    def raises(self, ip, a, old):
        rb = close_payload(ip, a.code, a.reason)
        too_long = rb.n > 123 if a.code is not None else BoolVal(False)
        return [Raises(ValueError, when=And(self.was_open(ip, old), too_long), iff=True, modifies=[], tags=('C03', 'C08'),
                       ensures=self.nothing(ip, old))]

    def result(self, ip, a, old):
        st = ip.st
        W = st.ghost['W']
        if st.decide(self.was_open(ip, old), 'was-open'):
            sn = sock_is_none(old.get(W.session, '_sock'))
            if st.decide(sn, 'no-socket'):
                pass
            elif st.choose(['sent', 'transport-failed'], 'close-write') == 'sent':
                w = mk(ip, T.Bytes(BYTES), 'wire_close')
                st.ghost.setdefault('wire_log', []).append(w)
            st.heap[W.state.oid].f['closing'] = BoolVal(True)
        else:
            st.heap[W.state.oid].f['closing'] = old.get(W.state, 'closing')
            st.heap[W.state.oid].f['sent_close_time'] = old.get(W.state, 'sent_close_time')
        return None

    def ensures(self, ip, a, old, res):
        st = ip.st
        W = st.ghost['W']
        w = wire_since(ip, old)
        rb = close_payload(ip, a.code, a.reason)
        was_open = self.was_open(ip, old)
        if st.ghost.get('mt'):
            return [('at-most-one-frame-written', BoolVal(len(w) <= 1), ('C12',)),
                    ('C12:monitor@exit(Close on the wire => closing or closed)', I12(st, W), ('C12',))]
        out = [('at-most-one-frame-written', BoolVal(len(w) <= 1), ('C03', 'C08', 'C12')),
               ('nothing-written-unless-open', Implies(Not(was_open), BoolVal(len(w) == 0)), ('C08', 'C12')),
               ('closing-set-when-it-was-open', Implies(was_open, st.get(W.state, 'closing')), ('C08',)),
               ('closing-flag-never-cleared', Implies(old.get(W.state, 'closing'), st.get(W.state, 'closing')), ('C08', 'C12')),
               ('closed-flag-untouched', st.get(W.state, 'closed') == old.get(W.state, 'closed'))]
        sct = st.get(W.state, 'sent_close_time')
        if isinstance(sct, SOpt):
            out.append(('close-time-recorded-when-it-was-open', Implies(was_open, Not(sct.is_none)), ('C08', 'C15', 'C09', 'C07')))
        else:
            out.append(('close-time-recorded-when-it-was-open', BoolVal(sct is not None), ('C08', 'C15', 'C09', 'C07')))
        if len(w) == 1:
            out += close_frame_facts(ip, w[0], None if a.code is None else iv(a.code), rb)
        return out
