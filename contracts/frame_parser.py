"""FrameParser.parse - the frame-decoding coroutine (C01, C02, C04, C05, C10).

One iteration of its `while True` is verified against the RFC 6455 5.2 decoder of spec/rfc6455.py:
the bytes it asks for are exactly the next field of the frame, the Frame it yields is the decoding
of the bytes it received, and it raises ProtocolError iff the header is not acceptable from a
server - for ALL first two bytes, extended lengths and payloads (symbolic).  The other side of the
coroutine protocol (Parser.feed delivers exactly the requested bytes, as fresh copies, in stream
order) is verified in contracts/parser.py against the same receives-clause."""
import z3
from z3 import And, Or, Not, If, Implies, IntVal, BoolVal, ForAll

from lomond import errors
from lomond.frame import Frame, CompressedFrame
from lomond.frame_parser import FrameParser, ClientFrameParser
from lomond import parser as P
from lomond.utf8validator import Utf8Validator

from pyvc.contracts import contract, Contract, ProducerContract, YieldSpec, T, mk, Raises, REG
from pyvc.loops import LoopSpec
from pyvc.engine import PathEnd, PyRaise
from pyvc.sval import (SBytes, SStr, SOpt, ExtObj, ORef, MRef, Rec, ExcVal, fresh, iv, cat, beq, BYTES, BYTEARRAY, B, I)
from pyvc import sval
from spec import rfc6455
from contracts.utf8 import validator_obj

REG.transparent(
    'lomond.parser._ReadBytes.__init__', 'lomond.parser._ReadUtf8.__init__', 'lomond.parser._ReadUntil.__init__',
    'lomond.frame_parser.FrameParser.read_text', 'lomond.frame_parser.FrameParser.on_frame',
    'lomond.frame_parser.ClientFrameParser.on_frame', 'lomond.parser.Parser.is_eof',
)

AWAITABLE_ORDS = (0, 2, 3, 4, 5, 6, 7)
HEADER_LIMIT = 16 * 1024


def parser_obj(ip, cls=ClientFrameParser, frame_class=Frame, name='parser'):
    st = ip.st
    v = validator_obj(ip, 'utf8')
    p = mk(ip, T.Obj(cls, parse_headers=T.Bool, validate=T.Const(True), _is_text=T.Bool,
                     _utf8_validator=T.Const(v), _frame_class=T.Const(frame_class),
                     _compression=T.Const(frame_class is CompressedFrame),
                     _gen=T.Const(None), _awaiting=T.Const(None), _buffer=T.Bytes(BYTEARRAY), _eof=T.Bool), name)
    return p, v


@contract('lomond.frame_parser.FrameParser.parse', serves=['C01', 'C02', 'C04', 'C05', 'C10', 'C14', 'C18'])
class Parse(ProducerContract):
    coroutine = True

    def site_keys(self, sites):
        """the yields of parse() by what is awaited / handed on (arms of the length and payload branches may be swapped)"""
        out, idents = [], 0
        for k, src, stmt, handler in sites:
            if 'read_until(' in src:
                n = 0
            elif 'unpack16' in stmt:
                n = 3
            elif 'unpack64' in stmt:
                n = 4
            elif 'read_text(' in src:
                n = 6
            elif src.replace(' ', '') == 'self.read(4)':
                n = 5
            elif src.replace(' ', '') == 'self.read(2)':
                n = 2
            elif src.startswith('self.read('):
                n = 7
            elif src.isidentifier():
                n = 1 if idents == 0 else 8
                idents += 1
            else:
                n = k
            out.append(n)
        return out

    def variants(self):
        return ['%s-%s' % (c, f) for c in ('client', 'base') for f in ('plain', 'compressed')]

    def setup(self, ip, v):
        c, f = v.split('-')
        p, val = parser_obj(ip, ClientFrameParser if c == 'client' else FrameParser, CompressedFrame if f == 'compressed' else Frame)
        st = ip.st
        st.ghost['text_open'] = fresh('text_open', B)
        st.ghost['iter'] = {}
        return dict(self=p)

    def requires(self, ip, a):
        st = ip.st
        val = st.get(a.self, '_utf8_validator')
        return [('is_text-flag-means-a-text-message-is-open', st.get(a.self, '_is_text') == st.ghost['text_open']),
                ('validator-has-not-rejected', iv(st.get(val, '_state')) != 1)]

    def gen_ghost(self, ip, a):
        return dict()

    # ---------------------------------------------------------------- the coroutine's yields
    def expected_request(self, ip, a, k, aw):
        """what the awaitable yielded at ordinal k must ask for, given the bytes of this frame
        received so far (RFC 6455 5.2 field widths)"""
        st = ip.st
        it = st.ghost['iter']
        cls = st.obj(aw).cls
        out = []
        if k == 0:
            ok = cls is P._ReadUntil
            out.append(('header-read-until-CRLFCRLF', BoolVal(ok)))
            if ok:
                sep = st.get(aw, 'sep')
                mb = st.get(aw, 'max_bytes')
                out.append(('separator-is-CRLFCRLF', BoolVal(isinstance(sep, SBytes)) if not isinstance(sep, SBytes) else
                            And(sep.n == 4, sep.at(IntVal(0)) == 13, sep.at(IntVal(1)) == 10, sep.at(IntVal(2)) == 13, sep.at(IntVal(3)) == 10)))
                out.append(('header-block-limit-is-16-KiB', BoolVal(mb is not None) if mb is None else iv(mb) == HEADER_LIMIT, ('C10',)))
            return out
        is_rb = cls in (P._ReadBytes, P._ReadUtf8)
        out.append(('fixed-count-read', BoolVal(is_rb)))
        if not is_rb:
            return out
        count = iv(st.get(aw, 'remaining'))
        st.ghost['req_count'] = count
        if k == 2:
            out.append(('asks-for-the-2-header-bytes', count == 2))
        elif k in (3, 4):
            b1 = it['r1'].at(IntVal(1))
            len7 = b1 % 128
            out.append(('extended-length-width-by-7-bit-length', And(len7 == (126 if k == 3 else 127), count == (2 if k == 3 else 8))))
        elif k == 5:
            out.append(('mask-key-only-if-mask-bit', And(it['r1'].at(IntVal(1)) / 128 == 1, count == 4)))
        elif k in (6, 7):
            d = self.decode_iter(ip, partial=True)
            out.append(('asks-for-exactly-the-declared-payload-length', And(count == d.plen, count > 0)))
            # C05: text payloads (TEXT frames and continuations of an open text message) go through
            # the incremental validator unless compression is on; nothing else does
            textual = Or(d.opcode == 1, And(d.opcode == 0, st.ghost['text_open_now']))
            comp = st.get(a.self, '_compression')
            comp = BoolVal(comp) if isinstance(comp, bool) else comp
            if k == 6:
                out.append(('validated-read-only-for-text-payloads', textual, ('C01', 'C04', 'C05', 'C14')))
                if cls is P._ReadUtf8:
                    out.append(('validated-read-uses-the-parsers-validator', BoolVal(st.get(aw, 'utf8_validator') == st.get(a.self, '_utf8_validator')), ('C01', 'C04', 'C05')))
                    out.append(('no-validation-of-compressed-bytes', Not(comp), ('C05', 'C06')))
                    out.append(('validator-has-not-rejected', iv(st.get(st.get(a.self, '_utf8_validator'), '_state')) != 1, ('C01', 'C04', 'C05')))
                else:
                    out.append(('unvalidated-text-read-only-under-compression', comp, ('C05', 'C06')))
            else:
                out.append(('plain-read-only-for-non-text-payloads', Not(textual), ('C01', 'C04', 'C05', 'C14')))
                out.append(('plain-read-is-unvalidated', BoolVal(cls is P._ReadBytes)))
        return out

    def decode_iter(self, ip, partial=False):
        st = ip.st
        it = st.ghost['iter']
        parts = [it[n] for n in ('r1', 'rlen', 'rkey', 'rpay') if n in it]
        w = cat(BYTES, parts)
        st.ghost['iter_bytes'] = w
        return rfc6455.decode_one(w)

    def at_yield(self, ip, k, v, node):
        st = ip.st
        a = ip.args
        it = st.ghost['iter']
        if k in AWAITABLE_ORDS:
            if not (isinstance(v, ORef) and issubclass(st.obj(v).cls, P._Awaitable)):
                st.oblige('yield%d:awaitable-expected' % k, BoolVal(False))
                raise PathEnd('bad awaitable')
            if k == 2:
                # validator state at the start of this frame (for 'reset only when a data message ends')
                st.ghost['vstate_iter'] = iv(st.get(st.get(a.self, '_utf8_validator'), '_state'))
            if k in (6, 7):
                # text_open as of the start of this frame
                st.ghost['text_open_now'] = st.ghost['text_open']
            for item in self.expected_request(ip, a, k, v):
                st.oblige('yield%d:%s' % (k, item[0]), item[1], tags=item[2] if len(item) > 2 else ())
            st.ghost.setdefault('yield_trace', []).append((k, 'await'))
            choice = st.choose(['resume', 'close', 'throw'], 'yield%d' % k)
            if choice == 'close':
                st.ghost['closing_at'] = (k, None, v, st.snapshot())
                raise PyRaise(ExcVal(GeneratorExit, tag='closed-at-yield%d' % k))
            if choice == 'throw':
                # Parser.feed throws ParseError in: EOF, header block too long, invalid UTF-8
                st.ghost['thrown_at'] = k
                raise PyRaise(ExcVal(P.ParseError, tag='thrown-in-at-yield%d' % k))
            return self.receive(ip, a, k, v)
        # ---- outputs: header data (ord 1) or a frame (ord 8)
        st.ghost.setdefault('yield_trace', []).append((k, 'output'))
        if k == 1:
            st.oblige('yield1:header-block-handed-on-unchanged', BoolVal(v is st.ghost.get('header_value')), tags=('C10', 'C01'))
        elif k == 8:
            self.check_frame(ip, a, v)
        else:
            st.oblige('yield%d:unexpected-output-yield' % k, BoolVal(False))
        if st.choose(['resume', 'close'], 'yield%d' % k) == 'close':
            st.ghost['closing_at'] = (k, None, v, st.snapshot())
            raise PyRaise(ExcVal(GeneratorExit, tag='closed-at-yield%d' % k))
        if k == 1:
            # the upgrade reply is processed while we are suspended here: compression may be enabled
            cls = st.obj(a.self).cls
            if st.choose(['compression-stays', 'compression-enabled'], 'negotiation') == 'compression-enabled':
                st.heap[a.self.oid].f['_compression'] = True
                st.heap[a.self.oid].f['_frame_class'] = CompressedFrame
        if k == 8:
            st.ghost['iter'] = {}
        return None

    def receive(self, ip, a, k, aw):
        """receives-clause: exactly the requested bytes, as a fresh bytearray"""
        st = ip.st
        it = st.ghost['iter']
        if k == 0:
            b = mk(ip, T.Bytes(BYTEARRAY), 'header_block')
            st.assume(ip.bytes_of(b).n >= 4, ip.bytes_of(b).n <= HEADER_LIMIT)
            st.ghost['header_value'] = b
            return b
        count = st.ghost['req_count']
        b = mk(ip, T.Bytes(BYTEARRAY), 'rx%d' % k)
        st.assume(ip.bytes_of(b).n == count)
        name = {2: 'r1', 3: 'rlen', 4: 'rlen', 5: 'rkey', 6: 'rpay', 7: 'rpay'}[k]
        if k == 2:
            st.ghost['iter'] = it = {}
        it[name] = ip.bytes_of(b).with_kind(BYTES)
        it[name + '_ref'] = b
        if k == 6 and st.obj(aw).cls is P._ReadUtf8:
            # the chunks went through the validator: it has advanced and did not reject
            val = st.get(a.self, '_utf8_validator')
            s1 = mk(ip, T.Int(0, 8), 'vstate')
            st.assume(s1 != 1)
            st.heap[val.oid].f['_state'] = s1
            st.ghost['vstate_iter'] = s1
        return b

    def check_frame(self, ip, a, f):
        """the yielded Frame is the RFC decoding of the bytes received in this iteration, it is
        acceptable from a server, and the text bookkeeping is updated"""
        st = ip.st
        ok = isinstance(f, ORef) and issubclass(st.obj(f).cls, Frame)
        st.oblige('yield8:yields-a-Frame', BoolVal(ok), tags=('C01', 'C04', 'C14'))
        if not ok:
            raise PathEnd('not a frame')
        d = self.decode_iter(ip)
        w = st.ghost['iter_bytes']
        g = lambda n: st.get(f, n)
        fields = [('fin', iv(g('fin')) == d.fin), ('rsv1', iv(g('rsv1')) == d.rsv1), ('rsv2', iv(g('rsv2')) == d.rsv2),
                  ('rsv3', iv(g('rsv3')) == d.rsv3), ('opcode', iv(g('opcode')) == d.opcode),
                  ('consumed-exactly-one-frame', d.total == w.n)]
        m = g('mask')
        fields.append(('mask-flag', (BoolVal(m) if isinstance(m, bool) else m) == (d.mask == 1)))
        for n, fm in fields:
            st.oblige('yield8:frame-is-the-decoding-of-the-bytes-received:%s' % n, fm, tags=('C01', 'C04', 'C14'))
        p = g('payload')
        pb = ip.bytes_of(p) if ip.is_byteslike(p) else None
        st.oblige('yield8:payload-length-as-declared', BoolVal(pb is not None) if pb is None else pb.n == d.plen, tags=('C01', 'C04', 'C14'))
        if pb is not None:
            st.oblige('yield8:payload-bytes-are-the-bytes-received', beq(pb, d.payload), tags=('C01', 'C05', 'C14'))
        comp = st.get(a.self, '_compression')
        comp = BoolVal(comp) if isinstance(comp, bool) else comp
        client = issubclass(st.obj(a.self).cls, ClientFrameParser)
        valid = rfc6455.valid_server_header(d.fin, d.rsv1, d.rsv2, d.rsv3, d.opcode, d.mask if client else IntVal(0), d.plen, comp)
        st.oblige('yield8:only-acceptable-frames-are-handed-on', valid, tags=('C04',))
        # ---- C05 bookkeeping: text_open' by the property's definition
        to = st.ghost['text_open']
        is_data = d.opcode < 8
        new_to = If(d.opcode == 1, d.fin == 0, If(And(is_data, d.fin == 1), BoolVal(False), to))
        st.ghost['text_open'] = new_to
        st.oblige('yield8:is_text-flag-means-a-text-message-is-open', st.get(a.self, '_is_text') == new_to, tags=('C01', 'C04', 'C05', 'C14'))
        val = st.get(a.self, '_utf8_validator')
        # the incremental validator carries the state of the open text message across frames: it may
        # be restarted only by the frame that ends a data message, never by a control frame or a
        # non-final fragment (else the verdict would depend on how the text was split - C05)
        st.oblige('yield8:validator-state-carried-across-frames(reset only when a data message ends)',
                  Or(iv(st.get(val, '_state')) == st.ghost['vstate_iter'], And(Not(comp), d.fin == 1, d.opcode < 8)), tags=('C01', 'C02', 'C04', 'C05'))
        st.oblige('yield8:validator-restarts-when-a-text-message-completes',
                  Implies(And(Not(comp), to if False else Or(d.opcode == 1, And(d.opcode == 0, to)), d.fin == 1), iv(st.get(val, '_state')) == 0), tags=('C01', 'C05'))

    # ---------------------------------------------------------------- exits
    def check_exit(self, ip, a, old, kind, res):
        st = ip.st
        if st.ghost.get('closing_at') is not None:
            return          # closing the coroutine has no obligations (Parser.close)
        if kind == 'return':
            st.oblige('never-returns(the frame loop is endless)', BoolVal(False))
            return
        exc = res
        if st.ghost.get('thrown_at') is not None:
            st.oblige('thrown-ParseError-propagates-unchanged', BoolVal(exc.cls is P.ParseError), tags=('C04', 'C10'))
            return
        if exc.cls is not None and issubclass(exc.cls, errors.ProtocolError):
            # from the property (C04): raised ONLY for an unacceptable header, and never after the
            # frame was handed on
            it = st.ghost['iter']
            if 'r1' not in it:
                st.oblige('ProtocolError-without-a-frame-header', BoolVal(False), tags=('C04',))
                return
            d = self.decode_iter(ip, partial=True)
            comp = st.get(a.self, '_compression')
            comp = BoolVal(comp) if isinstance(comp, bool) else comp
            client = issubclass(st.obj(a.self).cls, ClientFrameParser)
            valid = rfc6455.valid_server_header(d.fin, d.rsv1, d.rsv2, d.rsv3, d.opcode, d.mask if client else IntVal(0), d.plen, comp)
            st.oblige('raises-ProtocolError-only-for-an-unacceptable-header', Not(valid), tags=('C01', 'C04', 'C14'))
            early = Or(Or(*[d.opcode == r for r in rfc6455.RESERVED_OPCODES]), d.rsv2 != 0, d.rsv3 != 0, And(d.rsv1 != 0, Not(comp)),
                       And(d.opcode >= 8, d.fin == 0), And(d.opcode >= 8, d.plen > 125), d.plen >= 2 ** 63)
            st.oblige('header-violations-rejected-before-any-payload-byte-is-requested', Implies(early, BoolVal('rpay' not in it)), tags=('C04',))
            return
        st.oblige('no-unexpected-exception:%s%s' % (exc.cls.__name__ if exc.cls else 'unknown-' + exc.base.__name__,
                                                    ('[' + exc.tag + ']') if exc.tag else ''), BoolVal(False))

    # ---------------------------------------------------------------- the frame loop
    def loop(self, k):
        if k != 0:
            return None

        def inv(ip):
            st = ip.st
            a = ip.args
            val = st.get(a.self, '_utf8_validator')
            comp = st.get(a.self, '_compression')
            comp = BoolVal(comp) if isinstance(comp, bool) else comp
            fc = st.get(a.self, '_frame_class')
            return [('is_text-flag-means-a-text-message-is-open', st.get(a.self, '_is_text') == st.ghost['text_open'], ('C01', 'C04', 'C05', 'C14')),
                    ('compressed-frame-class-iff-compression', comp == BoolVal(fc is CompressedFrame), ('C06',)),
                    ('validator-in-a-live-state', And(iv(st.get(val, '_state')) >= 0, iv(st.get(val, '_state')) <= 8, iv(st.get(val, '_state')) != 1))]

        def mods(ip):
            st = ip.st
            a = ip.args
            val = st.get(a.self, '_utf8_validator')
            return [('heap', a.self, '_is_text', T.Bool), ('heap', val, '_state', T.Int(0, 8)),
                    ('heap', val, '_index', T.Int), ('heap', val, '_codepoint', T.Int),
                    ('ghost', 'text_open', lambda ip: fresh('text_open', B)), ('ghost', 'iter', lambda ip: {})]
        return LoopSpec(inv=inv, modifies=mods, locals={'frame': T.Const(None), 'masking_key': T.Const(None),
                                                        'payload_length': T.Int, '_is_text_continuation': T.Bool})
