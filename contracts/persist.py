"""persist() (C16), WebSocket.connect / reset / State.__init__ and the other constructors (C17, C10),
and the consumer-side reading of WebsocketSession.run."""
import z3
from z3 import And, Or, Not, If, Implies, IntVal, BoolVal, RealVal, ForAll, ToReal

from lomond import errors, events, persist as persist_mod
from lomond.websocket import WebSocket
from lomond.session import WebsocketSession
from lomond.stream import WebsocketStream
from lomond.frame_parser import ClientFrameParser, FrameParser
from lomond.frame import Frame
from lomond import parser as P
from lomond.utf8validator import Utf8Validator

from pyvc.contracts import contract, Contract, ProducerContract, YieldSpec, T, mk, Raises, REG, A
from pyvc.loops import LoopSpec
from pyvc.engine import PathEnd, PyRaise, GenObj, _pow2
from pyvc.sval import SBytes, SStr, SOpt, ExtObj, ORef, MRef, SList, ExcVal, fresh, iv, to_real, BYTES, BYTEARRAY, R, B, I
from pyvc import extworld
from contracts.world import world, FIELDS, CONFIG_FIELDS
from contracts.session_gen import event_obj, is_event
from contracts.session_run import Run, START, CONNECTING, CONNECTED, READY, DONE
from spec.monitor import allowed_next, EVENT_CLASSES

CONNECTION_EVENTS = [c for c in EVENT_CLASSES if c not in (events.BackOff, events.UnknownMessage)]


# ------------------------------------------------------------------------------- run(): consumer view
def _run_yields(self, ip, a):
    """what a consumer of connect() sees: any event the C07 monitor allows in the current phase
    (verified on the body of run() at every yield)"""
    def make(ip, a, g):
        cls = ip.st.choose(CONNECTION_EVENTS, 'event-class')
        fields = {}
        if cls is events.Disconnected:
            fields = dict(graceful=T.Bool, reason=T.Str)
        g['pending_cls'] = cls
        return event_obj(ip, cls, **fields)

    def guarantee(ip, a, g, v):
        cls = ip.st.obj(v).cls
        ok, nxt = allowed_next(g['phase'], cls)
        g['next_phase'] = nxt
        return [('event-allowed-in-phase', ok)]

    def after(ip, a, g, v):
        g['phase'] = g.pop('next_phase')
    return [YieldSpec('event', range(0, 64), make=make, guarantee=guarantee, after=after, when=lambda ip, a, g: g['phase'] != DONE)]


def _run_done(self, ip, a, old, g):
    return [('terminal-event-was-yielded', g['phase'] == DONE)]


Run.yields = _run_yields
Run.p_done = _run_done
Run.p_raises = lambda self, ip, a, old, g: []
Run.start_requires = lambda self, ip, a: []
Run.p_modifies = lambda self, ip, a: []


@contract('lomond.websocket.WebSocket.connect', serves=['C17', 'C16'])
class WsConnect(Contract):
    """a NEW State (hence new key, stream, parser, flags) and a NEW session are installed, and the
    session's run() generator is returned with the timing arguments passed through unchanged"""
    def setup(self, ip, v):
        W = world(ip, session='opt')
        return dict(self=W.ws, session_class=WebsocketSession, poll=mk(ip, T.Real, 'poll'), ping_rate=mk(ip, T.Real, 'ping_rate'),
                    ping_timeout=mk(ip, T.Opt(T.Real), 'ping_timeout'), auto_pong=mk(ip, T.Bool, 'auto_pong'),
                    close_timeout=mk(ip, T.Opt(T.Real), 'close_timeout'))

    def modifies(self, ip, a):
        return [('heap', a.self, 'state', T.Const(None))]

    def result(self, ip, a, old):
        st = ip.st
        run = REG.contracts['lomond.session.WebsocketSession.run']
        W = st.ghost['W']
        st.heap[a.self.oid].f['state'] = W.state
        g = run.apply(ip, dict(self=W.session, poll=a.poll, ping_rate=a.ping_rate, ping_timeout=a.ping_timeout,
                               auto_pong=a.auto_pong, close_timeout=a.close_timeout))
        st.ghost.setdefault('connect_calls', []).append(dict(poll=a.poll, ping_rate=a.ping_rate, ping_timeout=a.ping_timeout, gen=g))
        return g

    def ensures(self, ip, a, old, res):
        st = ip.st
        if ip.reading != 'body':
            return []
        out = []
        s1 = st.get(a.self, 'state')
        fresh_state = isinstance(s1, ORef) and s1.oid not in old.heap and st.obj(s1).cls is WebSocket.State
        out.append(('a-new-State-object-is-installed', BoolVal(fresh_state), ('C17',)))
        if fresh_state:
            sess = st.get(s1, 'session')
            ok = isinstance(sess, ORef) and sess.oid not in old.heap and issubclass(st.obj(sess).cls, WebsocketSession)
            out.append(('a-new-session-object-is-installed', BoolVal(ok), ('C17',)))
            if ok:
                out.append(('session-belongs-to-this-websocket', BoolVal(st.get(sess, 'websocket') == a.self), ('C17',)))
            out.append(('returns-that-sessions-run-generator', BoolVal(isinstance(res, GenObj) and res.contract.qual.endswith('.run') and res.args.self == sess), ('C17',)))
            if isinstance(res, GenObj):
                ra = res.args
                same = lambda x, y: BoolVal(x is y) if not (z3.is_expr(x) and z3.is_expr(y)) else x == y
                out.append(('arguments-passed-through', And(same(ra.poll, a.poll), same(ra.ping_rate, a.ping_rate), BoolVal(ra.ping_timeout is a.ping_timeout),
                                                            BoolVal(ra.auto_pong is a.auto_pong), BoolVal(ra.close_timeout is a.close_timeout)), ('C17', 'C16')))
        for f in CONFIG_FIELDS:
            out.append(('configuration-untouched:%s' % f, BoolVal(st.get(a.self, f) is old.get(a.self, f)), ('C17',)))
        return out


REG.transparent('lomond.websocket.WebSocket.reset')


@contract('lomond.parser.Parser.reset', serves=[], external=True)
class ParserReset(Contract):
    """call-site summary: a new parse() coroutine, advanced to its first request"""
    def modifies(self, ip, a):
        return []

    def result(self, ip, a, old):
        st = ip.st
        f = st.heap[a.self.oid].f
        f['_gen'] = ExtObj('coroutine', st.fresh_id('cor'))
        ph = f.get('parse_headers', True)
        if ph is True or (not isinstance(ph, bool)):
            f['_awaiting'] = mk(ip, T.Obj(P._ReadUntil, sep=T.Const(SBytes.lit([13, 10, 13, 10])), max_bytes=T.Const(16384)), 'awaiting')
        else:
            f['_awaiting'] = mk(ip, T.Obj(P._ReadBytes, remaining=T.Const(2)), 'awaiting')
        st.ghost.setdefault('new_coroutines', []).append(a.self)
        return None


REG.transparent('lomond.parser.Parser.__init__', 'lomond.frame_parser.FrameParser.__init__', 'lomond.stream.WebsocketStream.__init__')


@contract('lomond.websocket.WebSocket.State.__init__', serves=['C17', 'C10', 'C01', 'C04', 'C05'])
class StateInit(Contract):
    inline_at_calls = True
    """every per-connection field starts from its initial value: new stream with a new parser
    (empty buffer, waiting for the header block, not in a text message, validator in ACCEPT, no
    compression), no fragments, response not parsed, no decompressor; no session yet; a FRESH random
    16-byte key; not closing, not closed, no close time, no compression"""
    def setup(self, ip, v):
        ref = ip.st.new_obj(WebSocket.State)
        return dict(self=ref)

    def modifies(self, ip, a):
        return [('heap', a.self, '*', T.Const(None))]

    def ensures(self, ip, a, old, res):
        st = ip.st
        g = lambda f: st.obj(a.self).f.get(f, '<unset>')
        out = [('flags-clear', BoolVal(g('sent_request') is False and g('closing') is False and g('closed') is False), ('C17',)),
               ('no-session-no-close-time-no-compression', BoolVal(g('session') is None and g('sent_close_time') is None and g('compression') is None), ('C17',))]
        fields_expected = set(FIELDS['State'])
        out.append(('exactly-the-inventoried-fields-are-set', BoolVal(set(st.obj(a.self).f) == fields_expected), ('C17',)))
        # key: base64 of 16 bytes drawn from os.urandom in THIS call
        key = g('key')
        draws = st.ghost.get('urandom', [])[len(old.ghost.get('urandom', [])):]
        ok_key = isinstance(key, SBytes) and (key.meta or {}).get('b64_of') is not None and len(draws) == 1 and key.meta['b64_of'] is draws[0]
        out.append(('key-is-base64-of-16-fresh-random-bytes', BoolVal(ok_key), ('C10', 'C17')))
        if len(draws) == 1:
            out.append(('key-entropy-is-16-bytes', draws[0].n == 16, ('C10',)))
        stream = g('stream')
        ok_stream = isinstance(stream, ORef) and stream.oid not in old.heap and st.obj(stream).cls is WebsocketStream
        out.append(('new-stream', BoolVal(ok_stream), ('C17',)))
        if ok_stream:
            sf = st.obj(stream).f
            frames = sf.get('_frames')
            out.append(('stream:no-fragments-response-not-parsed-no-decompressor',
                        BoolVal(sf.get('_parsed_response') is False and sf.get('_decompress') is None and isinstance(frames, MRef)
                                and st.mem[frames.ident].concrete_len() == 0 and frames.ident not in old.mem), ('C17',)))
            p = sf.get('frame_parser')
            ok_p = isinstance(p, ORef) and p.oid not in old.heap and st.obj(p).cls is ClientFrameParser
            out.append(('new-client-frame-parser', BoolVal(ok_p), ('C17',)))
            if ok_p:
                pf = st.obj(p).f
                buf = pf.get('_buffer')
                val = pf.get('_utf8_validator')
                out.append(('parser:empty-buffer-not-eof-not-in-text-no-compression-plain-frames-headers-expected',
                            BoolVal(isinstance(buf, MRef) and buf.ident not in old.mem and st.mem[buf.ident].concrete_len() == 0 and pf.get('_eof') is False
                                    and pf.get('_is_text') is False and pf.get('_compression') is False and pf.get('_frame_class') is Frame
                                    and pf.get('parse_headers') is True and pf.get('validate') is True), ('C17', 'C10', 'C04', 'C01', 'C05')))
                out.append(('parser:new-coroutine-at-its-first-request', BoolVal(p in st.ghost.get('new_coroutines', [])), ('C17',)))
                ok_v = isinstance(val, ORef) and val.oid not in old.heap
                out.append(('parser:new-validator-in-ACCEPT', BoolVal(False) if not ok_v else iv(st.obj(val).f.get('_state')) == 0, ('C17', 'C05', 'C01', 'C04')))
        return out


@contract('lomond.session.WebsocketSession.__init__', serves=['C17'])
class SessionInit(Contract):
    inline_at_calls = True
    """no socket, all timers unset, not ready, a new lock and a new receive buffer"""
    def setup(self, ip, v):
        W = world(ip, session='opt')
        ref = ip.st.new_obj(WebsocketSession)
        return dict(self=ref, websocket=W.ws)

    def modifies(self, ip, a):
        return [('heap', a.self, '*', T.Const(None))]

    def ensures(self, ip, a, old, res):
        st = ip.st
        f = st.obj(a.self).f
        lock, buf = f.get('_lock'), f.get('_buffer')
        return [('no-socket-timers-unset-not-ready', BoolVal(f.get('_sock') is None and all(f.get(k) is None for k in ('_poll_start', '_next_ping', '_last_pong', '_start_time'))
                                                              and f.get('_ready') is False), ('C17',)),
                ('new-lock', BoolVal(isinstance(lock, ExtObj) and lock.kind == 'lock' and lock.key not in old.ghost), ('C17', 'C11')),
                ('new-receive-buffer-of-BUFFER_SIZE', BoolVal(isinstance(buf, MRef) and buf.ident not in old.mem and st.mem[buf.ident].concrete_len() == WebsocketSession.BUFFER_SIZE), ('C17', 'C01')),
                ('bound-to-the-websocket', BoolVal(f.get('websocket') == a.websocket), ('C17',)),
                ('exactly-the-inventoried-fields-are-set', BoolVal(set(f) == set(FIELDS['WebsocketSession'])), ('C17',))]


# ------------------------------------------------------------------------------- persist (C16)
def persist_roles():
    """the locals of persist() by ROLE, read from the source on every run, so that the invariants below talk about
    'the attempt counter' and not about an incidental name: counter = the one variable assigned both at the top
    level of the outer loop (advanced per attempt) and inside the for loop (reset), event = the target of the for loop over connect(), delay = the variable assigned from random()"""
    import ast
    from pyvc import source
    from pyvc.engine import Unsupported
    node, _ms = source.node_of(persist_mod.persist)
    outer = next((n for n in node.body if isinstance(n, ast.While)), None)
    if outer is None:
        raise Unsupported('persist(): no outer while loop')
    forloop = next((n for n in outer.body if isinstance(n, ast.For)), None)
    top = set()
    for n in outer.body:
        if isinstance(n, (ast.Assign, ast.AugAssign)):
            top |= source.assigned_names([n])
    inner = source.assigned_names(forloop.body) if forloop is not None else set()
    both = sorted(top & inner)      # advanced once per attempt at the top of the loop, reset while events are passed on
    counter = both[0] if len(both) == 1 else None
    if counter is None:
        # fallback: the exponent of the power of two in the back-off formula
        for n in ast.walk(outer):
            if isinstance(n, ast.BinOp) and isinstance(n.op, ast.Pow) and isinstance(n.left, ast.Constant) and n.left.value == 2 \
                    and isinstance(n.right, ast.Name):
                counter = n.right.id
                break
    ev = next((n.target.id for n in outer.body if isinstance(n, ast.For) and isinstance(n.target, ast.Name)), None)

    def draws(n):
        return any(isinstance(c, ast.Call) and isinstance(c.func, ast.Name) and c.func.id == 'random' for c in ast.walk(n))
    delay = next((n.targets[0].id for n in outer.body if isinstance(n, ast.Assign) and isinstance(n.targets[0], ast.Name)
                  and draws(n.value)), None)
    if counter is None or ev is None:
        raise Unsupported('persist(): attempt counter / event loop not recognised')
    return counter, ev, delay


@contract('lomond.persist.persist', serves=['C16'])
class Persist(ProducerContract):
    """forever: one connection attempt whose events are passed through unchanged and in order, then
    exactly one BackOff(d) with d = min_wait + u * min(max_wait - min_wait, 2**k), u in [0, 1) the
    random draw and k the number of consecutive finished attempts that did not reach Ready (0 after
    one that did), then exit_event.wait(d); the only way out is that wait returning true"""
    def variants(self):
        return ['given-exit-event', 'no-exit-event']

    def setup(self, ip, v):
        W = world(ip, session='opt')
        st = ip.st
        ev = ExtObj('event', st.fresh_id('event')) if v == 'given-exit-event' else None
        st.ghost['k'] = IntVal(0)
        st.ghost['ready_seen'] = BoolVal(False)
        return dict(websocket=W.ws, poll=mk(ip, T.Real, 'poll'), min_wait=mk(ip, T.Real(0), 'min_wait'), max_wait=mk(ip, T.Real(0), 'max_wait'),
                    ping_rate=mk(ip, T.Real, 'ping_rate'), ping_timeout=mk(ip, T.Opt(T.Real), 'ping_timeout'), exit_event=ev)

    def requires(self, ip, a):
        return [('min_wait<=max_wait(else the stated interval is empty)', to_real(a.min_wait) <= to_real(a.max_wait))]

    def gen_ghost(self, ip, a):
        return {}

    def expected_retries(self, st):
        """retries as a function of the ghost: 0 once Ready was seen in this attempt, else k + 1"""
        return If(st.ghost['ready_seen'], IntVal(0), st.ghost['k'] + 1)

    def at_yield(self, ip, k, v, node):
        st = ip.st
        a = ip.args
        if k == 0:
            cur = ip.env.vars.get(persist_roles()[1])
            st.oblige('yield0:passes-on-the-connection-event-itself', BoolVal(isinstance(cur, ORef) and v == cur), tags=('C16',))
            seen = st.ghost.setdefault('passed_on', [])
            st.oblige('yield0:each-event-once', BoolVal(isinstance(v, ORef) and v.oid not in seen), tags=('C16',))
            if isinstance(v, ORef):
                seen.append(v.oid)
            if is_event(ip, v, events.Ready):
                st.ghost['ready_seen'] = BoolVal(True)
        elif k == 1:
            ok = is_event(ip, v, events.BackOff)
            st.oblige('yield1:is-BackOff', BoolVal(ok), tags=('C16',))
            calls = st.ghost.get('connect_calls', [])
            st.oblige('yield1:only-after-the-attempt-ended', BoolVal(bool(calls) and calls[-1]['gen'].done), tags=('C16',))
            if calls:
                c = calls[-1]
                same = lambda x, y: BoolVal(x is y) if not (z3.is_expr(x) and z3.is_expr(y)) else x == y
                st.oblige('yield1:attempt-was-made-with-the-callers-poll-and-ping-settings',
                          And(same(c['poll'], a.poll), same(c['ping_rate'], a.ping_rate), BoolVal(c['ping_timeout'] is a.ping_timeout)), tags=('C16',))
            if ok:
                d = to_real(st.get(v, 'delay'))
                us = st.ghost.get('randoms', [])
                kk = self.expected_retries(st)
                lo, hi = to_real(a.min_wait), to_real(a.max_wait)
                st.oblige('yield1:exactly-one-random-draw', BoolVal(len(us) - st.ghost.get('randoms_before', 0) == 1), tags=('C16',))
                if us:
                    u = us[-1]
                    p2 = _pow2(kk)
                    lim = If(hi - lo < ToReal(p2), hi - lo, ToReal(p2))
                    st.assume(_pow2(IntVal(0)) == 1, Implies(kk >= 0, _pow2(kk) >= 1))
                    st.oblige('yield1:delay-formula(min_wait + u*min(max_wait-min_wait, 2**k))', d == lo + u * lim, tags=('C16',))
                    # bounds follow from 0 <= u < 1 and 0 <= lim <= max_wait - min_wait (product lemma supplied)
                    st.assume(Implies(And(u >= 0, u < 1, lim >= 0), And(u * lim >= 0, u * lim <= lim)))
                    st.oblige('yield1:delay-within-[min_wait,max_wait]', And(d >= lo, d <= hi), tags=('C16',))
                st.ghost['backoff_delay'] = d
            # ghost: the attempt is over - k counts consecutive attempts without Ready
            st.ghost['k'] = self.expected_retries(st)
            st.ghost['ready_seen'] = BoolVal(False)
        st.ghost.setdefault('yield_trace', []).append((k, 'event' if k == 0 else 'BackOff'))
        if st.choose(['resume', 'close'], 'yield%d' % k) == 'close':
            st.ghost['closing_at'] = (k, None, v, st.snapshot())
            raise PyRaise(ExcVal(GeneratorExit, tag='closed-at-yield%d' % k))
        return None

    def check_exit(self, ip, a, old, kind, res):
        st = ip.st
        if st.ghost.get('closing_at') is not None:
            return
        if kind == 'raise':
            st.oblige('no-exception-escapes-persist:%s' % (res.cls.__name__ if res.cls else 'unknown'), BoolVal(False), tags=('C16',))
            return
        waits = st.ghost.get('event_waits', [])
        st.oblige('ends-only-when-the-exit-event-is-set-during-a-back-off', BoolVal(bool(waits)) if not waits else waits[-1][1], tags=('C16',))

    def loop(self, k):
        contract_self = self
        counter, ev, delay = persist_roles()

        def inv0(ip):
            st = ip.st
            return [('retries-counts-consecutive-attempts-without-Ready', iv(ip.env.vars[counter]) == st.ghost['k'], ('C16',)),
                    ('k-non-negative', st.ghost['k'] >= 0)]

        def mods0(ip):
            def newk(ip):
                return mk(ip, T.Int(0), 'k')
            return [('ghost', 'k', newk), ('ghost', 'ready_seen', lambda ip: BoolVal(False)), ('ghost', 'attempt_over', lambda ip: False),
                    ('ghost', 'event_waits', lambda ip: []), ('ghost', 'randoms', lambda ip: []), ('heap', ip.args.websocket, 'state', T.Const(None))]

        def inv1(ip):
            st = ip.st
            return [('retries-is-0-after-Ready-else-k+1', iv(ip.env.vars[counter]) == contract_self.expected_retries(st), ('C16',))]

        def mods1(ip):
            return [('ghost', 'ready_seen', lambda ip: fresh('ready_seen', B))]
        if k == 0:
            loc = {ev: T.Const(None)}
            if delay:
                loc[delay] = T.Real
            return LoopSpec(inv=inv0, modifies=mods0, locals=loc)
        if k == 1:
            return LoopSpec(inv=inv1, modifies=mods1, locals={ev: T.Const(None)})
        return None
