"""Contracts for the non-generator helpers of WebsocketSession and SelectorBase.wait
(C09, C13, C14, C15, C18)."""
import z3
from z3 import And, Or, Not, If, Implies, IntVal, BoolVal, RealVal, ForAll, ToReal

from lomond import errors, events
from lomond.session import WebsocketSession, _SocketFail, _ForceDisconnect
from lomond.selectors import SelectorBase
import lomond.session as S

from pyvc.contracts import contract, Contract, T, mk, Raises, REG
from pyvc.sval import SBytes, SStr, SOpt, ExtObj, ORef, MRef, Rec, fresh, iv, to_real, BYTES, BYTEARRAY, MEMVIEW, R, B
from pyvc import extworld
from contracts.world import world, sock_is_none, wire_since
from contracts.session_send import write_raises, payload_facts
from spec import rfc6455

REG.transparent(
    'lomond.session.WebsocketSession.force_disconnect', 'lomond.session.WebsocketSession._on_pong',
    'lomond.session.WebsocketSession._on_ready', 'lomond.session.WebsocketSession.close',
    'lomond.selectors.SelectorBase.close', 'lomond.selectors.SelectorBase.__init__',
)
for _cls in ('Event', 'Poll', 'Connecting', 'ConnectFail', 'Connected', 'Rejected', 'Ready', 'ProtocolError', 'Unresponsive',
             'Disconnected', 'Closed', 'Closing', 'UnknownMessage', 'Ping', 'Pong', 'Text', 'Binary', 'BackOff'):
    REG.transparent('lomond.events.%s.__init__' % _cls)


def opt(v):
    """(is_none, value) view of an optional field"""
    if isinstance(v, SOpt):
        return v.is_none, v.val
    if v is None:
        return BoolVal(True), RealVal(0)
    return BoolVal(False), v


def now_of(ip, W, old):
    """session_time as the code computes it: 0.0 before Ready, clock - start afterwards"""
    raise NotImplementedError


@contract('lomond.session.WebsocketSession._check_poll', serves=['C15'])
class CheckPoll(Contract):
    """True iff no poll yet or at least `poll` has passed since the last one; then the poll time
    becomes `session_time`, otherwise it is unchanged"""
    def setup(self, ip, v):
        W = world(ip)
        return dict(self=W.session, poll=mk(ip, T.Real, 'poll'), session_time=mk(ip, T.Real, 't'))

    def modifies(self, ip, a):
        return [('heap', a.self, '_poll_start', T.Opt(T.Real))]

    def result(self, ip, a, old):
        return mk(ip, T.Bool, 'poll_due')

    def fire(self, a, old):
        n, v = opt(old.get(a.self, '_poll_start'))
        return Or(n, to_real(a.session_time) - v >= to_real(a.poll))

    def ensures(self, ip, a, old, res):
        st = ip.st
        r = res if not isinstance(res, bool) else BoolVal(res)
        n1, v1 = opt(st.get(a.self, '_poll_start'))
        n0, v0 = opt(old.get(a.self, '_poll_start'))
        return [('fires-iff-due', r == self.fire(a, old)),
                ('records-time-when-fired', Implies(r, And(Not(n1), v1 == to_real(a.session_time)))),
                ('unchanged-otherwise', Implies(Not(r), And(n1 == n0, Implies(Not(n0), v1 == v0))))]


@contract('lomond.session.WebsocketSession._check_ping_timeout', serves=['C15', 'C07'])
class CheckPingTimeout(Contract):
    """True iff a timeout is configured (truthy) and more than that has passed since the last pong"""
    def variants(self):
        return ['real', 'none']

    def setup(self, ip, v):
        W = world(ip)
        return dict(self=W.session, ping_timeout=None if v == 'none' else mk(ip, T.Real, 'T'),
                    session_time=mk(ip, T.Real, 't'))

    def requires(self, ip, a):
        n, v = opt(ip.st.get(a.self, '_last_pong'))
        return [('last-pong-recorded-once-ready', Not(n))] if a.ping_timeout is not None else []

    def result(self, ip, a, old):
        return mk(ip, T.Bool, 'unresponsive')

    def ensures(self, ip, a, old, res):
        r = res if not isinstance(res, bool) else BoolVal(res)
        if a.ping_timeout is None:
            return [('never-without-timeout', Not(r))]
        n, lp = opt(old.get(a.self, '_last_pong'))
        tn, T_ = opt(a.ping_timeout)
        T_ = to_real(T_)
        return [('fires-iff-silent-longer-than-timeout', r == And(Not(tn), T_ != 0, to_real(a.session_time) - lp > T_))]


@contract('lomond.session.WebsocketSession._check_close_timeout', serves=['C15', 'C07'])
class CheckCloseTimeout(Contract):
    """raises _ForceDisconnect iff a close timeout is configured (truthy), a Close was sent, and
    session_time >= sent_close_time + close_timeout"""
    def variants(self):
        return ['real', 'none']

    def setup(self, ip, v):
        W = world(ip)
        return dict(self=W.session, close_timeout=None if v == 'none' else mk(ip, T.Real, 'c'),
                    session_time=mk(ip, T.Real, 't'))

    def when(self, ip, a, old):
        if a.close_timeout is None:
            return BoolVal(False)
        W = ip.st.ghost['W']
        n, sc = opt(old.get(W.state, 'sent_close_time'))
        cn, c = opt(a.close_timeout)
        c = to_real(c)
        return And(Not(cn), c != 0, Not(n), to_real(a.session_time) >= sc + c)

    def raises(self, ip, a, old):
        return [Raises(_ForceDisconnect, when=self.when(ip, a, old), iff=True, modifies=[])]

    def ensures(self, ip, a, old, res):
        return [('returns-none', BoolVal(res is None))]


@contract('lomond.session.WebsocketSession._check_auto_ping', serves=['C15', 'C09'])
class CheckAutoPing(Contract):
    """r truthy and session_time > next_ping: next_ping' = ceil(t / r) * r (the next grid point at
    or after t) and one Ping is attempted (written iff the connection is open; a refused write is
    swallowed); otherwise nothing is written and nothing changes"""
    def setup(self, ip, v):
        W = world(ip, session='some')
        return dict(self=W.session, ping_rate=mk(ip, T.Real, 'r'), session_time=mk(ip, T.Real, 't'))

    def requires(self, ip, a):
        n, v = opt(ip.st.get(a.self, '_next_ping'))
        W = ip.st.ghost['W']
        g = ip.st.ghost[W.lock.key]
        return [('next-ping-initialised-once-ready', Not(n)), ('rate-non-negative', to_real(a.ping_rate) >= 0),
                ('lock-free-or-reentrant', BoolVal(g['held'] == 0 or g['reentrant']))]

    def modifies(self, ip, a):
        W = ip.st.ghost['W']
        return [('heap', a.self, '_next_ping', T.Opt(T.Real)), ('heap', W.state, 'closing', T.Bool)]

    def due(self, a, old):
        n, np_ = opt(old.get(a.self, '_next_ping'))
        return And(to_real(a.ping_rate) != 0, to_real(a.session_time) > np_)

    def result(self, ip, a, old):
        st = ip.st
        W = st.ghost['W']
        st.heap[W.state.oid].f['closing'] = old.get(W.state, 'closing')
        if st.decide(self.due(a, old), 'ping-due'):
            sn = sock_is_none(old.get(W.session, '_sock'))
            can = And(Not(sn), Not(old.get(W.state, 'closed')), Not(old.get(W.state, 'closing')))
            if st.decide(can, 'open'):
                if st.choose(['sent', 'transport-failed'], 'auto-ping') == 'sent':
                    w = mk(ip, T.Bytes(BYTES), 'wire_ping')
                    st.ghost.setdefault('wire_log', []).append(w)
                    d = rfc6455.decode_one(w)
                    st.assume(d.opcode == 9, d.fin == 1, d.mask == 1, d.plen == 0, d.total == w.n, d.rsv1 == 0, d.rsv2 == 0, d.rsv3 == 0)
        else:
            st.heap[a.self.oid].f['_next_ping'] = old.get(a.self, '_next_ping')
        return None

    def ensures(self, ip, a, old, res):
        st = ip.st
        W = st.ghost['W']
        due = self.due(a, old)
        w = wire_since(ip, old)
        n1, np1 = opt(st.get(a.self, '_next_ping'))
        n0, np0 = opt(old.get(a.self, '_next_ping'))
        r, t = to_real(a.ping_rate), to_real(a.session_time)
        out = [('at-most-one-frame', BoolVal(len(w) <= 1)),
               ('nothing-written-unless-due', Implies(Not(due), BoolVal(len(w) == 0))),
               ('next-ping-unchanged-unless-due', Implies(Not(due), And(n1 == n0, np1 == np0))),
               ('closing-flag-untouched', st.get(W.state, 'closing') == old.get(W.state, 'closing'))]
        # ceil(t/r)*r: the unique multiple k*r with (k-1)*r < t <= k*r
        ceils = st.ghost.get('ceils', [])
        k = ceils[-1][0] if ceils and ip.reading == 'body' else fresh('grid_k', z3.IntSort())
        out.append(('next-ping-is-the-grid-point-at-or-after-now',
                    Implies(due, And(Not(n1), np1 == ToReal(k) * r, ToReal(k) * r >= t, (ToReal(k) - 1) * r < t))))
        if len(w) == 1:
            d = rfc6455.decode_one(w[0])
            out += [('ping-frame', And(d.opcode == 9, d.fin == 1, d.mask == 1, d.plen == 0, d.total == w[0].n)),
                    ('only-when-due', due),
                    ('only-when-open', And(Not(old.get(W.state, 'closed')), Not(old.get(W.state, 'closing'))))]
        return out


@contract('lomond.session.WebsocketSession._send_pong', serves=['C14', 'C09', 'C08', 'C01', 'C18'])
class SendPongInternal(Contract):
    """one Pong with the event's payload when the connection is open, nothing otherwise; never
    raises (a refused or failed write is dropped silently)"""
    def setup(self, ip, v):
        W = world(ip, session='some')
        ev = mk(ip, T.Obj(events.Ping, data=T.Bytes(BYTES, maxlen=125), received_time=T.Real), 'ping_event')
        return dict(self=W.session, event=ev)

    def requires(self, ip, a):
        W = ip.st.ghost['W']
        g = ip.st.ghost[W.lock.key]
        d = ip.st.get(a.event, 'data')
        return [('ping-data-is-bytes-of-at-most-125', BoolVal(isinstance(d, SBytes) and d.kind == BYTES) if not isinstance(d, SBytes) else d.n <= 125),
                ('lock-free-or-reentrant', BoolVal(g['held'] == 0 or g['reentrant']))]

    def modifies(self, ip, a):
        W = ip.st.ghost['W']
        return [('heap', W.state, 'closing', T.Bool)]

    def can(self, ip, old):
        W = ip.st.ghost['W']
        sn = sock_is_none(old.get(W.session, '_sock'))
        return And(Not(sn), Not(old.get(W.state, 'closed')), Not(old.get(W.state, 'closing')))

    def result(self, ip, a, old):
        st = ip.st
        W = st.ghost['W']
        st.heap[W.state.oid].f['closing'] = old.get(W.state, 'closing')
        if st.decide(self.can(ip, old), 'open'):
            if st.choose(['sent', 'transport-failed'], 'auto-pong') == 'sent':
                w = mk(ip, T.Bytes(BYTES), 'wire_pong')
                st.ghost.setdefault('wire_log', []).append(w)
        return None

    def ensures(self, ip, a, old, res):
        st = ip.st
        W = st.ghost['W']
        w = wire_since(ip, old)
        out = [('at-most-one-frame', BoolVal(len(w) <= 1)),
               ('nothing-written-unless-open', Implies(Not(self.can(ip, old)), BoolVal(len(w) == 0))),
               ('closing-flag-untouched', st.get(W.state, 'closing') == old.get(W.state, 'closing'))]
        if len(w) == 1:
            d = rfc6455.decode_one(w[0])
            out += [(n, f, ('C14',)) for n, f in payload_facts(w[0], d, 10, 0, st.get(a.event, 'data'))]
        if ip.reading == 'body':
            from pyvc.contracts import calls_since
            cs = calls_since(ip, old, 'WebSocket.send_pong')
            out.append(('send_pong-is-called-exactly-once-with-the-pings-payload',
                        BoolVal(len(cs) == 1 and cs[0].data is st.get(a.event, 'data')), ('C14', 'C18')))   # C18: the reply is attempted NOW, in this cycle
        return out


@contract('lomond.session.WebsocketSession._close_socket', serves=['C09', 'C13', 'C08', 'C11'])
class CloseSocket(Contract):
    """afterwards the session has no socket and the socket it had was closed under the write lock;
    never raises"""
    def setup(self, ip, v):
        W = world(ip)
        return dict(self=W.session)

    def requires(self, ip, a):
        W = ip.st.ghost['W']
        g = ip.st.ghost[W.lock.key]
        return [('lock-free-or-reentrant', BoolVal(g['held'] == 0 or g['reentrant']))]

    def modifies(self, ip, a):
        return [('heap', a.self, '_sock', T.Const(None))]

    def result(self, ip, a, old):
        st = ip.st
        W = st.ghost['W']
        sn = sock_is_none(old.get(a.self, '_sock'))
        g = extworld.sock_state(st, W.sock)
        g['closed'] = z3.If(sn, g['closed'], fresh('sock_closed_after', B))
        st.assume(Implies(Not(sn), Or(g['closed'], fresh('close_raised', B))))
        return None

    def ensures(self, ip, a, old, res):
        st = ip.st
        W = st.ghost['W']
        sn = sock_is_none(old.get(a.self, '_sock'))
        out = [('session-has-no-socket', sock_is_none(st.get(a.self, '_sock')))]
        if ip.reading == 'body':
            log = st.ghost.get('io_log', [])[len(old.ghost.get('io_log', [])):]
            ops = [e for e in log if e[0] in ('shutdown', 'close')]
            out.append(('socket-ops-only-under-the-write-lock', BoolVal(all(e[2] for e in ops)), ('C11',)))
            out.append(('close-attempted-if-there-was-a-socket',
                        Implies(Not(sn), BoolVal(any(e[0] in ('shutdown', 'close') for e in log)))))
            # C09 / C13 "and the socket is closed": unless a socket operation itself failed, close() is CALLED - whatever
            # another thread is doing with the write lock at that moment (the loop waits for it; it does not give up)
            raised = any(t.startswith('ext:') and '=raise' in t for t in st.trace)
            out.append(('socket-close()-called-unless-a-socket-operation-failed',
                        Implies(Not(sn), BoolVal(raised or any(e[0] == 'close' for e in log))), ('C09', 'C13', 'C08')))
            g = st.ghost[W.lock.key]
            out.append(('lock-released', BoolVal(g['held'] == old.ghost[W.lock.key]['held'])))
        return out


@contract('lomond.session.WebsocketSession._socket_fail', serves=['C09'])
class SocketFail(Contract):
    def setup(self, ip, v):
        return dict(cls=WebsocketSession, msg=SStr.lit('connection lost'), args=(), kwargs={})

    def raises(self, ip, a, old):
        return [Raises(_SocketFail, when=BoolVal(True), iff=True, modifies=[])]

    def ensures(self, ip, a, old, res):
        return [('never-returns', BoolVal(False))]


@contract('lomond.session.WebsocketSession._recv', serves=['C01', 'C09', 'C18'])
class Recv(Contract):
    """no socket -> empty; else one recv_into of at most `count` bytes into the session's private
    buffer and a view of exactly what was received; socket.error -> _SocketFail"""
    def setup(self, ip, v):
        W = world(ip)
        return dict(self=W.session, count=mk(ip, T.Int(1, 65536), 'count'))

    def requires(self, ip, a):
        return [('count-positive-within-buffer', And(iv(a.count) >= 1, iv(a.count) <= 65536))]

    def modifies(self, ip, a):
        W = ip.st.ghost['W']
        return [('mem', W.buffer)]

    def raises(self, ip, a, old):
        return [Raises(_SocketFail, when=Not(sock_is_none(old.get(a.self, '_sock'))), modifies=None),
                Raises(Exception, 'other-socket-exception', when=Not(sock_is_none(old.get(a.self, '_sock'))), modifies=None)]

    def result(self, ip, a, old):
        st = ip.st
        W = st.ghost['W']
        k = fresh('recvd', z3.IntSort())
        st.assume(k >= 0, k <= iv(a.count))
        buf = st.mem[W.buffer.ident]
        r = SBytes(MEMVIEW, k, buf.at, view_of=W.buffer.ident)
        st.ghost.setdefault('rx_log', []).append((k, r))
        st.ghost.setdefault('recv_values', []).append(r)
        return r

    def ensures(self, ip, a, old, res):
        st = ip.st
        W = st.ghost['W']
        sn = sock_is_none(old.get(a.self, '_sock'))
        ok = ip.is_byteslike(res)
        out = [('returns-bytes-like', BoolVal(ok))]
        if ok:
            b = ip.bytes_of(res)
            out.append(('at-most-count-bytes', And(b.n >= 0, b.n <= iv(a.count))))
            out.append(('empty-without-socket', Implies(sn, b.n == 0)))
            if ip.reading == 'body':
                rx = st.ghost.get('rx_log', [])[len(old.ghost.get('rx_log', [])):]
                out.append(('at-most-one-read', BoolVal(len(rx) <= 1)))
                if len(rx) == 1:
                    k, data = rx[0]
                    j = fresh('j')
                    out.append(('returns-exactly-what-was-received', And(b.n == k, ForAll([j], Implies(And(j >= 0, j < k), b.at(j) == data.at(j))))))
        return out


@contract('lomond.selectors.SelectorBase.wait', serves=['C18', 'C15'])
class SelectorWait(Contract):
    """bytes already buffered in the TLS layer ($tls > 0) -> (True, $tls) WITHOUT blocking;
    otherwise one wait_readable(timeout) and (its answer, max_bytes)"""
    def variants(self):
        return ['plain-socket', 'tls-socket']

    def setup(self, ip, v):
        st = ip.st
        sock = ExtObj('socket', st.fresh_id('sock'))
        g = extworld.sock_state(st, sock)
        g['has_pending'] = BoolVal(v == 'tls-socket')
        if v == 'tls-socket':
            # $tls: bytes already decrypted and buffered inside the TLS object (what pending() returns)
            g['tls'] = mk(ip, T.Int(0, 16384), 'tls')
        sel = mk(ip, T.Obj(SelectorBase, _socket=T.Const(sock)), 'selector')
        st.ghost['sel_sock'] = sock
        return dict(self=sel, max_bytes=mk(ip, T.Int(1), 'max_bytes'), timeout=mk(ip, T.Real(0), 'timeout'))

    def result(self, ip, a, old):
        return (mk(ip, T.Bool, 'readable'), mk(ip, T.Int(1), 'nbytes'))

    def requires(self, ip, a):
        return [('max_bytes-positive', iv(a.max_bytes) >= 1)]

    def raises(self, ip, a, old):
        return [Raises(Exception, 'selector-error', when=None, modifies=[])]

    def ensures(self, ip, a, old, res):
        st = ip.st
        if not (isinstance(res, tuple) and len(res) == 2):
            return [('returns-pair', BoolVal(False))]
        readable, n = res
        readable = readable if not isinstance(readable, bool) else BoolVal(readable)
        # bytes buffered in the TLS layer never exceed one TLS record (16 KiB): assumed in extworld
        out = [('count-within-max_bytes-or-one-tls-record', And(iv(n) >= 0, iv(n) <= If(iv(a.max_bytes) > 16384, iv(a.max_bytes), 16384))),
               ('count-positive-when-readable', Implies(readable, iv(n) >= 1))]
        if ip.reading == 'body':
            sock = st.ghost['sel_sock']
            g = extworld.sock_state(st, sock)
            waits = st.ghost.get('wait_log', [])[len(old.ghost.get('wait_log', [])):]
            tls = g.get('tls')
            if tls is not None:
                pend_calls = [e for e in st.ghost.get('io_log', [])[len(old.ghost.get('io_log', [])):] if e[0] == 'pending']
                out.append(('looks-at-the-TLS-buffer-before-blocking', BoolVal(len(pend_calls) >= 1 or len(waits) == 0), ('C18',)))
                out.append(('buffered-tls-bytes-returned-without-blocking',
                            Implies(tls > 0, And(readable, iv(n) == tls, BoolVal(len(waits) == 0))), ('C18',)))
                out.append(('blocks-only-when-nothing-buffered', Implies(BoolVal(len(waits) > 0), tls == 0), ('C18',)))
            out.append(('at-most-one-blocking-call', BoolVal(len(waits) <= 1)))
            if len(waits) == 1:
                out.append(('timeout-passed-through', to_real(waits[0][0]) == to_real(a.timeout)))
                out.append(('answer-and-max_bytes-returned', And(readable == waits[0][1], iv(n) == iv(a.max_bytes))))
        return out


class _WaitReadable(Contract):
    """ASSUMED (OS selector): blocks at most `timeout`, returns whether the socket is readable; may
    raise.  Every call is logged in the ghost wait_log - it is the only blocking call of the package."""
    def setup(self, ip, v):
        raise NotImplementedError

    def raises(self, ip, a, old):
        return [Raises(Exception, 'selector-error', when=None, modifies=[])]

    def result(self, ip, a, old):
        st = ip.st
        r = mk(ip, T.Bool, 'is_readable')
        st.ghost.setdefault('wait_log', []).append((a.timeout, r))
        st.ghost['clock_frozen'] = False
        return r


@contract('lomond.selectors.SelectorBase.wait_readable', serves=[], external=True)
class WaitReadableBase(_WaitReadable):
    pass


@contract('lomond.selectors.PollSelector.wait_readable', serves=[], external=True)
class WaitReadablePoll(_WaitReadable):
    pass
