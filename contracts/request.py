"""WebSocket.build_request under contract (C10: "one well-formed HTTP/1.1 upgrade request for the URL's ... resource
(Upgrade, Connection, version 13, custom headers, offered protocols and extensions) carrying [the] key").

The request is `sep.join(lines)`; `bytes.join` is an assumed builtin (items in order, separated by sep), so the contract is
stated over the LIST that is joined and the separator (RFC 7230 3: start-line CRLF *(field CRLF) CRLF == CRLF.join(
[start-line] + fields + [CRLF])):  the separator is CRLF; line 0 is `GET <resource> HTTP/1.1`; the last item is CRLF; every
line in between is `name: value`; the custom headers come first, in the order they were added; each required field (Host,
Upgrade, Connection, Sec-WebSocket-Key = this connection's key, Sec-WebSocket-Version: 13, User-Agent) occurs, the protocol
offer occurs iff protocols were given, the extension offer iff compress; and there is no other line.  The order of the
non-custom fields is NOT fixed (RFC 7230 3.2.2).  Text is UTF-8 encoded piecewise; str.join of the protocols is
uninterpreted.  `_host_port` / `resource` are fields computed by `__init__` from the URL (urlparse: bounded stand-in)."""
import ast

import z3
from z3 import And, Or, Not, Implies, IntVal, BoolVal, ForAll, Function

from lomond.websocket import WebSocket

from pyvc.contracts import contract, Contract, T, mk
from pyvc.loops import LoopSpec
from pyvc.engine import Unsupported
from pyvc.sval import SBytes, SStr, SList, MRef, fresh, iv, BYTES, I
from pyvc import sval, source
from contracts.world import world

from pyvc.contracts import REG
REG.transparent('lomond.websocket.WebSocket.key')

OFFER = (b'permessage-deflate; server_max_window_bits=15; client_max_window_bits, '
         b'permessage-deflate; client_max_window_bits')


def pats(term, *vs):
    """[term] as a quantifier pattern when it is a function application mentioning every bound variable, else none"""
    from z3.z3util import get_vars
    try:
        have = set(str(v) for v in get_vars(term))
    except Exception:       # noqa
        return []
    if z3.is_app(term) and term.num_args() > 0 and term.decl().kind() == z3.Z3_OP_UNINTERPRETED and all(str(v) in have for v in vs):
        return [term]
    return []


def lit(x):
    return SBytes.lit(list(x))


def field(name, value):
    return sval.cat(BYTES, [name, lit(b': '), value])


def pair_list(ip, name):
    """symbolic list of (bytes, bytes) pairs - the custom headers"""
    n = fresh(name + '_n', I)
    ip.st.assume(n >= 0)
    ln, lv = Function(name + '_nlen', I, I), Function(name + '_vlen', I, I)
    an, av = Function(name + '_nat', I, I, I), Function(name + '_vat', I, I, I)
    k, j = fresh('hk'), fresh('hj')
    ip.st.hyps.append(ForAll([k], And(ln(k) >= 0, lv(k) >= 0), patterns=[ln(k)]))
    ip.st.hyps.append(ForAll([k], And(ln(k) >= 0, lv(k) >= 0), patterns=[lv(k)]))
    ip.st.hyps.append(ForAll([k, j], And(an(k, j) >= 0, an(k, j) < 256), patterns=[an(k, j)]))
    ip.st.hyps.append(ForAll([k, j], And(av(k, j) >= 0, av(k, j) < 256), patterns=[av(k, j)]))

    def at(i):
        i = iv(i)
        return (SBytes(BYTES, ln(i), lambda jj, i=i: an(i, iv(jj))), SBytes(BYTES, lv(i), lambda jj, i=i: av(i, iv(jj))))
    return SList(n, at)


def _names():
    """locals by role: the list of lines (assigned from the literal holding the request line), the list of header pairs
    (assigned from the copy of self._headers)"""
    node, _ms = source.node_of(WebSocket.build_request)
    req = hdr = None
    for n in ast.walk(node):
        if isinstance(n, ast.Assign) and len(n.targets) == 1 and isinstance(n.targets[0], ast.Name):
            src = ast.unparse(n.value)
            if isinstance(n.value, ast.List) and 'HTTP/1.1' in src:
                req = n.targets[0].id
            if '_headers' in src:
                hdr = n.targets[0].id
    if req is None or hdr is None:
        raise Unsupported('WebSocket.build_request: cannot identify the list of lines / the list of header fields')
    return req, hdr


@contract('lomond.websocket.WebSocket.build_request', serves=['C10'])
class BuildRequest(Contract):
    def variants(self):
        return ['plain', 'protocols', 'compress', 'protocols+compress']

    def setup(self, ip, v):
        st = ip.st
        W = world(ip, session='some')
        f = st.heap[W.ws.oid].f
        custom = pair_list(ip, 'custom')
        st.ghost['custom'] = custom
        f['_headers'] = st.alloc(custom, 'l')
        f['compress'] = 'compress' in v
        if 'protocols' in v:
            n = fresh('nproto', I)
            st.assume(n >= 1)
            items = Function('proto_item', I, sval.Str)
            plist = SList(n, lambda i: SStr(items(iv(i))))
            f['protocols'] = st.alloc(plist, 'l')
        else:
            f['protocols'] = st.alloc(SList.empty(), 'l')
        return dict(self=W.ws)

    # call-site reading (used by _send_request): some request bytes
    def result(self, ip, a, old):
        b = mk(ip, T.Bytes(BYTES), 'request')
        ip.st.assume(b.n >= 16, b.at(IntVal(0)) == 71)
        return b

    def _line0(self, ip, a, old):
        return sval.cat(BYTES, [lit(b'GET '), sval.str_encode(old.get(a.self, 'resource')), lit(b' HTTP/1.1')])

    def loop(self, k):
        if k != 0:
            return None
        me = self

        def inv(ip):
            st = ip.st
            req_name, hdr_name = _names()
            req = st.mem[ip.env.vars[req_name].ident]
            hdrs = st.mem[ip.env.vars[hdr_name].ident]
            i = st.ghost['$i0']
            m, j = fresh('rm'), fresh('rj')
            rm = req.at(m)
            hp = hdrs.at(m - 1)
            fm = field(ip.bytes_of(hp[0]), ip.bytes_of(hp[1]))
            l0 = me._line0(ip, ip.args, ip.old)
            r0 = ip.bytes_of(req.at(IntVal(0)))
            rmb = ip.bytes_of(rm)
            return [('one-line-per-field-so-far', req.n == 1 + iv(i)),
                    ('line-0-is-the-request-line', sval.beq(r0, l0)),
                    ('line-m-is-name-colon-space-value-of-field-m', ForAll([m], Implies(And(m >= 1, m < req.n), rmb.n == fm.n), patterns=pats(rmb.n, m))),
                    ('line-m-is-name-colon-space-value-of-field-m(bytes)', ForAll([m, j], Implies(And(m >= 1, m < req.n, j >= 0, j < fm.n), rmb.at(j) == fm.at(j)),
                                                                                  patterns=pats(rmb.at(j), m, j)))]

        def mods(ip):
            req_name, _h = _names()
            ref = ip.env.vars[req_name]
            cid = ip.st.fresh_id('rq')
            ln, at_ = Function('rqlen_' + cid, I, I), Function('rqat_' + cid, I, I, I)
            k_, j_ = fresh('qk'), fresh('qj')
            ip.st.hyps.append(ForAll([k_], ln(k_) >= 0, patterns=[ln(k_)]))
            ip.st.hyps.append(ForAll([k_, j_], And(at_(k_, j_) >= 0, at_(k_, j_) < 256), patterns=[at_(k_, j_)]))
            return [('mem', ref, lambda i, ln=ln, at_=at_: SBytes(BYTES, ln(iv(i)), lambda jj, i=i: at_(iv(i), iv(jj))))]
        node, _ms = source.node_of(WebSocket.build_request)
        loop = [n for n in ast.walk(node) if isinstance(n, ast.For)][0]
        tnames = [x.id for x in ast.walk(loop.target) if isinstance(x, ast.Name)]
        return LoopSpec(inv=inv, modifies=mods, locals={t: T.Const(None) for t in tnames}, tags=('C10',))

    def ensures(self, ip, a, old, res):
        if ip.reading != 'body':
            return []
        st = ip.st
        joins = [(sep, lst, r) for sep, lst, r in st.ghost.get('sep_joins', []) if r is res]
        if len(joins) != 1:
            return [('request-is-CRLF.join(lines)', BoolVal(False))]
        sep, lst, _r = joins[0]
        custom = st.ghost['custom']
        H = custom.n
        enc = sval.str_encode
        key = old.get(st.ghost['W'].state, 'key')
        required = [field(lit(b'Host'), enc(old.get(a.self, '_host_port'))), field(lit(b'Upgrade'), lit(b'websocket')),
                    field(lit(b'Connection'), lit(b'Upgrade')), field(lit(b'Sec-WebSocket-Key'), ip.bytes_of(key)),
                    field(lit(b'Sec-WebSocket-Version'), lit(b'13')), field(lit(b'User-Agent'), enc(old.get(a.self, 'agent')))]
        protos = st.mem[old.get(a.self, 'protocols').ident]
        sj = st.ghost.get('strjoins', [])
        out = [('separator-is-CRLF', sval.beq(sep, lit(b'\r\n'))),
               ('line-0-is-GET-resource-HTTP/1.1', sval.beq(ip.bytes_of(lst.at(IntVal(0))), self._line0(ip, a, old))),
               ('ends-with-the-empty-line', sval.beq(ip.bytes_of(lst.at(lst.n - 1)), lit(b'\r\n')))]
        if protos.concrete_len() != 0:
            ok = len(sj) == 1 and sj[0][0].text == ', ' and sj[0][1].n is protos.n
            out.append(('protocols-offered-as-one-comma-separated-list', BoolVal(ok)))
            if ok:
                required.append(field(lit(b'Sec-WebSocket-Protocol'), enc(sj[0][2])))
        else:
            out.append(('no-protocol-offer-without-protocols', BoolVal(len(sj) == 0)))
        if old.get(a.self, 'compress') is True:
            required.append(field(lit(b'Sec-WebSocket-Extensions'), lit(OFFER)))
        R = len(required)
        out.append(('exactly-the-custom-and-the-required-fields', lst.n == H + R + 2))
        # custom headers first, in order
        m, j = fresh('cm'), fresh('cj')
        lm = ip.bytes_of(lst.at(m))
        cp = custom.at(m - 1)
        cf = field(cp[0], cp[1])
        out.append(('custom-headers-in-the-order-added', ForAll([m], Implies(And(m >= 1, m <= H), sval.beq(lm, cf)))))
        # every required field occurs among the R lines after the custom ones
        for idx, fld in enumerate(required):
            nm = bytes(simplify_lit(fld, 40)).split(b':')[0].decode('latin-1')
            out.append(('field-present:' + nm, Or(*[sval.beq(ip.bytes_of(lst.at(H + 1 + d)), fld) for d in range(R)])))
        return out


def simplify_lit(b, n):
    """first bytes of a byte string that starts with a literal (for naming obligations only)"""
    out = []
    for i in range(n):
        v = z3.simplify(b.at(IntVal(i)))
        if not z3.is_int_value(v):
            break
        out.append(v.as_long())
    return out
