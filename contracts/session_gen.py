"""Producer contracts of the session's generators: _regular (C07, C15), run (C07, C09, C13 ...)."""
import z3
from z3 import And, Or, Not, If, Implies, IntVal, BoolVal, RealVal, ForAll, ToReal

from lomond import errors, events
from lomond.session import WebsocketSession, _SocketFail, _ForceDisconnect

from pyvc.contracts import contract, Contract, ProducerContract, YieldSpec, T, mk, Raises, REG
from pyvc.loops import LoopSpec
from pyvc.sval import SBytes, SStr, SOpt, ExtObj, ORef, MRef, Rec, fresh, iv, to_real, BYTES, R, B, I
from pyvc import extworld
from contracts.world import world, sock_is_none, wire_since
from contracts.session_misc import opt
from spec import rfc6455


def event_obj(ip, cls, name='event', **fields):
    return mk(ip, T.Obj(cls, received_time=T.Real, **fields), name)


def is_event(ip, v, cls):
    return isinstance(v, ORef) and ip.st.obj(v).cls is cls


def session_now(ip, W, snap=None):
    """session_time under the frozen-clock assumption: clock - start_time (0.0 before Ready)"""
    st = ip.st
    clock = st.ghost.setdefault('clock', fresh('clock0', R))
    n, start = opt((snap or st).get(W.session, '_start_time'))
    return If(n, RealVal(0), clock - start)


@contract('lomond.session.WebsocketSession._regular', serves=['C07', 'C15'])
class Regular(ProducerContract):
    """housekeeping run once per evaluation at session time t (clock frozen within a cycle):
    Poll iff _check_poll fires at t; then the auto-ping check; then Unresponsive followed by
    _ForceDisconnect iff ping_timeout is truthy and t - last_pong > ping_timeout; else
    _ForceDisconnect iff the close timeout expired; else exhausted"""
    def variants(self):
        return ['T-real', 'T-none']

    def setup(self, ip, v):
        W = world(ip, session='some')
        return dict(self=W.session, poll=mk(ip, T.Real(0), 'poll'), ping_rate=mk(ip, T.Real(0), 'ping_rate'),
                    ping_timeout=mk(ip, T.Real, 'ping_timeout') if v == 'T-real' else None,
                    close_timeout=mk(ip, T.Opt(T.Real), 'close_timeout'))

    def requires(self, ip, a):
        st = ip.st
        W = st.ghost['W']
        g = st.ghost[W.lock.key]
        return [('timers-initialised(ready)', And(Not(opt(st.get(a.self, '_start_time'))[0]), Not(opt(st.get(a.self, '_last_pong'))[0]),
                                                  Not(opt(st.get(a.self, '_next_ping'))[0]))),
                ('rates-non-negative', And(to_real(a.poll) >= 0, to_real(a.ping_rate) >= 0)),
                ('lock-free-or-reentrant', BoolVal(g['held'] == 0 or g['reentrant']))]

    def gen_ghost(self, ip, a):
        return dict(stage=IntVal(0))

    def ghost_types(self):
        return dict(stage=T.Int(0, 2))

    def p_modifies(self, ip, a):
        return [('heap', a.self, '_poll_start', T.Opt(T.Real)), ('heap', a.self, '_next_ping', T.Real)]

    def step_effects(self, ip, a, gen, label):
        st = ip.st
        # the auto-ping check may have written one Ping (stage <= 1 only)
        if st.choose(['no-ping', 'ping'], 'regular-auto-ping') == 'ping':
            st.assume(gen.g['stage'] <= 1)
            w = mk(ip, T.Bytes(BYTES), 'wire_ping')
            st.ghost.setdefault('wire_log', []).append(w)
            d = rfc6455.decode_one(w)
            st.assume(d.opcode == 9, d.fin == 1, d.mask == 1, d.plen == 0, d.total == w.n, d.rsv1 == 0, d.rsv2 == 0, d.rsv3 == 0)

    def timeout_hit(self, ip, a, snap=None):
        if a.ping_timeout is None:
            return BoolVal(False)
        W = ip.st.ghost['W']
        n, lp = opt((snap or ip.st).get(a.self, '_last_pong'))
        Tm = to_real(a.ping_timeout)
        return And(Tm != 0, session_now(ip, W, snap) - lp > Tm)

    def yields(self, ip, a):
        W = ip.st.ghost['W']

        def set_stage(k):
            def after(ip, a, g, v):
                g['stage'] = IntVal(k)
            return after
        return [
            YieldSpec('Poll', [0], make=lambda ip, a, g: event_obj(ip, events.Poll),
                      when=lambda ip, a, g: g['stage'] == 0,
                      guarantee=lambda ip, a, g, v: [('is-Poll', BoolVal(is_event(ip, v, events.Poll))),
                                                      ('poll-time-recorded', And(Not(opt(ip.st.get(a.self, '_poll_start'))[0]),
                                                                                 opt(ip.st.get(a.self, '_poll_start'))[1] == session_now(ip, W)))],
                      after=set_stage(1)),
            YieldSpec('Unresponsive', [1], make=lambda ip, a, g: event_obj(ip, events.Unresponsive),
                      when=lambda ip, a, g: And(g['stage'] <= 1, self.timeout_hit(ip, a)),
                      guarantee=lambda ip, a, g, v: [('is-Unresponsive', BoolVal(is_event(ip, v, events.Unresponsive)))],
                      after=set_stage(2)),
        ]

    def p_raises(self, ip, a, old, g):
        return [Raises(_ForceDisconnect, 'force-disconnect', when=None)]

    def p_done(self, ip, a, old, g):
        return [('not-after-Unresponsive', g['stage'] <= 1), ('no-ping-timeout', Not(self.timeout_hit(ip, a)))]

    def resume_havoc(self, ip, a, k):
        # while suspended the application may close() or send: closing / sent_close_time / $wire
        W = ip.st.ghost['W']
        return [('heap', W.state, 'closing', T.Bool), ('heap', W.state, 'sent_close_time', T.Opt(T.Real))]

    def resume_rely(self, ip, a, k, pre):
        W = ip.st.ghost['W']
        st = ip.st
        return [('closing-only-set', Implies(pre.get(W.state, 'closing'), st.get(W.state, 'closing')))]

    def check_exit(self, ip, a, old, kind, res):
        st = ip.st
        W = st.ghost['W']
        g = st.ghost['self_gen']
        if st.ghost.get('closing_at') is None and (kind == 'return' or (kind == 'raise' and res.cls is _ForceDisconnect)):
            # a complete evaluation of the housekeeping includes exactly one auto-ping check with the caller's rate (C15)
            from pyvc.contracts import calls_since
            cs = calls_since(ip, old, 'WebsocketSession._check_auto_ping')
            same = lambda x, y: (x is y) or (z3.is_expr(x) and z3.is_expr(y) and x.eq(y))
            st.oblige('auto-ping-check-evaluated-exactly-once-with-the-callers-ping_rate',
                      BoolVal(len(cs) == 1 and same(cs[0].ping_rate, a.ping_rate)), tags=('C15',))
            ct = calls_since(ip, old, 'WebsocketSession._check_close_timeout')
            if kind == 'return':
                st.oblige('close-timeout-check-evaluated-with-the-callers-close_timeout',
                          BoolVal(len(ct) == 1 and (ct[0].close_timeout is a.close_timeout)), tags=('C15', 'C07'))
        if kind == 'raise' and res.cls is _ForceDisconnect and st.ghost.get('closing_at') is None:
            # from the property (C15): a forced disconnect only after Unresponsive, or when the close
            # timeout expired
            n, sc = opt(st.get(W.state, 'sent_close_time'))
            cn, cv = opt(a.close_timeout)
            expired = And(Not(cn), cv != 0, Not(n), session_now(ip, W) >= sc + cv)
            st.oblige('raises-only-when:unresponsive-or-close-timeout', Or(g['stage'] == 2, expired), tags=('C15',))
            if True:
                trace = [n_ for _, n_ in st.ghost.get('yield_trace', [])]
                st.oblige('unresponsive-event-precedes-its-disconnect', Implies(g['stage'] == 2, BoolVal('Unresponsive' in trace)), tags=('C15',))
            return
        if kind == 'return':
            n, sc = opt(st.get(W.state, 'sent_close_time'))
            cn, cv = opt(a.close_timeout)
            expired = And(Not(cn), cv != 0, Not(n), session_now(ip, W) >= sc + cv)
            st.oblige('exhausted:only-if-close-timeout-not-expired', Not(expired), tags=('C15',))
        return ProducerContract.check_exit(self, ip, a, old, kind, res)
