"""Contracts for lomond.compression (C06, C11): everything the repository adds around zlib is a
proof obligation; zlib itself enters only through the assumed contract in pyvc/extworld.py."""
import zlib

from z3 import And, Or, Not, If, Implies, IntVal, BoolVal, ForAll

from lomond import errors
from lomond.compression import Deflate

from pyvc.contracts import contract, Contract, T, mk, Raises, REG
from pyvc.sval import SBytes, MRef, SOpt, SStr, ExtObj, ORef, Rec, SList, fresh, iv, BYTES, BYTEARRAY, beq, cat, bslice
from pyvc.engine import SDictV
from pyvc.externals import str_to_int, is_int_str
from pyvc import extworld
from contracts.world import world

from pyvc.contracts import KNOWN   # ids of known findings whose failing class is carved out


def pow2tab(x):
    """2**x for x in 8..15 as an ite table"""
    r = IntVal(32768)
    for k in range(14, 7, -1):
        r = If(x == k, IntVal(1 << k), r)
    return r


def backrefs_fit(wb, cw):
    """ASSUMED zlib fact (deflate.h: MAX_DIST = w_size - MIN_LOOKAHEAD, MIN_LOOKAHEAD = 262): a
    deflater with window 2^wb never emits a back-reference longer than 2^wb - 262 bytes.  The
    property needs every back-reference to fit the window the peer was promised, 2^cw."""
    return pow2tab(wb) - 262 <= pow2tab(cw)


def deflate_obj(ip, name='deflate'):
    st = ip.st
    zc = ExtObj('zcompress', st.fresh_id('zc'))
    zd = ExtObj('zdecompress', st.fresh_id('zd'))
    st.ghost[zc.key] = dict(wbits=mk(ip, T.Int(9, 15), 'zc_wbits'))
    st.ghost[zd.key] = dict(wbits=mk(ip, T.Int(8, 15), 'zd_wbits'), eof=fresh('zd_eof0', BoolVal(True).sort()))
    ref = mk(ip, T.Obj(Deflate, decompress_wbits=T.Int(8, 15), compress_wbits=T.Int(8, 15), reset_decompress=T.Bool,
                       reset_compress=T.Bool, _compressobj=T.Const(zc), _decompressobj=T.Const(zd)), name)
    return ref, zc, zd


def new_since(ip, old, kind):
    n0 = len(old.ghost.get('zcreated', []))
    return [z for z in ip.st.ghost.get('zcreated', [])[n0:] if z.kind == kind]


@contract('lomond.compression.Deflate.reset_compressor', serves=['C06'])
class ResetCompressor(Contract):
    """from the property: the deflater's window must not exceed the negotiated
    client_max_window_bits (a peer honouring that parameter may size its inflater to it)"""
    def setup(self, ip, v):
        ref, zc, zd = deflate_obj(ip)
        return dict(self=ref)

    def modifies(self, ip, a):
        return [('heap', a.self, '_compressobj', T.Ext('zcompress'))]

    def result(self, ip, a, old):
        st = ip.st
        z = st.get(a.self, '_compressobj')
        cw = iv(st.get(a.self, 'compress_wbits'))
        st.ghost[z.key] = dict(wbits=If(cw < 9, IntVal(9), cw))
        return None

    def ensures(self, ip, a, old, res):
        st = ip.st
        z = st.get(a.self, '_compressobj')
        created = new_since(ip, old, 'zcompress')
        cw = iv(st.get(a.self, 'compress_wbits'))
        out = [('fresh-deflater-installed', BoolVal(isinstance(z, ExtObj) and z.kind == 'zcompress' and
                                                      (not created or z == created[-1]) and z != old.get(a.self, '_compressobj')))]
        if isinstance(z, ExtObj) and z.key in st.ghost:
            wb = st.ghost[z.key]['wbits']
            ip.st.ghost.setdefault('assumed', set()).add('zlib deflate with window 2^w emits back-references of at most 2^w - 262 bytes (MAX_DIST)')
            out.append(('deflater-back-references-fit-the-negotiated-client-window', And(wb >= 9, wb <= 15, backrefs_fit(wb, cw)), ('C06',)))
            out.append(('deflater-window-is-the-negotiated-one-when-zlib-supports-it', Implies(cw >= 9, wb == cw)))
        return out


@contract('lomond.compression.Deflate.reset_decompressor', serves=['C06'])
class ResetDecompressor(Contract):
    def setup(self, ip, v):
        ref, zc, zd = deflate_obj(ip)
        return dict(self=ref)

    def modifies(self, ip, a):
        return [('heap', a.self, '_decompressobj', T.Ext('zdecompress'))]

    def result(self, ip, a, old):
        st = ip.st
        z = st.get(a.self, '_decompressobj')
        st.ghost[z.key] = dict(wbits=iv(st.get(a.self, 'decompress_wbits')), eof=BoolVal(False))
        return None

    def ensures(self, ip, a, old, res):
        st = ip.st
        z = st.get(a.self, '_decompressobj')
        out = [('fresh-inflater-installed', BoolVal(isinstance(z, ExtObj) and z.kind == 'zdecompress' and
                                                     z != old.get(a.self, '_decompressobj')))]
        if isinstance(z, ExtObj) and z.key in st.ghost:
            out.append(('inflater-window-at-least-server-max-window-bits',
                        st.ghost[z.key]['wbits'] >= iv(st.get(a.self, 'decompress_wbits'))))
            out.append(('inflater-starts-a-new-stream', Not(st.ghost[z.key]['eof'])))
        return out


@contract('lomond.compression.Deflate.__init__', serves=['C06', 'C17'])
class DeflateInit(Contract):
    def setup(self, ip, v):
        ref = ip.st.new_obj(Deflate)
        return dict(self=ref, decompress_wbits=mk(ip, T.Int(8, 15), 'dw'), compress_wbits=mk(ip, T.Int(8, 15), 'cw'),
                    reset_decompress=mk(ip, T.Bool, 'rd'), reset_compress=mk(ip, T.Bool, 'rc'))

    def requires(self, ip, a):
        return [('wbits-in-8..15', And(iv(a.decompress_wbits) >= 8, iv(a.decompress_wbits) <= 15,
                                       iv(a.compress_wbits) >= 8, iv(a.compress_wbits) <= 15))]

    def modifies(self, ip, a):
        return [('heap', a.self, f, t) for f, t in (('decompress_wbits', T.Int), ('compress_wbits', T.Int),
                                                    ('reset_decompress', T.Bool), ('reset_compress', T.Bool),
                                                    ('_compressobj', T.Ext('zcompress')), ('_decompressobj', T.Ext('zdecompress')))]

    def result(self, ip, a, old):
        st = ip.st
        f = st.heap[a.self.oid].f
        f.update(decompress_wbits=a.decompress_wbits, compress_wbits=a.compress_wbits,
                 reset_decompress=a.reset_decompress, reset_compress=a.reset_compress)
        cw = iv(a.compress_wbits)
        st.ghost[f['_compressobj'].key] = dict(wbits=If(cw < 9, IntVal(9), cw))
        st.ghost[f['_decompressobj'].key] = dict(wbits=iv(a.decompress_wbits), eof=BoolVal(False))
        return None

    def ensures(self, ip, a, old, res):
        st = ip.st
        g = lambda f: st.get(a.self, f)
        out = [('fields', And(iv(g('decompress_wbits')) == iv(a.decompress_wbits), iv(g('compress_wbits')) == iv(a.compress_wbits),
                              g('reset_decompress') == a.reset_decompress, g('reset_compress') == a.reset_compress))]
        zc, zd = g('_compressobj'), g('_decompressobj')
        ok = isinstance(zc, ExtObj) and isinstance(zd, ExtObj) and zc.key in st.ghost and zd.key in st.ghost
        out.append(('both-zlib-streams-created', BoolVal(ok)))
        if ok:
            out.append(('deflater-back-references-fit-the-negotiated-client-window',
                        backrefs_fit(st.ghost[zc.key]['wbits'], iv(a.compress_wbits)), ('C06',)))
            out.append(('inflater-window-at-least-server-max-window-bits', st.ghost[zd.key]['wbits'] >= iv(a.decompress_wbits)))
        return out


@contract('lomond.compression.Deflate.get_wbits', serves=['C06'])
class GetWbits(Contract):
    """int(options.get(key, "15")) when that is an integer in 8..15, else CompressionParameterError"""
    def variants(self):
        return ['server_max_window_bits', 'client_max_window_bits']

    def setup(self, ip, v):
        return dict(cls=Deflate, options=SDictV('options'), key=SStr.lit(v))

    def value(self, a):
        return If(a.options.has(a.key), a.options.value(a.key).t, SStr.lit('15').t)

    def bad(self, a):
        v = self.value(a)
        return Or(Not(is_int_str(v)), str_to_int(v) < 8, str_to_int(v) > 15)

    def requires(self, ip, a):
        return [('default-15-is-an-integer', And(is_int_str(SStr.lit('15').t), str_to_int(SStr.lit('15').t) == 15))]

    def raises(self, ip, a, old):
        return [Raises(errors.CompressionParameterError, when=self.bad(a), iff=True, modifies=[])]

    def result(self, ip, a, old):
        return mk(ip, T.Int, 'wbits')

    def ensures(self, ip, a, old, res):
        return [('value', iv(res) == str_to_int(self.value(a))), ('range', And(iv(res) >= 8, iv(res) <= 15))]


@contract('lomond.compression.Deflate.from_options', serves=['C06'])
class FromOptions(Contract):
    """inflater window <- server_max_window_bits, deflater window <- client_max_window_bits,
    resets <- presence of server_/client_no_context_takeover (RFC 7692 7.1)"""
    def setup(self, ip, v):
        return dict(cls=Deflate, options=SDictV('options'))

    def _val(self, a, name):
        k = SStr.lit(name)
        return If(a.options.has(k), a.options.value(k).t, SStr.lit('15').t)

    def _bad(self, a, name):
        v = self._val(a, name)
        return Or(Not(is_int_str(v)), str_to_int(v) < 8, str_to_int(v) > 15)

    def requires(self, ip, a):
        return [('default-15-is-an-integer', And(is_int_str(SStr.lit('15').t), str_to_int(SStr.lit('15').t) == 15))]

    def raises(self, ip, a, old):
        return [Raises(errors.CompressionParameterError,
                       when=Or(self._bad(a, 'server_max_window_bits'), self._bad(a, 'client_max_window_bits')),
                       iff=True, modifies=[])]

    def result(self, ip, a, old):
        ref, zc, zd = deflate_obj(ip, 'negotiated')
        return ref

    def ensures(self, ip, a, old, res):
        st = ip.st
        if not (isinstance(res, ORef) and st.obj(res).cls is Deflate):
            return [('returns-a-Deflate', BoolVal(False))]
        g = lambda f: st.get(res, f)
        return [('inflate-window-from-server_max_window_bits', iv(g('decompress_wbits')) == str_to_int(self._val(a, 'server_max_window_bits'))),
                ('deflate-window-from-client_max_window_bits', iv(g('compress_wbits')) == str_to_int(self._val(a, 'client_max_window_bits'))),
                ('inflater-reset-iff-server_no_context_takeover', g('reset_decompress') == a.options.has(SStr.lit('server_no_context_takeover'))),
                ('deflater-reset-iff-client_no_context_takeover', g('reset_compress') == a.options.has(SStr.lit('client_no_context_takeover')))]


@contract('lomond.compression.Deflate.compress', serves=['C06', 'C11'])
class Compress(Contract):
    """the shared deflater sees exactly `payload`, then a sync flush; the result is zlib's output
    minus its trailing 00 00 FF FF; the deflater is replaced iff client_no_context_takeover"""
    def setup(self, ip, v):
        ref, zc, zd = deflate_obj(ip)
        ip.st.ghost['zc0'] = zc
        return dict(self=ref, payload=mk(ip, T.Bytes(BYTES), 'payload'))

    def modifies(self, ip, a):
        return [('heap', a.self, '_compressobj', T.Ext('zcompress'))]

    def result(self, ip, a, old):
        st = ip.st
        out = mk(ip, T.Bytes(BYTES), 'deflated')
        z0 = old.get(a.self, '_compressobj')
        out.meta = dict(deflate_of=ip.bytes_of(a.payload), deflater=z0.key)
        st.ghost.setdefault('deflate_log', []).append((z0.key, ip.bytes_of(a.payload), out, extworld._any_lock_held(st)))
        rc = st.get(a.self, 'reset_compress')
        if st.decide(rc, 'reset_compress'):
            cw = iv(st.get(a.self, 'compress_wbits'))
            st.ghost[st.get(a.self, '_compressobj').key] = dict(wbits=If(cw < 9, IntVal(9), cw))
        else:
            st.heap[a.self.oid].f['_compressobj'] = z0
        return out

    def ensures(self, ip, a, old, res):
        st = ip.st
        z0 = old.get(a.self, '_compressobj')
        log = extworld.zlog(st, z0)[len(old.ghost.get(('zlog', z0.key), [])):]
        shape = (len(log) == 2 and log[0][0] == 'compress' and log[1][0] == 'flush' and log[1][1] == zlib.Z_SYNC_FLUSH)
        out = [('result-is-immutable-bytes', BoolVal(isinstance(res, SBytes) and res.kind == BYTES))]
        if ip.reading == 'body':
            out.append(('deflater-fed-payload-then-sync-flush-exactly-once', BoolVal(shape)))
        if ip.reading == 'body' and shape and isinstance(res, SBytes):
            out.append(('deflater-input-is-the-payload', beq(log[0][1], ip.bytes_of(a.payload))))
            whole = cat(BYTES, [log[0][2], log[1][2]])
            out.append(('result-is-zlib-output-minus-4-byte-tail', beq(res, bslice(whole, None, whole.n - 4))))
        z1 = st.get(a.self, '_compressobj')
        rc = old.get(a.self, 'reset_compress')
        same = BoolVal(isinstance(z1, ExtObj) and z1 == z0)
        out.append(('context-kept-iff-no-client_no_context_takeover', same == Not(rc)))
        return out
