"""Contracts for lomond.mask and lomond.frame (C03, C04)."""
from z3 import And, Or, Not, If, Implies, IntVal, BoolVal, ForAll

from lomond import errors
from lomond.frame import Frame, CompressedFrame

from pyvc.contracts import contract, Contract, T, mk, Raises, REG
from pyvc.sval import SBytes, MRef, SOpt, SStr, Opaque, fresh, iv, BYTES, BYTEARRAY, beq
from pyvc.externals import xor8
from spec import rfc6455

REG.transparent(
    'lomond.frame.Frame.__init__', 'lomond.frame.Frame.to_bytes', 'lomond.frame.Frame.__len__',
    'lomond.frame.Frame.is_masked', 'lomond.frame.Frame.is_control', 'lomond.frame.Frame.is_text',
    'lomond.frame.Frame.is_binary', 'lomond.frame.Frame.is_continuation', 'lomond.frame.Frame.is_ping',
    'lomond.frame.Frame.is_pong', 'lomond.frame.Frame.is_close', 'lomond.opcode.is_reserved',
)


def bit(x):
    return Or(x == 0, x == 1)


@contract('lomond.mask.mask_payload', serves=['C03'])
class MaskPayload(Contract):
    def setup(self, ip, v):
        return dict(masking_key=mk(ip, T.Bytes(BYTES), 'key'), data=mk(ip, T.Bytes(BYTEARRAY), 'data'))

    def requires(self, ip, a):
        return [('key-is-4-bytes', ip.bytes_of(a.masking_key).n == 4)]

    def modifies(self, ip, a):
        return [('mem', a.data)]

    def ensures(self, ip, a, old, res):
        d0, d1, k = old.bytes(a.data), ip.bytes_of(a.data), ip.bytes_of(a.masking_key)
        j = fresh('j')
        return [('same-length', d1.n == d0.n),
                ('xor-per-index', ForAll([j], Implies(And(j >= 0, j < d0.n),
                                                      d1.at(j) == xor8(d0.at(j), k.at(j % 4))))),
                ('returns-none', BoolVal(res is None))]


def build_post(ip, d, res_n, opcode, fin, rsv1, rsv2, rsv3, mask, payload0, given_key):
    """C03 post of Frame.build, from the property statement: the result decodes (RFC 6455 5.2,
    independent spec decoder) to the very fields passed in, consumes the whole result, uses the
    shortest length form, and its payload is payload XOR key (5.3) when masked"""
    j = fresh('j')
    out = [('fin', d.fin == fin), ('rsv1', d.rsv1 == rsv1), ('rsv2', d.rsv2 == rsv2), ('rsv3', d.rsv3 == rsv3),
           ('opcode', d.opcode == opcode),
           ('mask-bit', d.mask == (1 if mask else 0)),
           ('declared-length', d.plen == payload0.n),
           ('whole-result-is-one-frame', d.total == res_n),
           ('minimal-length-form', d.minimal)]
    if mask:
        out.append(('payload-is-xor-with-key-in-frame',
                    ForAll([j], Implies(And(j >= 0, j < payload0.n),
                                        d.payload.at(j) == xor8(payload0.at(j), d.key.at(j % 4))))))
        if given_key is not None:
            out.append(('uses-given-key', And(*[d.key.at(IntVal(i)) == given_key.at(IntVal(i)) for i in range(4)])))
    else:
        out.append(('payload-verbatim', ForAll([j], Implies(And(j >= 0, j < payload0.n),
                                                            d.payload.at(j) == payload0.at(j)))))
    return out


@contract('lomond.frame.Frame.build', serves=['C03'])
class FrameBuild(Contract):
    def variants(self):
        return ['%s-%s-%s' % (pk, m, k) for pk in ('bytes', 'bytearray') for m in ('masked', 'unmasked')
                for k in ('nokey', 'key') if not (m == 'unmasked' and k == 'key')]

    def setup(self, ip, v):
        pk, m, k = v.split('-')
        return dict(cls=Frame, opcode=mk(ip, T.Int(0, 15), 'opcode'),
                    payload=mk(ip, T.Bytes(BYTES if pk == 'bytes' else BYTEARRAY), 'payload'),
                    fin=mk(ip, T.Int(0, 1), 'fin'), rsv1=mk(ip, T.Int(0, 1), 'rsv1'),
                    rsv2=mk(ip, T.Int(0, 1), 'rsv2'), rsv3=mk(ip, T.Int(0, 1), 'rsv3'),
                    mask=(m == 'masked'), masking_key=mk(ip, T.Bytes(BYTES, n=4), 'mkey') if k == 'key' else None)

    def requires(self, ip, a):
        r = [('opcode-4-bits', And(a.opcode >= 0, a.opcode < 16)),
             ('flag-bits', And(bit(iv(a.fin)), bit(iv(a.rsv1)), bit(iv(a.rsv2)), bit(iv(a.rsv3)))),
             ('mask-is-bool', BoolVal(isinstance(a.mask, bool))),
             ('payload-is-bytes-or-bytearray', BoolVal(ip.is_byteslike(a.payload)))]
        if a.masking_key is not None:
            r.append(('key-is-4-bytes', ip.bytes_of(a.masking_key).n == 4))
        return r

    def modifies(self, ip, a):
        return [('mem', a.payload)] if isinstance(a.payload, MRef) and a.mask else []

    def result(self, ip, a, old):
        return mk(ip, T.Bytes(BYTES), 'frame_bytes')

    def _payload0(self, ip, a, old):
        return old.bytes(a.payload) if isinstance(a.payload, MRef) else a.payload

    def ensures(self, ip, a, old, res):
        if not (isinstance(res, SBytes) and res.kind == BYTES):
            return [('result-is-immutable-bytes', BoolVal(False))]
        d = rfc6455.decode_one(res)
        p0 = self._payload0(ip, a, old)
        key = ip.bytes_of(a.masking_key) if a.masking_key is not None else None
        return [('result-is-immutable-bytes', BoolVal(True))] + \
            build_post(ip, d, res.n, a.opcode, a.fin, a.rsv1, a.rsv2, a.rsv3, a.mask, p0, key)

    def raises(self, ip, a, old):
        p0 = self._payload0(ip, a, old)
        return [Raises(errors.FrameBuildError, when=p0.n >= 2 ** 63, iff=True, modifies=[])]


@contract('lomond.frame.Frame.build_close_payload', serves=['C03', 'C08'])
class BuildClosePayload(Contract):
    """status None -> b''; else 2-byte big-endian code followed by the reason (UTF-8 if text)"""
    def variants(self):
        return ['%s-%s' % (s, r) for s in ('none', 'code') for r in ('bytes', 'str')]

    def setup(self, ip, v):
        s, r = v.split('-')
        return dict(cls=Frame, status=None if s == 'none' else mk(ip, T.Int(), 'status'),
                    reason=mk(ip, T.Bytes(BYTES) if r == 'bytes' else T.Str, 'reason'))

    def requires(self, ip, a):
        r = [('reason-is-bytes-or-str', BoolVal(isinstance(a.reason, (SBytes, SStr)) and
                                                 (not isinstance(a.reason, SBytes) or a.reason.kind == BYTES)))]
        if a.status is not None:
            r.append(('status-fits-16-bits', And(iv(a.status) >= 0, iv(a.status) < 65536)))
        return r

    def result(self, ip, a, old):
        return mk(ip, T.Bytes(BYTES), 'close_payload')

    def reason_bytes(self, ip, a):
        if isinstance(a.reason, SStr):
            from pyvc import sval
            for f in sval.str_encode_facts(a.reason):
                ip.st.assume(f)
            return sval.str_encode(a.reason)
        return a.reason

    def ensures(self, ip, a, old, res):
        if not (isinstance(res, SBytes) and res.kind == BYTES):
            return [('result-is-bytes', BoolVal(False))]
        if a.status is None:
            return [('empty-when-no-status', res.n == 0)]
        rb = self.reason_bytes(ip, a)
        j = fresh('j')
        return [('length', res.n == 2 + rb.n),
                ('code-big-endian', res.at(IntVal(0)) * 256 + res.at(IntVal(1)) == iv(a.status)),
                ('code-bytes-in-range', And(res.at(IntVal(0)) >= 0, res.at(IntVal(0)) < 256,
                                            res.at(IntVal(1)) >= 0, res.at(IntVal(1)) < 256)),
                ('reason-follows', ForAll([j], Implies(And(j >= 0, j < rb.n), res.at(j + 2) == rb.at(j))))]


# ------------------------------------------------------------------------------- validation (C04)
def frame_obj(ip, cls, name='frame'):
    return mk(ip, T.Obj(cls, opcode=T.Int(0, 15), payload=T.Bytes(BYTES), fin=T.Int(0, 1), rsv1=T.Int(0, 1),
                        rsv2=T.Int(0, 1), rsv3=T.Int(0, 1), mask=T.Bool, masking_key=T.Const(None)), name)


class _ValidateBits(Contract):
    cls = Frame

    def setup(self, ip, v):
        return dict(self=frame_obj(ip, self.cls))

    def bad(self, ip, a, old):
        g = lambda f: iv(old.get(a.self, f))
        if self.cls is CompressedFrame:
            return Or(g('rsv2') != 0, g('rsv3') != 0, And(g('rsv1') != 0, g('opcode') >= 8))
        return Or(g('rsv1') != 0, g('rsv2') != 0, g('rsv3') != 0)

    def raises(self, ip, a, old):
        return [Raises(errors.ProtocolError, 'reserved-bits', when=self.bad(ip, a, old), iff=True, modifies=[])]

    def ensures(self, ip, a, old, res):
        return [('returns-none', BoolVal(res is None))]


@contract('lomond.frame.Frame.validate_reserved_bits', serves=['C04', 'C06'])
class ValidateBits(_ValidateBits):
    cls = Frame


@contract('lomond.frame.CompressedFrame.validate_reserved_bits', serves=['C04', 'C06'])
class ValidateBitsC(_ValidateBits):
    cls = CompressedFrame


@contract('lomond.frame.Frame.validate', serves=['C04'])
class FrameValidate(Contract):
    """raises ProtocolError iff the frame (with the payload it currently holds) is not acceptable:
    control frame longer than 125 or fragmented, reserved bits (rsv1 tolerated by CompressedFrame),
    reserved opcode"""
    def variants(self):
        return ['Frame', 'CompressedFrame']

    def setup(self, ip, v):
        return dict(self=frame_obj(ip, Frame if v == 'Frame' else CompressedFrame))

    def bad(self, ip, a, old):
        g = lambda f: iv(old.get(a.self, f))
        cls = ip.st.obj(a.self).cls
        plen = ip.bytes_of(old.get(a.self, 'payload')).n
        rsv_bad = Or(g('rsv2') != 0, g('rsv3') != 0, And(g('rsv1') != 0, g('opcode') >= 8)) if issubclass(cls, CompressedFrame) else \
            Or(g('rsv1') != 0, g('rsv2') != 0, g('rsv3') != 0)
        op = g('opcode')
        return Or(And(op >= 8, plen > 125), rsv_bad, Or(*[op == r for r in rfc6455.RESERVED_OPCODES]),
                  And(g('fin') == 0, op >= 8))

    def raises(self, ip, a, old):
        return [Raises(errors.ProtocolError, 'invalid-frame', when=self.bad(ip, a, old), iff=True, modifies=[])]

    def ensures(self, ip, a, old, res):
        return [('returns-none', BoolVal(res is None))]
