"""BOUNDED stand-ins that back the deductive obligations of the byte-level functions with concrete runs of the REAL
functions at the boundary lengths (labelled bounded in the evidence, never counted as proved).  Their purpose: when a
function is rewritten so that the verifier can no longer decide it (a new loop without an invariant, an unsupported
string method), the check still has a concrete failing input to report instead of only 'undecided'."""
import base64
import hashlib
import struct

from pyvc.ground import ground

LENGTHS = [0, 1, 2, 3, 4, 5, 7, 124, 125, 126, 127, 128, 255, 256, 65534, 65535, 65536, 65537, 70001, 131070, 131071, 131072, 131075, 200003]
KEYS = [b'\x01\x02\x03\x04', b'\xff\x00\xaa\x55', b'\x00\x00\x00\x00', b'\x80\x7f\x01\xfe']


def pay(n, salt=0):
    return bytes((i * 131 + 7 * salt + (i >> 8)) % 256 for i in range(n))


@ground('bounded.mask.mask_payload', serves=['C03'])
def bounded_mask_payload():
    from lomond.mask import mask_payload
    bad, n = None, 0
    for ln in LENGTHS:
        for key in KEYS:
            src = pay(ln, key[0])
            data = bytearray(src)
            mask_payload(key, data)
            n += 1
            exp = bytes(b ^ key[i % 4] for i, b in enumerate(src))
            if bytes(data) != exp and bad is None:
                k = next(i for i in range(min(len(data), len(exp))) if data[i] != exp[i]) if len(data) == len(exp) else -1
                bad = dict(payload_length=ln, key=key.hex(), first_wrong_offset=k, got=data[k:k + 4].hex() if k >= 0 else 'length %d' % len(data),
                           expected=exp[k:k + 4].hex() if k >= 0 else 'length %d' % len(exp))
    yield ('mask_payload==per-index-xor-with-key[i%%4](%d runs, lengths up to 200003)' % n, bad is None, bad, 'bounded enumeration')


def decode_frame(w):
    b0, b1 = w[0], w[1]
    d = dict(fin=b0 >> 7, rsv1=(b0 >> 6) & 1, rsv2=(b0 >> 5) & 1, rsv3=(b0 >> 4) & 1, opcode=b0 & 15, mask=b1 >> 7, len7=b1 & 127)
    off = 2
    if d['len7'] == 126:
        plen, off = struct.unpack('!H', w[2:4])[0], 4
    elif d['len7'] == 127:
        plen, off = struct.unpack('!Q', w[2:10])[0], 10
    else:
        plen = d['len7']
    d['minimal'] = not ((d['len7'] == 126 and plen < 126) or (d['len7'] == 127 and plen < 65536))
    key = w[off:off + 4] if d['mask'] else None
    off += 4 if d['mask'] else 0
    raw = w[off:off + plen]
    d.update(plen=plen, key=key, total=off + plen, payload=bytes(b ^ key[i % 4] for i, b in enumerate(raw)) if key else raw)
    return d


@ground('bounded.frame.Frame.build', serves=['C03'])
def bounded_frame_build():
    from lomond.frame import Frame
    bad, n = None, 0
    for ln in LENGTHS:
        for key in KEYS[:2]:
            for opcode, fin, rsv1 in ((2, 1, 0), (1, 1, 1), (0, 0, 0), (9, 1, 0)):
                if opcode == 9 and ln > 125:
                    continue
                for kind in (bytes, bytearray):
                    src = pay(ln, opcode)
                    w = Frame.build(opcode, kind(src), fin=fin, rsv1=rsv1, mask=True, masking_key=key)
                    n += 1
                    d = decode_frame(w)
                    ok = (d['fin'], d['rsv1'], d['rsv2'], d['rsv3'], d['opcode'], d['mask']) == (fin, rsv1, 0, 0, opcode, 1) and d['minimal'] \
                        and d['plen'] == ln and d['total'] == len(w) and d['key'] == key and d['payload'] == src
                    if not ok and bad is None:
                        k = next((i for i in range(min(len(src), len(d['payload']))) if src[i] != d['payload'][i]), None)
                        bad = dict(payload_length=ln, key=key.hex(), opcode=opcode, fin=fin, rsv1=rsv1, header=w[:14].hex(),
                                   decoded={x: d[x] for x in ('fin', 'rsv1', 'opcode', 'mask', 'plen', 'minimal', 'total')}, first_wrong_payload_offset=k)
    yield ('Frame.build-decodes-to-its-arguments(%d frames at the length-form boundaries)' % n, bad is None, bad, 'bounded enumeration')


@ground('bounded.websocket.on_response', serves=['C10'])
def bounded_on_response():
    """the upgrade decision on enumerated replies: Ready iff status 101, Upgrade: websocket (any case) and the
    Sec-WebSocket-Accept value is EXACTLY base64(sha1(key + GUID)); the known finding C10-accept-case (value equal
    up to letter case) is carved out, every other wrong value must be refused"""
    import json
    import os
    from lomond.websocket import WebSocket
    from lomond.response import Response
    from lomond import errors, constants
    known = 'C10-accept-case' in json.loads(os.environ.get('PYVC_KNOWN', '[]'))
    bad, n = None, 0
    for url in ('ws://example.com/', 'wss://example.com/chat?x=1'):
        ws = WebSocket(url)
        key = ws.key
        digest = base64.b64encode(hashlib.sha1(key + constants.WS_KEY).digest()).decode('ascii')
        other = base64.b64encode(hashlib.sha1(b'x' * 24 + constants.WS_KEY).digest()).decode('ascii')
        accepts = [(digest, True), (other, False), (digest[:-1], False), (digest.rstrip('='), False), (digest + '=', False), (digest + '==', False),
                   (digest[:27] + ('A' if digest[27] != 'A' else 'B'), False), ('', False), (' ' + digest, None), (digest + ' ', None),
                   (digest[1:], False), ('=' + digest, False), (digest.swapcase(), 'case'), (None, False)]
        for status, sok in ((b'101 Switching Protocols', True), (b'200 OK', False), (b'400 Bad Request', False), (b'301 Moved', False)):
            for upgrade, uok in ((b'websocket', True), (b'WebSocket', True), (b'h2c', False), (None, False)):
                for acc, aok in accepts:
                    if aok is None:
                        continue          # surrounding blanks are removed by the header parser (its own bounded check)
                    hdr = b'HTTP/1.1 ' + status + b'\r\n'
                    if upgrade is not None:
                        hdr += b'Upgrade: ' + upgrade + b'\r\nConnection: Upgrade\r\n'
                    if acc is not None:
                        hdr += b'Sec-WebSocket-Accept: ' + acc.encode('ascii') + b'\r\n'
                    hdr += b'\r\n'
                    n += 1
                    try:
                        ws.on_response(Response(hdr))
                        got = True
                    except errors.HandshakeError:
                        got = False
                    except Exception as e:      # noqa
                        got = 'exception %r' % (e,)
                    if aok == 'case':
                        if known:
                            continue
                        want = False
                    else:
                        want = bool(sok and uok and aok)
                    if got != want and bad is None:
                        bad = dict(status=status.decode(), upgrade=None if upgrade is None else upgrade.decode(), accept=acc, correct_accept=digest,
                                   accepted=got, must_accept=want)
    yield ('on_response-accepts-exactly-the-correct-upgrade-reply(%d replies)' % n, bad is None, bad, 'bounded enumeration')
