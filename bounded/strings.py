"""BOUNDED stand-ins for the string-processing code (DESIGN section 6): the sidecar contract
"result == independent reference parser" is evaluated on the REAL functions over an exhaustively
enumerated small grammar.  Labelled bounded in the evidence and never counted as proved."""
import base64
import itertools
import re

from pyvc.ground import ground

WS = ['', ' ', '\t', '  ']


def ref_parse_extension(s):
    """RFC 7230 3.2.6 / RFC 6455 9.1: token *( OWS ";" OWS param ), param = token [ "=" value ],
    OWS allowed around ';' and '='; value is a token or a quoted string"""
    parts = s.split(';')
    token = parts[0].strip(' \t')
    opts = {}
    for p in parts[1:]:
        if '=' in p:
            k, v = p.split('=', 1)
            v = v.strip(' \t')
            if len(v) >= 2 and v[0] == '"' and v[-1] == '"':
                v = v[1:-1]
            opts[k.strip(' \t')] = v
        else:
            opts[p.strip(' \t')] = ''
    return token, opts


@ground('bounded.extension.parse_extension', serves=['C06'])
def bounded_parse_extension():
    from lomond.extension import parse_extension
    from lomond.compression import Deflate
    params = [('server_max_window_bits', ['8', '12', '15', '"10"']), ('client_max_window_bits', ['8', '9', '15', '"14"']),
              ('server_no_context_takeover', [None]), ('client_no_context_takeover', [None])]
    n = 0
    bad = None
    bad2 = None
    for token in ('permessage-deflate', 'x-other'):
        for k in range(0, 4):
            for combo in itertools.permutations(params, k) if k <= 2 else list(itertools.permutations(params, k))[:12]:
                value_sets = [vals for _, vals in combo]
                for values in itertools.product(*value_sets):
                    for w1, w2, w3 in itertools.product(WS[:3], WS[:3], WS[:2]):
                        s = token
                        for (name, _), v in zip(combo, values):
                            s += w1 + ';' + w2 + name + ('' if v is None else w3 + '=' + w3 + v)
                        n += 1
                        got = parse_extension(s)
                        exp = ref_parse_extension(s)
                        if (got[0], dict(got[1])) != exp and bad is None:
                            bad = dict(input=s, got=[got[0], dict(got[1])], expected=list(exp))
                        if token == 'permessage-deflate' and bad2 is None:
                            # the negotiated parameters as the Deflate object sees them
                            try:
                                d = Deflate.from_options(got[1])
                                e = exp[1]
                                want = (int(e.get('server_max_window_bits', '15') or '15'), int(e.get('client_max_window_bits', '15') or '15'),
                                        'server_no_context_takeover' in e, 'client_no_context_takeover' in e)
                                have = (d.decompress_wbits, d.compress_wbits, d.reset_decompress, d.reset_compress)
                                if have != want:
                                    bad2 = dict(input=s, deflate=list(have), expected=list(want))
                            except Exception as ex:      # a valid parameter set must not be refused
                                if not (e.get('client_max_window_bits', '15') == ''):
                                    bad2 = dict(input=s, error=repr(ex))
    yield ('parse_extension==reference-parser(%d strings)' % n, bad is None, bad, 'bounded enumeration')
    yield ('negotiated-parameters-reach-Deflate-unchanged(%d strings)' % n, bad2 is None, bad2, 'bounded enumeration')


def ref_parse_response(raw):
    """RFC 7230 3: status line; header fields with case-insensitive names, OWS around values,
    obs-fold lines joined with a space, repeated names joined with a comma"""
    lines = raw.split(b'\r\n')
    st = lines[0].split(None, 2)
    try:
        code = int(st[1])
    except (IndexError, ValueError):
        code = None
    hdrs = {}
    order = []
    cur = None
    for ln in lines[1:]:
        if not ln.strip():
            continue
        if ln[:1] in (b' ', b'\t'):
            if cur:
                hdrs[cur] += ' ' + ln.strip().decode('ascii', 'replace')
            continue
        name, _, value = ln.partition(b':')
        cur = name.decode('ascii', 'replace').strip().lower()
        v = value.strip().decode('ascii', 'replace')
        if cur in hdrs:
            hdrs[cur] = hdrs[cur] + ',' + v
        else:
            hdrs[cur] = v
    return code, {k: v.strip(' \t') for k, v in hdrs.items()}      # OWS around a field value is not part of it (RFC 7230 3.2.4)


@ground('bounded.response.Response', serves=['C10', 'C19', 'C06'])
def bounded_response():
    from lomond.response import Response
    names = [b'Upgrade', b'upgrade', b'UPGRADE', b'Sec-WebSocket-Accept', b'sec-websocket-accept', b'Sec-WebSocket-Extensions', b'X-A']
    values = [b'websocket', b'WebSocket', b'abc=', b'a, b', b'']
    statuses = [b'HTTP/1.1 101 Switching Protocols', b'HTTP/1.1 200 OK', b'HTTP/1.1 101', b'HTTP/1.0 404 Not Found', b'garbage']
    n = 0
    bad = None
    lines_pool = []
    for nm in names:
        for v in values:
            for pre, post in ((b'', b''), (b' ', b''), (b' ', b'  '), (b'\t', b' ')):
                lines_pool.append(nm + b':' + pre + v + post)
    import random
    rnd = random.Random(int(__import__('os').environ.get('VERIF_SEED', '0') or 0))
    for status in statuses:
        for k in (0, 1, 2, 3):
            combos = list(itertools.permutations(lines_pool[::7], k)) if k <= 2 else [tuple(rnd.sample(lines_pool, 3)) for _ in range(300)]
            for combo in combos:
                for fold in (False, True):
                    ls = list(combo)
                    if fold and ls:
                        ls.insert(1, b'  folded-part')
                    raw = b'\r\n'.join([status] + ls) + b'\r\n\r\n'
                    n += 1
                    r = Response(raw)
                    code, hdrs = ref_parse_response(raw)
                    got = {k2: v2 for k2, v2 in r.headers.items()}
                    # RFC 7230 3.2.4: a field value has no leading / trailing white space (so the ends are compared exactly);
                    # runs of white space inside (obs-fold) and around the comma of a joined duplicate are equivalent
                    norm = lambda d: {a: re.sub(r'\s*,\s*', ',', re.sub(r'\s+', ' ', b_)) for a, b_ in d.items()}
                    if (r.status_code != code or norm(got) != norm(hdrs)) and bad is None:
                        bad = dict(input=raw.decode('latin-1'), got=[r.status_code, got], expected=[code, hdrs])
                    for nm in ('upgrade', 'Upgrade', 'sec-websocket-accept'):
                        if r.get(nm, None) != r.headers.get(nm.lower(), None) and bad is None:
                            bad = dict(input=raw.decode('latin-1'), get=nm)
    # a value that sits entirely, or partly, on folded continuation lines (obs-fold right after the colon / after white space)
    for status in statuses[:2]:
        for nm in names:
            for v in values[:4]:
                for first in (b'', b' ', b'\t ', b' ' + v[:2], b' ' + v[:2] + b' '):
                    for lead in (b' ', b'\t', b'   '):
                        for trail in (b'', b' '):
                            for before, after in (([], []), ([b'X-B: 1'], []), ([], [b'X-B: 1']), ([nm + b': ' + v], [])):
                                rest = v if first.strip() == b'' else v[2:]
                                if not rest:
                                    continue
                                raw = b'\r\n'.join([status] + before + [nm + b':' + first, lead + rest + trail] + after) + b'\r\n\r\n'
                                n += 1
                                r = Response(raw)
                                code, hdrs = ref_parse_response(raw)
                                got = dict(r.headers)
                                if (r.status_code != code or norm(got) != norm(hdrs)) and bad is None:
                                    bad = dict(input=raw.decode('latin-1'), got=[r.status_code, got], expected=[code, hdrs])
    yield ('Response==reference-field-parser(%d replies)' % n, bad is None, bad, 'bounded enumeration')
    # get_list: comma separated items, stripped
    bad = None
    m = 0
    for v in ('', ' ', 'a', 'a,b', ' a , b ', 'permessage-deflate; client_max_window_bits=10, x-foo', 'a,,b'):
        raw = b'HTTP/1.1 101 X\r\nSec-WebSocket-Extensions: ' + v.encode() + b'\r\n\r\n'
        exp = [p.strip() for p in v.split(',')] if v.strip() else []
        m += 1
        if Response(raw).get_list('sec-websocket-extensions') != exp and bad is None:
            bad = dict(value=v, got=Response(raw).get_list('sec-websocket-extensions'), expected=exp)
    yield ('get_list==comma-split-and-strip(%d values)' % m, bad is None, bad, 'bounded enumeration')


def ref_parse_request(b):
    head, sep, rest = b.partition(b'\r\n\r\n')
    lines = head.split(b'\r\n')
    m = re.match(br'^([A-Z]+) (\S+) HTTP/1\.1$', lines[0])
    hdrs = []
    for ln in lines[1:]:
        name, _, value = ln.partition(b': ')
        hdrs.append((name, value))
    return (m.group(1), m.group(2)) if m else None, hdrs, sep, rest


@ground('bounded.websocket.build_request', serves=['C10'])
def bounded_build_request():
    from lomond.websocket import WebSocket
    bad = None
    n = 0
    for scheme, host, port, path, query in itertools.product(('ws', 'wss'), ('example.com', '127.0.0.1', 'a-b.example.org'), (None, 80, 443, 8080),
                                                              ('', '/', '/chat/room'), ('', 'x=1&y=2')):
        url = '%s://%s%s%s%s' % (scheme, host, '' if port is None else ':%d' % port, path, ('?' + query) if query else '')
        for protocols, compress, custom in itertools.product(([], ['chat'], ['chat', 'superchat']), (False, True), ([], [(b'X-Token', b'abc')])):
            n += 1
            ws = WebSocket(url, protocols=protocols, compress=compress, proxies={})
            for h, v in custom:
                ws.add_header(h, v)
            req = ws.build_request()
            first, hdrs, sep, rest = ref_parse_request(req)
            d = {}
            for k, v in hdrs:
                d.setdefault(k.lower(), []).append(v)
            exp_port = port if port else (443 if scheme == 'wss' else 80)
            exp_res = (path or '/') + (('?' + query) if query else '')
            key = d.get(b'sec-websocket-key', [b''])[0]
            problems = []
            if first != (b'GET', exp_res.encode()):
                problems.append('request line %r' % (first,))
            if sep != b'\r\n\r\n' or rest != b'':
                problems.append('not terminated by exactly one empty line')
            if d.get(b'host') != [('%s:%d' % (host, exp_port)).encode()]:
                problems.append('Host %r' % d.get(b'host'))
            if [x.lower() for x in d.get(b'upgrade', [])] != [b'websocket'] or [x.lower() for x in d.get(b'connection', [])] != [b'upgrade']:
                problems.append('Upgrade/Connection')
            if d.get(b'sec-websocket-version') != [b'13']:
                problems.append('version')
            try:
                if len(base64.b64decode(key, validate=True)) != 16 or key != ws.key:
                    problems.append('key')
            except Exception:
                problems.append('key not base64')
            if protocols and d.get(b'sec-websocket-protocol') != [', '.join(protocols).encode()]:
                problems.append('protocols')
            if not protocols and b'sec-websocket-protocol' in d:
                problems.append('protocols offered without being asked')
            if compress != (b'sec-websocket-extensions' in d) or (compress and b'permessage-deflate' not in d[b'sec-websocket-extensions'][0]):
                problems.append('extensions')
            for h, v in custom:
                if d.get(h.lower()) != [v]:
                    problems.append('custom header')
            if len(set(k for k in d if len(d[k]) > 1)) > 0:
                problems.append('duplicate headers')
            if problems and bad is None:
                bad = dict(url=url, protocols=protocols, compress=compress, problems=problems, request=req.decode('latin-1'))
    yield ('build_request-recovered-by-an-independent-request-parser(%d configurations)' % n, bad is None, bad, 'bounded enumeration')
    keys = set()
    for _ in range(200):
        keys.add(WebSocket('ws://example.com/', proxies={}).key)
    ws = WebSocket('ws://example.com/', proxies={})
    k0 = ws.key
    list(itertools.islice(ws.connect(), 0))
    ws.reset()
    yield ('a-fresh-16-byte-key-per-State(200 draws distinct; reset draws a new one)', len(keys) == 200 and ws.key != k0 and all(len(base64.b64decode(k)) == 16 for k in keys), None, 'bounded enumeration')


@ground('bounded.proxy.build_request', serves=['C19'])
def bounded_proxy_request():
    from lomond import proxy
    bad = None
    n = 0
    for host, port, user, pw in itertools.product(('example.com', '10.0.0.1', 'xn--bcher-kva.example'), (80, 443, 8080, 65535), (None, 'user'), (None, 'secret', '')):
        n += 1
        req = proxy.build_request(host, port, proxy_username=user, proxy_password=pw)
        first, hdrs, sep, rest = ref_parse_request(req)
        problems = []
        if first != (b'CONNECT', ('%s:%d' % (host, port)).encode()):
            problems.append('request line %r' % (first,))
        if sep != b'\r\n\r\n' or rest != b'':
            problems.append('termination')
        d = {k.lower(): v for k, v in hdrs}
        if d.get(b'host') != host.encode():
            problems.append('Host header')
        if problems and bad is None:
            bad = dict(host=host, port=port, user=user, problems=problems, request=req.decode('latin-1'))
    yield ('CONNECT-request-names-exactly-the-target-host-and-port(%d cases)' % n, bad is None, bad, 'bounded enumeration')
